(* C10 - only one submitter at a time; stale state never overwrites newer state.
   Only statements here; every proof is `exact <lemma>` (ClusterProofs.v); model in Cluster.v. *)
From Coq Require Import List NArith Bool Arith.
From Jade Require Import Base Cluster ClusterProofs.
Import ListNotations.
Open Scope N_scope.

(* Along EVERY operation sequence (any length, any number of handles and hosts, starting from
   Cluster.create on any host) in which handles demote only after their own successful promotion
   (protocol_ok), at most one handle holds the role, the submitter field on disk names the holder's
   host, and the field is set only if a holder exists. *)
Theorem c10_single_holder : forall host ops,
  protocol_ok (create host) ops = true ->
  let s := run (create host) ops in
  let sub := c_submitter (d_cfg (s_disk s)) in
  (forall i h, nth_error (s_handles s) i = Some h -> h_promoted h = true -> sub = Some (h_host h)) /\
  (forall i j hi hj, nth_error (s_handles s) i = Some hi -> nth_error (s_handles s) j = Some hj ->
                     h_promoted hi = true -> h_promoted hj = true -> i = j) /\
  (forall x, sub = Some x ->
             exists i h, nth_error (s_handles s) i = Some h /\ h_promoted h = true /\ h_host h = x).
Proof. exact single_holder. Qed.
Print Assumptions c10_single_holder.
