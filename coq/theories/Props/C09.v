(* C09 - persisted status is always consistent and only moves forward.
   Only statements here; every proof is `exact <lemma>` (StatusProofs.v) over the model Status.v of
   jade/jobs/cluster.py.  Vocabulary: wf, status_inv, mono, job_adv (top of StatusProofs.v);
   round_ok / op_ok / run_ok (Status.v) are the preconditions that the real callers
   (HpcSubmitter.run, JobSubmitter, resubmit_jobs) guarantee, as boolean predicates. *)
From Coq Require Import List ZArith NArith Bool.
From Jade Require Import Base Status StatusProofs.
Import ListNotations.
Open Scope Z_scope.

(* _update_job_status (with the in-memory pre-mutations of _update_completed_jobs) keeps the status
   consistent under the preconditions of a submitter round ... *)
Theorem c09_update_job_status_inv : forall s a, wf s -> status_inv s -> round_ok s a = true ->
  exists s', round s a = Ok s' /\ wf s' /\ status_inv s'.
Proof. exact round_inv. Qed.
Print Assumptions c09_update_job_status_inv.

(* ... none of its assertions (nor a KeyError) is reachable there ... *)
Theorem c09_update_job_status_no_assert : forall s a, wf s -> status_inv s -> round_ok s a = true ->
  forall e, round s a <> Err e.
Proof. exact round_no_assert. Qed.
Print Assumptions c09_update_job_status_no_assert.

(* ... and the status only moves forward: counters, job states NOT_SUBMITTED -> SUBMITTED -> DONE,
   blocked_by shrinks, versions, is_complete / is_canceled stay *)
Theorem c09_update_job_status_monotone : forall s a s', wf s -> status_inv s -> round_ok s a = true ->
  round s a = Ok s' -> mono s s'.
Proof. exact round_mono. Qed.
Print Assumptions c09_update_job_status_monotone.

(* _are_all_jobs_complete: its assertions are unreachable on a consistent status and it answers
   true exactly when every job is DONE *)
Theorem c09_are_all_jobs_complete : forall s, wf s -> status_inv s ->
  exists b, are_all_complete s = Ok b /\ (b = true <-> forall j, In j (js_jobs (st_js s)) -> j_state j = DONE).
Proof. exact all_complete_iff. Qed.
Print Assumptions c09_are_all_jobs_complete.

(* every operation (round, mark_complete, mark_canceled, prepare_for_resubmission, a new process,
   promote/demote, complete_hpc_job_id) under its precondition: no exception, consistent afterwards,
   monotone unless it is a resubmission *)
Theorem c09_every_operation : forall s o, wf s -> status_inv s -> op_ok s o = true ->
  exists s', step s o = Ok s' /\ wf s' /\ status_inv s' /\ (is_resubmit o = false -> mono s s').
Proof. exact step_inv. Qed.
Print Assumptions c09_every_operation.

(* what Cluster.create writes is consistent *)
Theorem c09_create_consistent : forall spec, NoDup (map (fun x => fst (fst x)) spec) ->
  wf (create spec) /\ status_inv (create spec).
Proof. exact create_inv. Qed.
Print Assumptions c09_create_consistent.

(* for EVERY history of operations of any length, at every point of it: the persisted status is
   consistent *)
Theorem c09_consistent : forall spec ops1 ops2,
  NoDup (map (fun x => fst (fst x)) spec) -> run_ok (create spec) (ops1 ++ ops2) = true ->
  exists s1, run (create spec) ops1 = Ok s1 /\ wf s1 /\ status_inv s1.
Proof. exact consistent_everywhere. Qed.
Print Assumptions c09_consistent.

(* no assertion of the status bookkeeping fires anywhere in such a history *)
Theorem c09_no_assert : forall spec ops,
  NoDup (map (fun x => fst (fst x)) spec) -> run_ok (create spec) ops = true ->
  exists s, run (create spec) ops = Ok s /\ exists b, are_all_complete s = Ok b.
Proof. exact no_assert_everywhere. Qed.
Print Assumptions c09_no_assert.

(* between any two observations with no resubmission in between the status only moves forward *)
Theorem c09_monotone : forall spec ops1 ops2,
  NoDup (map (fun x => fst (fst x)) spec) -> run_ok (create spec) (ops1 ++ ops2) = true ->
  forallb (fun o => negb (is_resubmit o)) ops2 = true ->
  exists s1 s2, run (create spec) ops1 = Ok s1 /\ run (create spec) (ops1 ++ ops2) = Ok s2 /\ mono s1 s2.
Proof. exact monotone_between. Qed.
Print Assumptions c09_monotone.

(* versions increase strictly with every change of the file they version *)
Theorem c09_versions_strict : forall s s', mono s s' ->
  (st_cfg s <> st_cfg s' -> c_version (st_cfg s) < c_version (st_cfg s'))
  /\ (st_js s <> st_js s' -> js_version (st_js s) < js_version (st_js s')).
Proof. exact versions_strict. Qed.
Print Assumptions c09_versions_strict.

(* prepare_for_resubmission (as repaired by /repo commits ce6353a, 34e0409) on a complete submission, for EVERY
   rerun set and blocker map (unknown names, duplicates included): no exception, the status is
   consistent again (counters recounted from the table), the rerun jobs are NOT_SUBMITTED with the
   given blockers, all other jobs untouched, is_complete false, both versions strictly higher, the
   rows of the rerun jobs dropped; is_canceled cleared.  On an incomplete submission: assertion. *)
Theorem c09_resubmit_reset : forall s rerun upd, wf s -> status_inv s -> c_complete (st_cfg s) = true ->
  exists s', prepare_for_resubmission s rerun upd = Ok s' /\ wf s' /\ status_inv s'
    /\ c_complete (st_cfg s') = false
    /\ c_num (st_cfg s') = c_num (st_cfg s)
    /\ js_jobs (st_js s') = map (reset_job rerun upd) (js_jobs (st_js s))
    /\ c_version (st_cfg s) < c_version (st_cfg s')
    /\ js_version (st_js s) < js_version (st_js s')
    /\ c_canceled (st_cfg s') = false
    /\ st_rows s' = diffN (st_rows s) rerun.
Proof. exact resubmit_reset. Qed.
Print Assumptions c09_resubmit_reset.
Theorem c09_resubmit_requires_complete : forall s rerun upd, c_complete (st_cfg s) = false ->
  prepare_for_resubmission s rerun upd = Err EAssert.
Proof. exact resubmit_not_complete_asserts. Qed.
Print Assumptions c09_resubmit_requires_complete.

(* HISTORY / regression: the formula used before commit ce6353a (submitted_jobs = num_jobs - |rerun|)
   breaks the invariant on a reachable status: j1 submitted, submission canceled and force-completed with
   j2 never submitted, `resubmit-jobs --no-missing` reruns nothing -> submitted_jobs = 2 with one job
   SUBMITTED.  The correspondence must DISAGREE with this old model on the witness (harness/props/c09.py). *)
Theorem c09_resubmit_old_formula_refuted :
  exists s s', run_ok (create old_witness_spec) old_witness_ops = true
    /\ run (create old_witness_spec) old_witness_ops = Ok s
    /\ prepare_for_resubmission_old s [] [] = Ok s'
    /\ c_submitted (st_cfg s') = 2 /\ cnt SUBMITTED (js_jobs (st_js s')) + cnt DONE (js_jobs (st_js s')) = 1
    /\ ~ status_inv s'.
Proof. exact resubmit_old_refuted. Qed.
Print Assumptions c09_resubmit_old_formula_refuted.

(* ---------- non-vacuity: a concrete history with cancellations, completion and a resubmission ---------- *)
Definition ex_spec : list (N * list N * bool) :=
  [(1%N, [], false); (2%N, [1%N], true); (3%N, [2%N], true); (4%N, [1%N], false)].
Definition ex_round (pre : list premut) (sub : list N) (blk : list (N * list N)) (canc comp : list N) (hpc : list N) (b : Z) :=
  OpRound {| ra_pre := pre; ra_submitted := sub; ra_blocked := blk; ra_canceled := canc; ra_completed := comp;
             ra_hpc := hpc; ra_batch := b; ra_new_rows := comp |}.
Definition ex_ops : list op :=
  [ ex_round [] [1%N] [(2%N, [1%N]); (3%N, [2%N]); (4%N, [1%N])] [] [] [100%N] 2;
    ex_round [PreCancel 2%N; PreShrink 4%N []; PreCancel 3%N] [4%N] [] [2%N; 3%N] [1%N; 2%N; 3%N] [101%N] 3;
    OpReload; OpPromote;
    ex_round [] [] [] [] [4%N] [] 3;
    OpMarkComplete; OpDemote;
    OpReload; OpPromote; OpResubmit [1%N; 2%N; 3%N; 4%N] [(2%N, [1%N]); (3%N, [2%N]); (4%N, [1%N])];
    ex_round [] [1%N; 2%N] [(3%N, [2%N]); (4%N, [1%N])] [] [] [102%N] 4 ].
Example c09_ex_history_ok : run_ok (create ex_spec) ex_ops = true.
Proof. vm_compute. reflexivity. Qed.
Example c09_ex_history_result :
  option_map (fun s => (c_submitted (st_cfg s), c_completed (st_cfg s), c_version (st_cfg s), js_version (st_js s),
                        map j_state (js_jobs (st_js s))))
             (match run (create ex_spec) ex_ops with Ok s => Some s | Err _ => None end)
  = Some (2, 0, 9, 6, [SUBMITTED; SUBMITTED; NOT_SUBMITTED; NOT_SUBMITTED]).
Proof. vm_compute. reflexivity. Qed.

(* the preconditions matter: the same job handed over twice in one round (the C01 defect D1 did that)
   reaches the first assertion *)
Example c09_ex_duplicate_submission_asserts :
  round (create ex_spec) {| ra_pre := []; ra_submitted := [1%N; 1%N]; ra_blocked := []; ra_canceled := [];
                            ra_completed := []; ra_hpc := [100%N]; ra_batch := 2; ra_new_rows := [] |} = Err EAssert.
Proof. vm_compute. reflexivity. Qed.
