(* C20 - reports are faithful: events lossless, statistics and tallies correct.
   Only statements here; every proof is `exact <lemma>`.  The class predicates, the status
   vocabulary, the classification chains, the writer shapes, RESOURCE_STATS and the initial running
   summaries are GENERATED from /repo (Gen/ReportsGen.v). *)
From Coq Require Import String Ascii List ZArith NArith QArith Bool Arith Permutation Sorted.
From Jade Require Import Base Events EventsProofs Stats StatsProofs Tally TallyProofs.
From Jade.Gen Require Import ReportsGen.
Import ListNotations.
Open Scope string_scope.
Open Scope list_scope.
Set Default Timeout 60.

(* ---------------- events ---------------- *)
(* For every number of event files of any length and every name: the consolidated list for the name
   is a permutation of the events with that name over all files (each exactly once, payload
   untouched), ordered by timestamp, events with equal timestamps in the order they were read. *)
Theorem c20_events_lossless : forall (files : list (list event)) (n : string),
  Permutation (lookup n (consolidate files)) (filter (has_name n) (concat files)) /\
  Sorted ts_le (lookup n (consolidate files)) /\
  (forall t, filter (has_ts t) (lookup n (consolidate files)) = filter (has_ts t) (filter (has_name n) (concat files))).
Proof. exact consolidate_lossless. Qed.
Print Assumptions c20_events_lossless.

(* ... and that is what a fresh EventsSummary stores (JSON, or Parquet for the RESOURCE_STATS names)
   and what list_events returns (the RESOURCE_STATS names raise instead). *)
Theorem c20_events_summary_first_open : forall files n,
  stored n (es_init empty_dir files) = lookup n (consolidate files) /\
  list_events n (es_init empty_dir files) = if is_resource n then None else Some (lookup n (consolidate files)).
Proof. exact (fun files n => conj (stored_first files n) (list_events_first files n)). Qed.
Print Assumptions c20_events_summary_first_open.

(* "not later than" on timestamps is a total preorder whose equivalence is equality of the strings *)
Theorem c20_timestamp_order :
  (forall a, ts_le a a) /\ (forall a b c, ts_le a b -> ts_le b c -> ts_le a c) /\
  (forall a b, ts_le a b \/ ts_le b a) /\ (forall a b, ts_le a b -> ts_le b a -> e_ts a = e_ts b).
Proof. exact (conj ts_le_refl (conj ts_le_trans (conj ts_le_total ts_le_antisym))). Qed.
Print Assumptions c20_timestamp_order.

(* the timestamps JADE writes are str(datetime.now()): "YYYY-MM-DD hh:mm:ss" + ".ffffff" unless the
   microsecond is 0.  On such strings Python's string order IS the chronological order (fields in
   groups of two decimal digits; year = 100*yh + yl, microsecond = 10000*u1 + 100*u2 + u3). *)
Theorem c20_timestamp_strings_chronological : forall a b : stamp, stamp_wf a -> stamp_wf b ->
  str_ltb (render a) (render b) = lex_ltb (stamp_key a) (stamp_key b).
Proof. exact stamp_order. Qed.
Print Assumptions c20_timestamp_strings_chronological.

(* consolidating the consolidated summary again is the identity; a second EventsSummary on the same
   directory neither re-consolidates nor changes a file, whatever the logs hold by then *)
Theorem c20_events_idempotent : forall files,
  consolidate (map snd (consolidate files)) = consolidate files /\
  (let s1 := es_init empty_dir files in
   let s2 := es_init (es_dir s1) files in
   es_dir s2 = es_dir s1 /\ forall n, list_events n s2 = list_events n s1) /\
  (forall d files', dir_is_empty d = false ->
     es_dir (es_init d files') = d /\
     forall n, list_events n (es_init d files') = if is_resource n then None else Some (lookup n (d_json d))).
Proof.
  exact (fun files => conj (consolidate_idempotent files)
                           (conj (second_open_same files) (fun d f H => no_reconsolidation d f H))).
Qed.
Print Assumptions c20_events_idempotent.

(* moving the per-job event files into the node's file: the multiset of events is preserved, the
   node file only grows at its end, listed job files are gone, other files are untouched *)
Theorem c20_node_aggregation : forall jobs node fs, NoDup (map fst fs) ->
  let r := aggregate jobs node fs in
  Permutation (fst r ++ fs_events (snd r)) (node ++ fs_events fs) /\
  (exists tail, fst r = node ++ tail) /\
  (forall j, In j jobs -> fs_get j (snd r) = None) /\
  (forall k, ~ In k jobs -> fs_get k (snd r) = fs_get k fs) /\
  (forall p, In p (snd r) -> In p fs /\ ~ In (fst p) jobs).
Proof. exact aggregate_spec. Qed.
Print Assumptions c20_node_aggregation.

Theorem c20_node_aggregation_then_summary : forall files jobs node fs n,
  NoDup (map fst fs) -> (forall k, In k (map fst fs) -> In k jobs) ->
  snd (aggregate jobs node fs) = [] /\
  Permutation (lookup n (consolidate (files ++ [fst (aggregate jobs node fs)])))
              (filter (has_name n) (concat files ++ node ++ fs_events fs)).
Proof. exact aggregate_then_consolidate. Qed.
Print Assumptions c20_node_aggregation_then_summary.

(* ---------------- statistics ---------------- *)
(* node statistics: for every non-empty sample list within [0, sys.maxsize] the report holds the
   true minimum, maximum, sum, count, and average * count = sum *)
Theorem c20_stats : forall l : list Z, l <> [] -> Forall (fun v => (0 <= v <= sys_maxsize)%Z) l ->
  let s := node_run l in
  is_min (s_min s) l /\ is_max (s_max s) l /\ s_sum s = total l /\ s_count s = len l /\
  (average s * inject_Z (len l) == inject_Z (total l))%Q /\
  node_finalize s = Some (average s, s_max s, s_min s).
Proof. exact node_stats_correct. Qed.
Print Assumptions c20_stats.

(* without hypotheses: maximum = max(initial maximum, samples), minimum = min(initial minimum, samples);
   hence samples above sys.maxsize / below 0 are misreported (the hypotheses of c20_stats are needed) *)
Theorem c20_stats_unconditional : forall l : list Z,
  s_max (node_run l) = fold_left Z.max l stats_init_maximum /\
  s_min (node_run l) = fold_left Z.min l stats_init_minimum /\
  s_sum (node_run l) = (stats_init_sum + total l)%Z /\ s_count (node_run l) = len l.
Proof. exact node_run_general. Qed.
Print Assumptions c20_stats_unconditional.
Theorem c20_stats_outside_range :
  (forall l, Forall (fun v => (sys_maxsize < v)%Z) l -> s_min (node_run l) = sys_maxsize) /\
  (forall l, Forall (fun v => (v < 0)%Z) l -> s_max (node_run l) = 0%Z) /\
  node_finalize (node_run []) = None.
Proof. exact (conj node_min_above_maxsize (conj node_max_negative node_no_samples)). Qed.
Print Assumptions c20_stats_outside_range.

(* process statistics (first sample initialises, `elif` for the minimum): right for every non-empty
   sample list, whatever the values *)
Theorem c20_process_stats : forall l : list Z, l <> [] ->
  exists s, proc_run l = Some s /\
  is_min (s_min s) l /\ is_max (s_max s) l /\ s_sum s = total l /\ s_count s = len l /\
  (average s * inject_Z (len l) == inject_Z (total l))%Q.
Proof. exact proc_stats_correct. Qed.
Print Assumptions c20_process_stats.

(* ---------------- tallies ---------------- *)
(* for every job list and every set of rows JADE can write with unique names among the jobs:
   the summary block is (|successful|, |failed|, |canceled|, |missing|), the four add up to the number
   of jobs, get_results_by_type agrees with the independent filters, the missing list agrees with
   ResultsSummary.get_missing_jobs, and every job is in exactly one class; the assert is not reached *)
Theorem c20_tally : forall jobs rows,
  NoDup jobs -> NoDup (names rows) -> incl (names rows) jobs -> Forall (fun r => writable r = true) rows ->
  let m := missing_jobs jobs rows in
  let s := N.of_nat (length (successful_results rows)) in
  let f := N.of_nat (length (failed_results rows)) in
  let c := N.of_nat (length (canceled_results rows)) in
  completion_summary jobs rows = Some (s, f, c, N.of_nat (length m)) /\
  (s + f + c + N.of_nat (length m) = N.of_nat (length jobs))%N /\
  by_type rows = (successful_results rows, failed_results rows, canceled_results rows) /\
  Permutation m (summary_missing jobs rows) /\
  forall j, In j jobs ->
    exactly_one (In j (names (successful_results rows))) (In j (names (failed_results rows)))
                (In j (names (canceled_results rows))) (In j m).
Proof. exact tally_correct. Qed.
Print Assumptions c20_tally.

(* the generated chains are the ones the model follows; every row JADE writes is in exactly one class *)
Theorem c20_tally_tables :
  (build_chain = [("is_successful", "num_successful"); ("is_failed", "num_failed")] /\
   build_else = Some ("is_canceled", "num_canceled") /\
   build_summary = [("num_successful", "num_successful"); ("num_failed", "num_failed");
                    ("num_canceled", "num_canceled"); ("num_missing", "len(missing_jobs)")]) /\
  (show_chain = [("is_successful", "Num successful"); ("is_failed", "Num failed")] /\
   show_else = Some ("is_canceled", "Num canceled")) /\
  (bytype_chain = [("is_successful", "successful"); ("is_failed", "failed"); ("is_canceled", "canceled")] /\
   bytype_else = None /\
   bytype_keys = [("successful", "successful"); ("failed", "failed"); ("canceled", "canceled")]) /\
  (forall r, writable r = true -> one_class (r_rc r) (r_status r) = true /\ classify_assert r <> None).
Proof.
  exact (conj build_chain_shape (conj show_chain_shape (conj bytype_chain_shape
          (fun r H => conj (writable_one_class r H) (classify_total r (writable_one_class r H)))))).
Qed.
Print Assumptions c20_tally_tables.

(* boundary of the hypotheses: duplicated rows / rows JADE never writes *)
Theorem c20_tally_hypotheses_needed :
  (let rows := [mkRow "a" 0 status_FINISHED; mkRow "a" 0 status_FINISHED] in
   let jobs := ["a"; "b"] in
   completion_summary jobs rows = Some (2, 0, 0, 0)%N /\ missing_jobs jobs rows = [] /\ ~ In "b" (names rows)) /\
  (writable (mkRow "a" 0 status_CANCELED) = false /\
   completion_summary ["a"] [mkRow "a" 0 status_CANCELED] = None).
Proof. exact (conj tally_duplicate_rows_counterexample tally_unwritable_row_asserts). Qed.
Print Assumptions c20_tally_hypotheses_needed.

(* ---------------- non-vacuity ---------------- *)
Definition ev (n t : string) (p : N) : event := mkEvent n t p.
Example c20_ex_events :
  let files := [[ev "hpc_submit" "2024-01-01 10:00:00.500000" 1; ev "log_error" "2024-01-01 10:00:01" 2;
                 ev "hpc_submit" "2024-01-01 10:00:00" 3];
                [ev "hpc_submit" "2024-01-01 10:00:00" 4; ev "cpu_stats" "2024-01-01 09:00:00" 5];
                []] in
  map e_payload (lookup "hpc_submit" (consolidate files)) = [3; 4; 1]%N /\
  list_events "hpc_submit" (es_init empty_dir files) = Some (lookup "hpc_submit" (consolidate files)) /\
  list_events "cpu_stats" (es_init empty_dir files) = None /\
  map e_payload (dataframe_rows "cpu_stats" (es_init empty_dir files)) = [5]%N /\
  list_events "nothing" (es_init empty_dir files) = Some [].
Proof. vm_compute. repeat split; reflexivity. Qed.
Example c20_ex_aggregate :
  let fs := [("j1", [ev "a" "1" 1]); ("j2", [ev "a" "0" 2]); ("j3", [ev "b" "2" 3])] in
  aggregate ["j2"; "j4"; "j1"; "j2"] [ev "a" "5" 0] fs
  = ([ev "a" "5" 0; ev "a" "0" 2; ev "a" "1" 1], [("j3", [ev "b" "2" 3])]) /\ NoDup (map fst fs).
Proof. split; [vm_compute; reflexivity|]. repeat constructor; cbn; intuition discriminate. Qed.
Example c20_ex_stats :
  (let s := node_run [3; 5; 5; 9]%Z in (s_min s, s_max s, s_sum s, s_count s)) = (3, 9, 22, 4)%Z /\
  Forall (fun v => (0 <= v <= sys_maxsize)%Z) [3; 5; 5; 9]%Z /\
  (let s := node_run [9; 5; 3]%Z in (s_min s, s_max s)) = (3, 9)%Z /\
  option_map (fun s => (s_min s, s_max s, s_sum s, s_count s)) (proc_run [(-2); 7; (-5)]%Z) = Some ((-5), 7, 0, 3)%Z.
Proof.
  split; [vm_compute; reflexivity|]. split; [|split; vm_compute; reflexivity].
  repeat constructor; apply Z.leb_le; reflexivity.
Qed.
Example c20_ex_tally :
  let rows := [mkRow "a" 0 "finished"; mkRow "c" 1 "canceled"; mkRow "d" 2 "finished"] in
  let jobs := ["a"; "b"; "c"; "d"; "e"] in
  completion_summary jobs rows = Some (1, 1, 1, 2)%N /\ missing_jobs jobs rows = ["b"; "e"] /\
  forallb writable rows = true /\ NoDup jobs /\ NoDup (names rows) /\ incl (names rows) jobs.
Proof.
  cbn zeta. split; [vm_compute; reflexivity|]. split; [vm_compute; reflexivity|]. split; [vm_compute; reflexivity|].
  split; [|split].
  - repeat constructor; cbn; intuition discriminate.
  - repeat constructor; cbn; intuition discriminate.
  - intros x. cbn. intuition.
Qed.
Example c20_ex_stamp :
  let a := mkStamp 20 24 3 9 23 59 58 None in
  let b := mkStamp 20 24 3 9 23 59 58 (Some (0, 0, 1)%N) in
  let c := mkStamp 20 24 3 10 0 0 0 None in
  render a = "2024-03-09 23:59:58" /\ render b = "2024-03-09 23:59:58.000001" /\ render c = "2024-03-10 00:00:00" /\
  str_ltb (render a) (render b) = true /\ str_ltb (render b) (render c) = true /\ str_ltb (render c) (render a) = false.
Proof. vm_compute. repeat split; reflexivity. Qed.
(* boundary (see theorem c20_events_idempotent, part 3): a summary consolidated BEFORE a node has moved
   its job event files into its *events.log never shows those events, although they end up in the file *)
Example c20_ex_consolidation_before_aggregation :
  let node_ev := ev "bytes_consumed" "1" 1 in
  let job_ev := ev "unhandled_error" "2" 2 in
  let s1 := es_init empty_dir [[node_ev]] in
  let r := aggregate ["jobA"] [node_ev] [("jobA", [job_ev])] in
  fst r = [node_ev; job_ev] /\
  list_events "unhandled_error" (es_init (es_dir s1) [fst r]) = Some [] /\
  list_events "unhandled_error" (es_init empty_dir [fst r]) = Some [job_ev].
Proof. vm_compute. repeat split; reflexivity. Qed.
