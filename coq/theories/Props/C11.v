(* C11 - a submitter that dies or errors mid-round cannot cause double submission.
   Kill events (at ANY position of a trace: every lock operation, external command and file mutation
   of a round is an event) and error exits (the exception path: the remaining events of the round are
   absent and the `finally` demotion follows) are part of the traces the system model accepts, so the
   safety theorems below hold in every continuation of every such fault.  Additionally: once a
   submission is wedged (submitter.lock present and not owned by a live round) every later submitter
   invocation refuses to act; and rows are never lost. *)
From Coq Require Import List ZArith NArith Bool.
From Jade Require Import Base System SystemMonitors SystemProofs SystemInv SystemOrder SystemTheorems SystemRound.
From Jade.Gen Require Import RoundGen.
From Jade.Props Require Import SysExamples.
Import ListNotations.
Open Scope N_scope.

Theorem c11_no_double_submission : forall sc tr s, run sc tr = Some s ->
  NoDup (handed_of tr) /\ NoDup (indices_of tr) /\ NoDup (launched_of tr).
Proof. exact c01_system. Qed.
Print Assumptions c11_no_double_submission.

Theorem c11_order : forall sc tr1 id j tr2 s, run sc (tr1 ++ ELaunch id j :: tr2) = Some s ->
  forall d, In d (deps sc j) -> In d (row_names (rows_of tr1)).
Proof. exact c02_system. Qed.
Print Assumptions c11_order.

Theorem c11_rows_kept : forall sc tr s, run sc tr = Some s ->
  Permutation.Permutation (rows_of tr) (pending s ++ processed s).
Proof. exact SystemTheorems.c11_rows_kept. Qed.
Print Assumptions c11_rows_kept.

Theorem c11_refuse_when_wedged : forall sc tr2 s1 s2, wedged s1 -> run_from sc s1 tr2 = Some s2 ->
  wedged s2 /\ forall e, In e tr2 -> acts e = false.
Proof. exact c11_refuses. Qed.
Print Assumptions c11_refuse_when_wedged.

Theorem c11_kill_of_lock_owner_wedges : forall sc s r s', Inv1 sc s -> holder s = Some r -> r_owns r = true ->
  step sc s (EKill [r_pid r]) = Some s' -> wedged s'.
Proof. exact kill_owner_wedges. Qed.
Print Assumptions c11_kill_of_lock_owner_wedges.

Theorem c11_error_exit_with_lock_wedges : forall sc s p s', marker s = true -> step sc s (EDemote p) = Some s' -> wedged s'.
Proof. exact demote_with_marker_wedges. Qed.
Print Assumptions c11_error_exit_with_lock_wedges.

(* a dead role holder blocks every later promotion *)
Theorem c11_single_round : forall sc tr1 e1 tr2 e2 tr3 s,
  run sc (tr1 ++ e1 :: tr2 ++ e2 :: tr3) = Some s -> is_promotion e1 = true -> is_promotion e2 = true ->
  exists d, In d tr2 /\ is_demote d = true.
Proof. exact c10_system. Qed.
Print Assumptions c11_single_round.

(* a failed status query changes nothing *)
Theorem c11_squeue_transient : forall sc s p s', step sc s (ESqueueFail p) = Some s' -> s' = s.
Proof.
  intros sc s p s' H. unfold step in H. destruct (in_round s p) as [r|]; [|discriminate].
  destruct (negb (r_collected r) && negb (r_owns r)); [injection H as <-; reflexivity|discriminate].
Qed.
Print Assumptions c11_squeue_transient.

(* the order of a round: the list of protocol steps extracted from HpcSubmitter.run (Gen/RoundGen.v, regenerated from
   the source on every run) is the order the model expects, and the acceptor enforces it: two protocol steps of one
   process in one round occur in that order - e.g. results are collected before submitter.lock is created, every
   sbatch lies between the creation of submitter.lock and the status update, the lock is removed last *)
Theorem c11_round_order_of_the_source : run_steps = model_round.
Proof. exact round_order_tied. Qed.
Print Assumptions c11_round_order_of_the_source.

Theorem c11_round_order_enforced : forall sc tr1 e1 tr2 e2 tr3 s p k1 k2,
  run sc (tr1 ++ e1 :: tr2 ++ e2 :: tr3) = Some s ->
  ev_step e1 = Some (p, k1) -> ev_step e2 = Some (p, k2) -> no_round p tr2 = true ->
  (step_index k1 <= step_index k2)%nat.
Proof. exact round_order_enforced. Qed.
Print Assumptions c11_round_order_enforced.

Example c11_nonvacuous : accepted ex_sc ex_tr_kill = true /\ handed_of ex_tr_kill = [0; 1] /\
  existsb (fun e => match e with EKill _ => true | _ => false end) ex_tr_kill = true.
Proof. vm_compute. auto. Qed.
