(* Model of the status bookkeeping of jade/jobs/cluster.py (class Cluster) together with the two
   pydantic models it persists (jade/models/cluster_config.py::ClusterConfig -> cluster_config.json,
   jade/models/jobs.py::JobStatus/Job -> job_status.json).  No proofs here (StatusProofs.v).

   What is modelled, following the code as it is:
   - Cluster.create, _update_job_status (the three loops with their assertions, the final
     blocked_by.clear() loop, both serialisations), _are_all_jobs_complete, _mark_complete,
     _mark_canceled, prepare_for_resubmission (as repaired by /repo commits ce6353a: counters taken from
     the job table, and 34e0409: is_canceled cleared), _promote_to_submitter, _demote_from_submitter,
     _complete_hpc_job_id, get_status_summary, and the version logic of _serialize /
     _serialize_jobs.
   - Python exceptions are explicit results: AssertionError -> EAssert, KeyError (status_lookup[name]
     with an unknown name) -> EKey, ValueError (list.remove of an absent id) -> EValue.  After an
     exception nothing has been written (all writes are at the end of each method), the process dies.

   Aliasing (DESIGN 2.2): HpcSubmitter._update_completed_jobs / _cancel_job mutate the cluster's own
   Job objects BEFORE _update_job_status runs: a job canceled in this round already has state=DONE and
   blocked_by=set() (and its name is in completed_job_names, the Job in canceled_jobs); every other
   NOT_SUBMITTED job had blocked_by.difference_update(newly_completed) applied in place.  The Job
   objects in submitted_jobs / blocked_jobs ARE the cluster's objects, so `old.blocked_by =
   job.blocked_by` re-assigns the already shrunk set.  This is state threading here: a round is
   `apply_pre` (the in-memory pre-mutations, a list of edits) followed by `update_job_status`.

   Versions: _serialize bumps the config version iff hash(config.json()) differs from the hash
   remembered by THIS Cluster object (None for a freshly deserialised object).  _serialize_jobs
   compares hash(job_status.json()) with self._config_hash (sic: the hash of the *config* text), which
   is never equal in practice (different JSON documents), so the job-status version is bumped and the
   file rewritten on every call.  Hash equality is modelled as equality of the content.

   Representation: job names and HPC ids are opaque (N); counters, versions, batch index are Z;
   blocked_by is a list used as a set.  `status_lookup` is a dict by name: with unique names (an
   invariant established by Cluster.create from a JobConfiguration) "the job with that name" is
   `find_job`; updates go to every job carrying the name.
   `st_rows` is a ghost component: the names that have a row in the processed results file
   (results.csv); rounds add the rows they collected, resubmission removes the rows of rerun jobs
   (cli/resubmit_jobs.py::_reset_results).  It is not written by Cluster.

   Not modelled: the version checks (_check_config_version / _check_job_status_version raising
   *VersionMismatch): there is one live Cluster object at a time here and its versions equal the version
   files (stale handles and concurrent writers are C10); the submitter's host name (a bool: set or
   not); serialize_submission_groups; the lock itself (every method body is one lock hold, both files
   are written inside it, observations happen between operations). *)
From Coq Require Import List ZArith NArith Bool.
From Jade Require Import Base.
Import ListNotations.
Open Scope Z_scope.

Inductive jstate := NOT_SUBMITTED | SUBMITTED | DONE.
Definition jstate_eqb (a b : jstate) : bool :=
  match a, b with
  | NOT_SUBMITTED, NOT_SUBMITTED | SUBMITTED, SUBMITTED | DONE, DONE => true
  | _, _ => false
  end.

Record job := { j_name : N; j_state : jstate; j_blocked : list N; j_cancel : bool }.

Record config := {
  c_num : Z; c_submitted : Z; c_completed : Z;
  c_complete : bool; c_canceled : bool;
  c_submitter : bool;          (* submitter is not None (always this host in the model) *)
  c_version : Z }.

Record jobstatus := { js_jobs : list job; js_hpc : list N; js_batch : Z; js_version : Z }.

Record state := {
  st_cfg : config;             (* cluster_config.json *)
  st_js : jobstatus;           (* job_status.json *)
  st_rows : list N;            (* ghost: names with a row in the processed results file *)
  st_hash : option config      (* Cluster._config_hash of the live object (content instead of hash) *)
}.

Inductive err := EAssert | EKey | EValue.
Inductive res (A : Type) := Ok (a : A) | Err (e : err).
Arguments Ok {A} a.
Arguments Err {A} e.

(* ---------- job table ---------- *)
Definition names (jobs : list job) : list N := map j_name jobs.
Definition find_job (n : N) (jobs : list job) : option job := find (fun j => N.eqb (j_name j) n) jobs.
Definition upd_job (n : N) (f : job -> job) (jobs : list job) : list job :=
  map (fun j => if N.eqb (j_name j) n then f j else j) jobs.
Definition set_state (st : jstate) (j : job) : job :=
  {| j_name := j_name j; j_state := st; j_blocked := j_blocked j; j_cancel := j_cancel j |}.
Definition set_blocked (bs : list N) (j : job) : job :=
  {| j_name := j_name j; j_state := j_state j; j_blocked := bs; j_cancel := j_cancel j |}.
Definition is_state (jobs : list job) (n : N) (st : jstate) : bool :=
  match find_job n jobs with Some j => jstate_eqb (j_state j) st | None => false end.
Definition blocked_of (jobs : list job) (n : N) : list N :=
  match find_job n jobs with Some j => j_blocked j | None => [] end.
Definition cnt (st : jstate) (jobs : list job) : Z :=
  Z.of_nat (length (filter (fun j => jstate_eqb (j_state j) st) jobs)).

(* ---------- serialisation / versions ---------- *)
Definition config_eqb (a b : config) : bool :=
  (c_num a =? c_num b) && (c_submitted a =? c_submitted b) && (c_completed a =? c_completed b)
  && Bool.eqb (c_complete a) (c_complete b) && Bool.eqb (c_canceled a) (c_canceled b)
  && Bool.eqb (c_submitter a) (c_submitter b) && (c_version a =? c_version b).
Definition bump_cfg (c : config) : config :=
  {| c_num := c_num c; c_submitted := c_submitted c; c_completed := c_completed c;
     c_complete := c_complete c; c_canceled := c_canceled c; c_submitter := c_submitter c;
     c_version := c_version c + 1 |}.
(* Cluster._serialize: returns the config now in memory = on disk, and the remembered hash *)
Definition serialize_cfg (c : config) (h : option config) : config * option config :=
  match h with
  | Some c0 => if config_eqb c c0 then (c, h) else (bump_cfg c, Some (bump_cfg c))
  | None => (bump_cfg c, Some (bump_cfg c))
  end.
(* Cluster._serialize_jobs: always bumps (see header) *)
Definition serialize_js (js : jobstatus) : jobstatus :=
  {| js_jobs := js_jobs js; js_hpc := js_hpc js; js_batch := js_batch js; js_version := js_version js + 1 |}.

Definition with_cfg (s : state) (c : config) : state :=
  let '(c', h') := serialize_cfg c (st_hash s) in
  {| st_cfg := c'; st_js := st_js s; st_rows := st_rows s; st_hash := h' |}.

(* ---------- Cluster.create ---------- *)
Definition create (spec : list (N * list N * bool)) : state :=
  let jobs := map (fun x => {| j_name := fst (fst x); j_state := NOT_SUBMITTED; j_blocked := snd (fst x);
                               j_cancel := snd x |}) spec in
  let c := {| c_num := Z.of_nat (length spec); c_submitted := 0; c_completed := 0; c_complete := false;
              c_canceled := false; c_submitter := true; c_version := 0 |} in
  let js := {| js_jobs := jobs; js_hpc := []; js_batch := 1; js_version := 0 |} in
  let '(c', h') := serialize_cfg c None in
  {| st_cfg := c'; st_js := serialize_js js; st_rows := []; st_hash := h' |}.

(* ---------- one submitter round ---------- *)
(* in-memory edits made by HpcSubmitter._update_completed_jobs before update_job_status *)
Inductive premut :=
| PreCancel (n : N)                   (* _cancel_job: state = DONE, blocked_by.clear() *)
| PreShrink (n : N) (bs : list N).    (* blocked_by.difference_update(...): the new set *)
Definition apply_premut (p : premut) (jobs : list job) : list job :=
  match p with
  | PreCancel n => upd_job n (fun j => set_blocked [] (set_state DONE j)) jobs
  | PreShrink n bs => upd_job n (set_blocked bs) jobs
  end.
Definition apply_pre (pre : list premut) (jobs : list job) : list job :=
  fold_left (fun js p => apply_premut p js) pre jobs.
Fixpoint cancel_names (pre : list premut) : list N :=
  match pre with
  | [] => []
  | PreCancel n :: r => n :: cancel_names r
  | PreShrink _ _ :: r => cancel_names r
  end.

Record round_args := {
  ra_pre : list premut;
  ra_submitted : list N;               (* names of submitted_jobs, in order *)
  ra_blocked : list (N * list N);      (* blocked_jobs: name and blocked_by of the passed object *)
  ra_canceled : list N;                (* canceled_jobs (only its length is used by the code) *)
  ra_completed : list N;               (* completed_job_names in the set's iteration order *)
  ra_hpc : list N;
  ra_batch : Z;
  ra_new_rows : list N                 (* ghost: rows collected into results.csv in this round *)
}.

(* for job in submitted_jobs: assert lookup[name].state != SUBMITTED; state = SUBMITTED *)
Fixpoint submit_loop (l : list N) (jobs : list job) : res (list job) :=
  match l with
  | [] => Ok jobs
  | n :: r =>
    match find_job n jobs with
    | None => Err EKey
    | Some j => if jstate_eqb (j_state j) SUBMITTED then Err EAssert
                else submit_loop r (upd_job n (set_state SUBMITTED) jobs)
    end
  end.
(* for job in blocked_jobs: assert old.state == NOT_SUBMITTED; old.blocked_by = job.blocked_by *)
Fixpoint blocked_loop (l : list (N * list N)) (jobs : list job) : res (list job) :=
  match l with
  | [] => Ok jobs
  | (n, bs) :: r =>
    match find_job n jobs with
    | None => Err EKey
    | Some j => if jstate_eqb (j_state j) NOT_SUBMITTED then blocked_loop r (upd_job n (set_blocked bs) jobs)
                else Err EAssert
    end
  end.
(* for name in completed_job_names: assert name not in processed; lookup[name].state = DONE *)
Fixpoint completed_loop (l : list N) (processed : list N) (jobs : list job) : res (list job) :=
  match l with
  | [] => Ok jobs
  | n :: r =>
    if memN n processed then Err EAssert
    else match find_job n jobs with
         | None => Err EKey
         | Some _ => completed_loop r processed (upd_job n (set_state DONE) jobs)
         end
  end.
(* for job in jobs: if job.blocked_by and job.state in (SUBMITTED, DONE): job.blocked_by.clear() *)
Definition clear_loop (jobs : list job) : list job :=
  map (fun j => match j_state j with NOT_SUBMITTED => j | _ => set_blocked [] j end) jobs.

Definition bind {A B} (r : res A) (f : A -> res B) : res B :=
  match r with Ok a => f a | Err e => Err e end.

(* Cluster._update_job_status on the (already pre-mutated) in-memory table `jobs` *)
Definition update_job_status (s : state) (jobs : list job) (a : round_args) : res state :=
  bind (submit_loop (ra_submitted a) jobs) (fun jobs2 =>
  bind (blocked_loop (ra_blocked a) jobs2) (fun jobs3 =>
  bind (completed_loop (ra_completed a) (ra_submitted a ++ map fst (ra_blocked a)) jobs3) (fun jobs4 =>
  let c := st_cfg s in
  let c1 := {| c_num := c_num c;
               c_submitted := c_submitted c + Z.of_nat (length (ra_submitted a)) + Z.of_nat (length (ra_canceled a));
               c_completed := c_completed c + Z.of_nat (length (ra_completed a));
               c_complete := c_complete c; c_canceled := c_canceled c; c_submitter := c_submitter c;
               c_version := c_version c |} in
  let '(c', h') := serialize_cfg c1 (st_hash s) in
  Ok {| st_cfg := c';
        st_js := serialize_js {| js_jobs := clear_loop jobs4; js_hpc := ra_hpc a; js_batch := ra_batch a;
                                 js_version := js_version (st_js s) |};
        st_rows := st_rows s ++ ra_new_rows a;
        st_hash := h' |}))).

Definition round (s : state) (a : round_args) : res state :=
  update_job_status s (apply_pre (ra_pre a) (js_jobs (st_js s))) a.

(* ---------- the other operations ---------- *)
Definition set_complete (b : bool) (c : config) : config :=
  {| c_num := c_num c; c_submitted := c_submitted c; c_completed := c_completed c; c_complete := b;
     c_canceled := c_canceled c; c_submitter := c_submitter c; c_version := c_version c |}.
Definition set_canceled (b : bool) (c : config) : config :=
  {| c_num := c_num c; c_submitted := c_submitted c; c_completed := c_completed c; c_complete := c_complete c;
     c_canceled := b; c_submitter := c_submitter c; c_version := c_version c |}.
Definition set_submitter (b : bool) (c : config) : config :=
  {| c_num := c_num c; c_submitted := c_submitted c; c_completed := c_completed c; c_complete := c_complete c;
     c_canceled := c_canceled c; c_submitter := b; c_version := c_version c |}.

Definition mark_complete (s : state) : res state :=
  if c_complete (st_cfg s) then Err EAssert else Ok (with_cfg s (set_complete true (st_cfg s))).
Definition mark_canceled (s : state) : res state := Ok (with_cfg s (set_canceled true (st_cfg s))).
Definition promote (s : state) : res state :=
  if c_submitter (st_cfg s) then Ok s else Ok (with_cfg s (set_submitter true (st_cfg s))).
Definition demote (s : state) : res state :=
  if c_submitter (st_cfg s) then Ok (with_cfg s (set_submitter false (st_cfg s))) else Err EAssert.

Fixpoint remove_first (x : N) (l : list N) : option (list N) :=
  match l with
  | [] => None
  | y :: r => if N.eqb x y then Some r else option_map (cons y) (remove_first x r)
  end.
Definition complete_hpc_job_id (s : state) (id : N) : res state :=
  match remove_first id (js_hpc (st_js s)) with
  | None => Err EValue
  | Some l => Ok {| st_cfg := st_cfg s;
                    st_js := serialize_js {| js_jobs := js_jobs (st_js s); js_hpc := l; js_batch := js_batch (st_js s);
                                             js_version := js_version (st_js s) |};
                    st_rows := st_rows s; st_hash := st_hash s |}
  end.

(* a new process: Cluster.deserialize(path, deserialize_jobs=True) - the remembered hash is gone *)
Definition reload (s : state) : res state :=
  Ok {| st_cfg := st_cfg s; st_js := st_js s; st_rows := st_rows s; st_hash := None |}.

(* Cluster.prepare_for_resubmission(jobs_to_resubmit, updated_blocking_jobs_by_name); the rows of
   the rerun jobs are removed by the caller (resubmit_jobs._reset_results) *)
Fixpoint lookup_blk (n : N) (upd : list (N * list N)) : list N :=
  match upd with [] => [] | (k, v) :: r => if N.eqb n k then v else lookup_blk n r end.
Definition resubmit_with (counters : list job -> list N -> Z * Z)
           (s : state) (rerun : list N) (upd : list (N * list N)) : res state :=
  let c := st_cfg s in
  if negb (c_complete c) then Err EAssert else
  let jobs := js_jobs (st_js s) in
  let jobs' := map (fun j => if memN (j_name j) rerun
                             then {| j_name := j_name j; j_state := NOT_SUBMITTED;
                                     j_blocked := lookup_blk (j_name j) upd; j_cancel := j_cancel j |}
                             else j) jobs in
  let '(nsub, ndone) := counters jobs rerun in
  let c1 := {| c_num := c_num c; c_submitted := nsub; c_completed := ndone;
               c_complete := false; c_canceled := false; c_submitter := c_submitter c;
               c_version := c_version c |} in
  let '(c', h') := serialize_cfg c1 (st_hash s) in
  Ok {| st_cfg := c';
        st_js := serialize_js {| js_jobs := jobs'; js_hpc := js_hpc (st_js s); js_batch := js_batch (st_js s);
                                 js_version := js_version (st_js s) |};
        st_rows := diffN (st_rows s) rerun;
        st_hash := h' |}.
(* the loop: for a job that is not rerun, submitted += 1 if state != NOT_SUBMITTED, completed += 1 if DONE *)
Definition resubmit_counters (jobs : list job) (rerun : list N) : Z * Z :=
  (Z.of_nat (length (filter (fun j => negb (memN (j_name j) rerun) && negb (jstate_eqb (j_state j) NOT_SUBMITTED)) jobs)),
   Z.of_nat (length (filter (fun j => negb (memN (j_name j) rerun) && jstate_eqb (j_state j) DONE) jobs))).
Definition prepare_for_resubmission := resubmit_with resubmit_counters.
(* HISTORY (before /repo commit ce6353a): submitted_jobs = num_jobs - len(jobs_to_resubmit).  Kept as a
   regression: Props/C09.v refutes it, and the correspondence must disagree with it on the witness. *)
Definition resubmit_counters_old (num : Z) (jobs : list job) (rerun : list N) : Z * Z :=
  (num - Z.of_nat (length rerun),
   Z.of_nat (length (filter (fun j => negb (memN (j_name j) rerun) && jstate_eqb (j_state j) DONE) jobs))).
Definition prepare_for_resubmission_old (s : state) := resubmit_with (resubmit_counters_old (c_num (st_cfg s))) s.

(* Cluster._are_all_jobs_complete *)
Definition are_all_complete (s : state) : res bool :=
  let c := st_cfg s in
  match find (fun j => negb (jstate_eqb (j_state j) DONE)) (js_jobs (st_js s)) with
  | Some _ => if c_completed c =? c_num c then Err EAssert else Ok false
  | None => if c_completed c =? c_num c then Ok true else Err EAssert
  end.

(* ---------- histories ---------- *)
Inductive op :=
| OpRound (a : round_args)
| OpMarkComplete
| OpMarkCanceled
| OpResubmit (rerun : list N) (upd : list (N * list N))
| OpReload
| OpPromote
| OpDemote
| OpCompleteHpc (id : N).

Definition step (s : state) (o : op) : res state :=
  match o with
  | OpRound a => round s a
  | OpMarkComplete => mark_complete s
  | OpMarkCanceled => mark_canceled s
  | OpResubmit rerun upd => prepare_for_resubmission s rerun upd
  | OpReload => reload s
  | OpPromote => promote s
  | OpDemote => demote s
  | OpCompleteHpc id => complete_hpc_job_id s id
  end.

Definition run (s : state) (ops : list op) : res state :=
  fold_left (fun r o => bind r (fun s' => step s' o)) ops (Ok s).

(* ---------- what can be read back (Cluster.deserialize(...).get_status_summary(include_jobs=True),
   config.version, has_submitter(), are_all_jobs_complete()) ---------- *)
Record summary := {
  sm_complete : bool; sm_canceled : bool; sm_num : Z; sm_completed : Z; sm_not_submitted : Z;
  sm_js : jobstatus }.
Definition get_status_summary (s : state) : summary :=
  let c := st_cfg s in
  {| sm_complete := c_complete c; sm_canceled := c_canceled c; sm_num := c_num c;
     sm_completed := c_completed c; sm_not_submitted := c_num c - c_submitted c; sm_js := st_js s |}.
Definition obs : Type := summary * Z * bool * res bool.
Definition observe (s : state) : obs :=
  (get_status_summary s, c_version (st_cfg s), c_submitter (st_cfg s), are_all_complete s).

(* observations after every successful operation, and the exception that ended the history *)
Fixpoint trace (s : state) (ops : list op) : list obs * option err :=
  match ops with
  | [] => ([], None)
  | o :: r => match step s o with
              | Err e => ([], Some e)
              | Ok s' => let '(l, e) := trace s' r in (observe s' :: l, e)
              end
  end.

(* ---------- the preconditions a submitter round guarantees ---------- *)
Fixpoint pre_ok (jobs : list job) (pre : list premut) : bool :=
  match pre with
  | [] => true
  | p :: r =>
    (match p with
     | PreCancel n => is_state jobs n NOT_SUBMITTED
     | PreShrink n bs => is_state jobs n NOT_SUBMITTED && subsetN bs (blocked_of jobs n)
     end) && pre_ok (apply_premut p jobs) r
  end.

Definition round_ok (s : state) (a : round_args) : bool :=
  let jobs0 := js_jobs (st_js s) in
  let jobs1 := apply_pre (ra_pre a) jobs0 in
  pre_ok jobs0 (ra_pre a)
  && list_eqb N.eqb (ra_canceled a) (cancel_names (ra_pre a))
  && nodupbN (ra_submitted a)
  && forallb (fun n => is_state jobs1 n NOT_SUBMITTED) (ra_submitted a)
  && nodupbN (map fst (ra_blocked a))
  && forallb (fun nb => is_state jobs1 (fst nb) NOT_SUBMITTED && subsetN (snd nb) (blocked_of jobs1 (fst nb))
                        && negb (memN (fst nb) (ra_submitted a))) (ra_blocked a)
  && nodupbN (ra_completed a)
  && forallb (fun n => is_state jobs0 n SUBMITTED || memN n (ra_canceled a)) (ra_completed a)
  && subsetN (ra_canceled a) (ra_completed a)
  && subsetN (ra_completed a) (st_rows s ++ ra_new_rows a).

Definition op_ok (s : state) (o : op) : bool :=
  match o with
  | OpRound a => round_ok s a
  | OpMarkComplete => negb (c_complete (st_cfg s))
  | OpResubmit _ _ => c_complete (st_cfg s)
  | OpDemote => c_submitter (st_cfg s)
  | OpCompleteHpc id => memN id (js_hpc (st_js s))
  | OpMarkCanceled | OpReload | OpPromote => true
  end.

Fixpoint run_ok (s : state) (ops : list op) : bool :=
  match ops with
  | [] => true
  | o :: r => op_ok s o && match step s o with Ok s' => run_ok s' r | Err _ => false end
  end.

Definition is_resubmit (o : op) : bool := match o with OpResubmit _ _ => true | _ => false end.

(* ---------- boolean equalities for the correspondence (blocked_by compared as a set) ---------- *)
Definition seteqN (a b : list N) : bool := subsetN a b && subsetN b a.
Definition job_eqb (a b : job) : bool :=
  N.eqb (j_name a) (j_name b) && jstate_eqb (j_state a) (j_state b) && seteqN (j_blocked a) (j_blocked b)
  && Bool.eqb (j_cancel a) (j_cancel b).
Definition js_eqb (a b : jobstatus) : bool :=
  list_eqb job_eqb (js_jobs a) (js_jobs b) && list_eqb N.eqb (js_hpc a) (js_hpc b)
  && (js_batch a =? js_batch b) && (js_version a =? js_version b).
Definition summary_eqb (a b : summary) : bool :=
  Bool.eqb (sm_complete a) (sm_complete b) && Bool.eqb (sm_canceled a) (sm_canceled b)
  && (sm_num a =? sm_num b) && (sm_completed a =? sm_completed b) && (sm_not_submitted a =? sm_not_submitted b)
  && js_eqb (sm_js a) (sm_js b).
Definition err_eqb (a b : err) : bool :=
  match a, b with EAssert, EAssert | EKey, EKey | EValue, EValue => true | _, _ => false end.
Definition resb_eqb (a b : res bool) : bool :=
  match a, b with Ok x, Ok y => Bool.eqb x y | Err x, Err y => err_eqb x y | _, _ => false end.
Definition obs_eqb (a b : obs) : bool :=
  match a, b with
  | (sa, va, pa, ra), (sb, vb, pb, rb) => summary_eqb sa sb && (va =? vb) && Bool.eqb pa pb && resb_eqb ra rb
  end.
Definition trace_eqb (a b : list obs * option err) : bool :=
  list_eqb obs_eqb (fst a) (fst b) && option_eqb err_eqb (snd a) (snd b).
