(* C03, the reference evaluation: the outcome "obtained by evaluating the dependency graph in topological order with
   the jobs' exit codes" as an executable function, and the theorem that a fault-free run records exactly these rows.
   reference sc: in passes over the jobs, a job all of whose blockers are decided gets its row - canceled (exit code 1)
   if it is flagged and a blocker's row has a non-zero code, else finished with its own exit code. *)
From Coq Require Import List ZArith NArith Bool Arith Lia Permutation.
From Jade Require Import Base System SystemMonitors SystemProofs SystemInv SystemTheorems SystemFault SystemComplete SystemOutcome SystemAcyclic.
Import ListNotations.
Open Scope N_scope.
Set Default Timeout 300.

Definition decided (rs : list row) (j : N) : bool := memN j (row_names rs).
Definition ref_row (sc : scenario) (rs : list row) (j : N) : row :=
  if flag sc j && has_failed_dep sc j rs
  then {| rw_job := j; rw_rc := 1%Z; rw_cancel := true |}
  else {| rw_job := j; rw_rc := jc_rc (job sc j); rw_cancel := false |}.
Definition ref_pass (sc : scenario) (rs : list row) : list row :=
  fold_left (fun acc j => if decided acc j then acc
                          else if forallb (decided acc) (deps sc j) then acc ++ [ref_row sc acc j] else acc)
            (all_jobs sc) rs.
Fixpoint ref_passes (n : nat) (sc : scenario) (rs : list row) : list row :=
  match n with O => rs | S k => ref_passes k sc (ref_pass sc rs) end.
Definition reference (sc : scenario) : list row := ref_passes (length (sc_jobs sc)) sc [].

(* ---------- the reference assignment is consistent ---------- *)
Definition consistent_on (sc : scenario) (rs : list row) : Prop :=
  NoDup (row_names rs) /\ forall rw, In rw rs -> row_ok sc rs rw.

Lemma consistent_add sc rs j : consistent_on sc rs -> In j (all_jobs sc) -> decided rs j = false ->
  forallb (decided rs) (deps sc j) = true -> consistent_on sc (rs ++ [ref_row sc rs j]).
Proof.
  intros [ND OK] Hj Hd Hall. apply memN_false in Hd.
  assert (Ej : rw_job (ref_row sc rs j) = j) by (unfold ref_row; destruct (flag sc j && has_failed_dep sc j rs); reflexivity).
  assert (Hdeps : forall d, In d (deps sc j) -> In d (row_names rs)).
  { intros d Hdd. rewrite forallb_forall in Hall. apply memN_In. apply (Hall d Hdd). }
  split.
  - rewrite row_names_app. apply NoDup_app_iff. repeat split; [exact ND|cbn; repeat constructor; intros []|].
    intros x Hx [<-|[]]. cbn in Hx. rewrite Ej in Hx. exact (Hd Hx).
  - intros rw Hin. apply in_app_iff in Hin. destruct Hin as [Hin|[<-|[]]].
    + apply row_ok_grow; [rewrite Ej; exact Hd|apply OK; exact Hin].
    + unfold row_ok. rewrite Ej. split; [exact Hj|]. unfold ref_row.
      destruct (flag sc j && has_failed_dep sc j rs) eqn:E; cbn [rw_cancel rw_rc rw_job].
      * apply andb_true_iff in E. destruct E as [Ef Eh]. split; [reflexivity|]. split; [exact Ef|].
        apply dep_failed_mono. apply has_failed_dep_spec. exact Eh.
      * split; [reflexivity|]. split.
        { intros d Hdd. rewrite row_names_app. apply in_app_iff. left. apply Hdeps. exact Hdd. }
        { intros [Ef (rd & Hrd & Hdj & Hrc)]. apply in_app_iff in Hrd. destruct Hrd as [Hrd|[<-|[]]].
          - assert (D : dep_failed sc j rs) by (exists rd; auto). apply has_failed_dep_spec in D. rewrite Ef, D in E. discriminate.
          - cbn [rw_job] in Hdj. apply Hd. apply Hdeps. exact Hdj. }
Qed.

Lemma consistent_pass sc rs : consistent_on sc rs -> consistent_on sc (ref_pass sc rs).
Proof.
  unfold ref_pass. assert (G : forall l, incl l (all_jobs sc) -> forall acc, consistent_on sc acc ->
    consistent_on sc (fold_left (fun acc j => if decided acc j then acc
                          else if forallb (decided acc) (deps sc j) then acc ++ [ref_row sc acc j] else acc) l acc)).
  { induction l as [|j t IH]; intros Hl acc C; cbn [fold_left]; [exact C|].
    apply IH; [intros x Hx; apply Hl; right; exact Hx|].
    destruct (decided acc j) eqn:Ed; [exact C|]. destruct (forallb (decided acc) (deps sc j)) eqn:Ea; [|exact C].
    apply consistent_add; auto. apply Hl. left. reflexivity. }
  apply G. apply incl_refl.
Qed.
Lemma consistent_passes n sc : forall rs, consistent_on sc rs -> consistent_on sc (ref_passes n sc rs).
Proof. induction n as [|n IH]; intros rs C; cbn; [exact C|]. apply IH. apply consistent_pass. exact C. Qed.
Theorem reference_consistent sc : consistent sc (reference sc).
Proof. apply (consistent_passes _ sc []). split; [constructor|intros rw []]. Qed.

(* ---------- on an acyclic graph the reference decides every job (same passes as SystemFault.acyclicb) ---------- *)
Definition same_dom (a : list (N * nat)) (rs : list row) : Prop :=
  forall j, lookup_rank j a <> None <-> In j (row_names rs).

Lemma deps_rank_some ds a : deps_rank ds a <> None <-> forall d, In d ds -> lookup_rank d a <> None.
Proof.
  induction ds as [|x t IH]; cbn [deps_rank].
  - split; [intros _ d []|intros _; discriminate].
  - destruct (lookup_rank x a) as [r|] eqn:Ex.
    + destruct (deps_rank t a) as [m|] eqn:Et.
      * split; [|intros _; discriminate]. intros _ d [<-|Hd]; [congruence|]. apply IH; [discriminate|exact Hd].
      * split; [intros H; contradiction|]. intros H. exfalso. apply (proj2 IH); [|reflexivity].
        intros d Hd. apply H. right. exact Hd.
    + split; [intros H; contradiction|]. intros H. exfalso. apply (H x); [left; reflexivity|exact Ex].
Qed.

Lemma same_dom_step sc a rs j : same_dom a rs ->
  same_dom (match lookup_rank j a with
            | Some _ => a
            | None => match deps_rank (deps sc j) a with Some r => (j, r) :: a | None => a end
            end)
           (if decided rs j then rs else if forallb (decided rs) (deps sc j) then rs ++ [ref_row sc rs j] else rs).
Proof.
  intros D.
  assert (Ej : forall rs0, rw_job (ref_row sc rs0 j) = j) by (intros; unfold ref_row; destruct (flag sc j && has_failed_dep sc j rs0); reflexivity).
  destruct (lookup_rank j a) as [r|] eqn:El.
  - replace (decided rs j) with true; [exact D|]. symmetry. apply memN_In. apply D. congruence.
  - replace (decided rs j) with false by (symmetry; apply memN_false; intros Hin; apply D in Hin; contradiction).
    destruct (deps_rank (deps sc j) a) as [r|] eqn:Ed.
    + replace (forallb (decided rs) (deps sc j)) with true.
      * intros k. cbn [lookup_rank]. rewrite row_names_app. cbn [row_names map]. rewrite Ej, in_app_iff.
        destruct (N.eqb k j) eqn:E.
        { apply N.eqb_eq in E. subst k. split; [intros _; right; left; reflexivity|intros _; discriminate]. }
        { rewrite (D k). split; [auto|intros [H|[H|[]]]; [exact H|apply N.eqb_neq in E; congruence]]. }
      * symmetry. apply forallb_forall. intros d Hd. apply memN_In. apply D.
        apply (proj1 (deps_rank_some (deps sc j) a)); [congruence|exact Hd].
    + replace (forallb (decided rs) (deps sc j)) with false; [exact D|].
      symmetry. destruct (forallb (decided rs) (deps sc j)) eqn:Ef; [|reflexivity]. exfalso.
      rewrite forallb_forall in Ef. apply (proj2 (deps_rank_some (deps sc j) a)); [|exact Ed].
      intros d Hd. apply D. apply memN_In. apply Ef. exact Hd.
Qed.

Lemma same_dom_pass sc a rs : same_dom a rs -> same_dom (pass sc a) (ref_pass sc rs).
Proof.
  unfold pass, ref_pass. generalize (all_jobs sc) as l. intros l. revert a rs.
  induction l as [|j t IH]; intros a rs D; cbn [fold_left]; [exact D|]. apply IH. apply same_dom_step. exact D.
Qed.
Lemma same_dom_passes n sc : forall a rs, same_dom a rs -> same_dom (passes n sc a) (ref_passes n sc rs).
Proof. induction n as [|n IH]; intros a rs D; cbn; [exact D|]. apply IH. apply same_dom_pass. exact D. Qed.

Theorem reference_total sc : acyclicb sc = true -> forall j, In j (all_jobs sc) -> In j (row_names (reference sc)).
Proof.
  intros H j Hj. unfold acyclicb in H. apply andb_true_iff in H. destruct H as [H _].
  rewrite forallb_forall in H. specialize (H j Hj).
  apply (same_dom_passes (length (sc_jobs sc)) sc [] []); [intros k; cbn; split; [intros C; contradiction|intros []]|].
  destruct (lookup_rank j (passes (length (sc_jobs sc)) sc [])); [discriminate|discriminate H].
Qed.

(* ---------- C03: what a fault-free run records is the reference evaluation ---------- *)
Theorem rows_are_the_reference sc tr s :
  acyclicb sc && nodes_okb sc = true -> run sc tr = Some s -> fault_free sc init tr = true ->
  forall rw, In rw (rows s) -> In rw (reference sc).
Proof.
  intros H R F rw Hin. apply andb_true_iff in H. destruct H as [Ha Hn].
  pose proof (acyclicb_sound sc Ha) as AC. pose proof (nodes_okb_sound sc Hn) as NO.
  pose proof (rows_consistent sc tr s AC NO R F) as C.
  assert (Hj : In (rw_job rw) (all_jobs sc)) by (apply (proj2 C rw Hin)).
  destruct (row_of_job _ _ (reference_total sc Ha _ Hj)) as (rr & Hr & Ej).
  assert (SG : same_graph sc sc) by (split; [reflexivity|intros; auto]).
  rewrite (consistent_unique sc sc (rows s) (reference sc) AC SG C (reference_consistent sc) rw rr Hin Hr (eq_sym Ej)). exact Hr.
Qed.

Theorem final_results_are_the_reference sc tr1 p res miss tr2 s :
  acyclicb sc && nodes_okb sc = true ->
  run sc (tr1 ++ ESummary p res miss :: tr2) = Some s ->
  fault_free sc init (tr1 ++ ESummary p res miss :: tr2) = true ->
  miss = [] /\ forall r, In r res <-> In r (reference sc).
Proof.
  intros H R F. destruct (complete_no_missing_checked _ _ _ _ _ _ _ H R F) as [M All]. split; [exact M|].
  destruct (summary_faithful _ _ _ _ _ _ _ R) as (u & U & _ & _ & Inr).
  destruct (fault_free_app _ _ _ _ F) as [Fa _].
  destruct (ghost_run_from _ _ _ _ U) as (_ & _ & _ & G). cbn [rows init app] in G.
  assert (Sub : forall r, In r res -> In r (reference sc)).
  { intros r Hr. apply (rows_are_the_reference sc tr1 u H U Fa). rewrite G. apply Inr. exact Hr. }
  intros r. split; [apply Sub|]. intros Hr.
  destruct (reference_consistent sc) as [ND OK]. pose proof (proj1 (OK r Hr)) as Hj.
  destruct (row_of_job _ _ (All _ Hj)) as (r2 & H2 & E2).
  (* r2 is in the reference too, with the same job: the reference has one row per job *)
  pose proof (Sub r2 H2) as Hr2.
  assert (Eq : r2 = r).
  { apply andb_true_iff in H. destruct H as [Ha _].
    assert (SG : same_graph sc sc) by (split; [reflexivity|intros; auto]).
    exact (consistent_unique sc sc _ _ (acyclicb_sound sc Ha) SG (reference_consistent sc) (reference_consistent sc) r2 r Hr2 Hr E2). }
  rewrite <- Eq. exact H2.
Qed.
