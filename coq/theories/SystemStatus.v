(* C09 / C14 at system level.
   C09: the persisted job table only moves forward (NOT_SUBMITTED -> SUBMITTED -> DONE) along every
   accepted trace - kills, errors and stale copies included - and a submitted or done job has no
   blockers left.  C14: when the submission is marked canceled, no batch listed in the persisted
   status is still active. *)
From Coq Require Import List ZArith NArith Bool Arith Lia.
From Jade Require Import Base System SystemMonitors SystemProofs SystemInv SystemOrder SystemLimits.
Import ListNotations.
Open Scope N_scope.
Set Default Timeout 300.

Definition jle (a b : jstate) : bool :=
  match a, b with
  | NS, _ => true
  | SUB, NS => false | SUB, _ => true
  | DONE, DONE => true | DONE, _ => false
  end.
Lemma jle_refl a : jle a a = true. Proof. destruct a; reflexivity. Qed.
Lemma jle_trans a b c : jle a b = true -> jle b c = true -> jle a c = true.
Proof. destruct a, b, c; cbn; auto. Qed.

Record Inv9 (sc : scenario) (s : state) : Prop := {
  n_copy : forall r j, holder s = Some r -> jle (st s j) (r_st r j) = true;
  n_placed_ns : forall r j, holder s = Some r -> r_updated r = false -> In j (r_placed r) -> r_st r j = NS
}.
Lemma inv9_init sc : Inv9 sc init.
Proof. constructor; cbn; intros; discriminate. Qed.

Lemma inv9_step sc s e s' : step sc s e = Some s' -> Inv1 sc s -> Inv9 sc s -> Inv9 sc s'.
Proof.
  intros H I1 [O P]. pose proof (i_notowns_placed sc s I1) as NP. constructor.
  - revert H. intros H. prep e H. all: hlit. all: try basic.
    all: try (intros; apply jle_refl).
    all: try (intros; unfold upd; match goal with |- context [N.eqb ?a ?b] => destruct (N.eqb a b) end; [destruct (st s _); reflexivity|apply O]).
  - revert H. intros H. prep e H. all: hlit. all: try basic.
    all: lazymatch goal with EV := ?x |- _ =>
           lazymatch x with
           | ESubCancel _ _ => intros _ Hin; rewrite NP in Hin by assumption; contradiction
           | ESbatch _ _ _ _ _ _ =>
             intros Hu Hin; apply in_app_iff in Hin; destruct Hin as [Hin|Hin]; [apply P; assumption|];
             vb; in_names Hin; eapply Vj; eauto
           end
         end.
Qed.
Lemma inv9_run_from sc tr : forall s s', run_from sc s tr = Some s' -> Inv1 sc s -> Inv9 sc s -> Inv1 sc s' /\ Inv9 sc s'.
Proof.
  induction tr as [|e t IH]; intros s s' Hr I1 I9; cbn [run_from] in Hr.
  - injection Hr as <-. auto.
  - destruct (step sc s e) as [s1|] eqn:Es; [|discriminate]. eapply IH; eauto using inv1_step, inv9_step.
Qed.

(* one step never moves a job of the persisted table backwards *)
Lemma status_monotone_step sc s e s' : step sc s e = Some s' -> Inv1 sc s -> Inv9 sc s ->
  forall j, In j (all_jobs sc) -> jle (st s j) (st s' j) = true.
Proof.
  intros H I1 [O P]. pose proof (i_copy_ns sc s I1) as CN.
  revert H. intros H. prep e H. all: hlit. all: try (intros; apply jle_refl).
  all: intros Hj;
    match goal with F : forallb (update_ok_job _ _) _ = true |- _ =>
      rewrite forallb_forall in F; specialize (F j Hj); apply update_ok_spec in F; destruct F as [F1 F2] end;
    destruct (in_dec N.eq_dec j (r_placed s0)) as [Hp|Hp];
    [ destruct (F1 Hp) as [F _]; rewrite F; rewrite (CN j (P j ltac:(assumption) Hp)); reflexivity |];
    specialize (F2 Hp); specialize (O j); destruct (r_st s0 j) eqn:Est;
    [ destruct F2 as [F _]; rewrite F, (CN j Est); reflexivity
    | destruct F2 as [F _]; destruct (snap_st sn j); [contradiction| |]; destruct (st s j); cbn in *; auto; discriminate
    | destruct F2 as [F _]; rewrite F; destruct (st s j); reflexivity ].
Qed.

(* C09, monotonicity: along every accepted trace the persisted state of a job never goes back *)
Theorem status_monotone sc tr1 tr2 s1 s2 : run sc tr1 = Some s1 -> run sc (tr1 ++ tr2) = Some s2 ->
  forall j, In j (all_jobs sc) -> jle (st s1 j) (st s2 j) = true.
Proof.
  intros H1 H2. unfold run in *. rewrite run_from_app, H1 in H2.
  destruct (inv9_run_from sc tr1 _ _ H1 (inv1_init sc) (inv9_init sc)) as [I1 I9]. clear H1.
  revert s1 s2 H2 I1 I9. induction tr2 as [|e t IH]; intros s1 s2 H2 I1 I9 j Hj; cbn [run_from] in H2.
  - injection H2 as <-. apply jle_refl.
  - destruct (step sc s1 e) as [sm|] eqn:Es; [|discriminate].
    eapply jle_trans; [eapply status_monotone_step; eauto|]. eapply IH; eauto using inv1_step, inv9_step.
Qed.

(* C09, consistency: a job that is submitted or done in the persisted table has no blockers left *)
Record Inv9b (sc : scenario) (s : state) : Prop := {
  nb_fresh : created s = false -> forall j, st s j = NS;
  nb_bl : forall j, In j (all_jobs sc) -> st s j <> NS -> bl s j = []
}.
Lemma inv9b_init sc : Inv9b sc init.
Proof. constructor; cbn; intros; congruence. Qed.
Lemma inv9b_step sc s e s' : step sc s e = Some s' -> Inv3 sc s -> Inv9b sc s -> Inv9b sc s'.
Proof.
  intros H I3 [F B]. pose proof (k_fresh sc s I3) as FR. constructor.
  - revert H. intros H. prep e H. all: hlit. all: try basic.
    all: try (intros Hc; specialize (FR Hc); discriminate).
  - revert H. intros H. prep e H. all: hlit. all: try basic.
    all: lazymatch goal with EV := ?x |- _ =>
           lazymatch x with
           | ECreate _ => intros Hj Hn; exfalso; apply Hn; apply F; assumption
           | EUpdate _ _ =>
             intros Hj Hn;
             match goal with Q : forallb (update_ok_job _ _) _ = true |- _ =>
               rewrite forallb_forall in Q; specialize (Q _ Hj); apply update_ok_spec in Q; destruct Q as [F1 F2] end;
             match goal with |- snap_bl _ ?j = [] => destruct (in_dec N.eq_dec j (r_placed s0)) as [Hp|Hp] end;
             [destruct (F1 Hp) as [_ Q]; exact Q|];
             specialize (F2 Hp); destruct (r_st s0 _); [destruct F2 as [Q _]; contradiction|destruct F2 as [_ Q]; exact Q|destruct F2 as [_ Q]; exact Q]
           end
         end.
Qed.
Theorem status_no_blockers_after_submit sc tr s : run sc tr = Some s ->
  forall j, In j (all_jobs sc) -> st s j <> NS -> bl s j = [].
Proof.
  intros H. unfold run in H.
  assert (G : forall tr s0 s1, run_from sc s0 tr = Some s1 -> Inv1 sc s0 -> Inv3 sc s0 -> Inv9b sc s0 -> Inv9b sc s1).
  { clear. induction tr as [|e t IH]; intros s0 s1 Hr I1 I3 I9; cbn [run_from] in Hr.
    - injection Hr as <-. exact I9.
    - destruct (step sc s0 e) as [s2|] eqn:Es; [|discriminate]. eapply IH; eauto using inv1_step, inv3_step, inv9b_step. }
  apply (nb_bl sc s (G _ _ _ H (inv1_init sc) (inv3_init sc) (inv9b_init sc))).
Qed.

(* C14: when the canceled flag is set, no batch listed in the persisted status is still active *)
Theorem canceled_means_no_listed_batch_active sc tr1 p tr2 s : run sc (tr1 ++ EMarkCanceled p :: tr2) = Some s ->
  exists s1, run sc tr1 = Some s1 /\ forall i, In i (ids s1) -> ~ In i (active_ids s1).
Proof.
  intros H. unfold run in *. rewrite run_from_app in H. destruct (run_from sc init tr1) as [s1|] eqn:E1; [|discriminate].
  exists s1. split; [reflexivity|]. cbn [run_from] in H. destruct (step sc s1 (EMarkCanceled p)) as [s2|] eqn:Es; [|discriminate].
  clear H. unfold step in Es. cbv beta iota in Es. destruct (acting s1 p) as [r|]; [|discriminate].
  match type of Es with (if ?c then _ else _) = _ => destruct c eqn:G; [|discriminate] end.
  apply andb_true_iff in G. destruct G as [_ G]. rewrite forallb_forall in G.
  intros i Hi Ha. specialize (G i Hi). apply negb_true_iff in G. apply memN_false in G. contradiction.
Qed.

Lemma incl_nil' {A} (l : list A) : incl l [] -> l = [].
Proof. destruct l; [reflexivity|]. intros H. exfalso. apply (H a). left. reflexivity. Qed.

(* C12 / C05: a completion that is forced (the completion check returns true although not every job is done) happens
   only when no batch at all is queued or running - listed in the status or not - whatever faults came before *)
Theorem forced_completion_only_when_nothing_active sc tr1 p tr2 s :
  run sc (tr1 ++ ECheckComplete p true :: tr2) = Some s ->
  exists s1 r, run sc tr1 = Some s1 /\ holder s1 = Some r /\
    ((forall j, In j (all_jobs sc) -> r_st r j = DONE) \/ act_ids (hpc s1) = []).
Proof.
  intros H. unfold run in *. rewrite run_from_app in H. destruct (run_from sc init tr1) as [s1|] eqn:E1; [|discriminate].
  assert (G : forall tr s0 s1, run_from sc s0 tr = Some s1 -> Inv1 sc s0 -> Inv3 sc s0 -> Inv3 sc s1).
  { clear. induction tr as [|e t IH]; intros s0 s1 Hr I1 I3; cbn [run_from] in Hr.
    - injection Hr as <-. exact I3.
    - destruct (step sc s0 e) as [s2|] eqn:Es; [|discriminate]. eapply IH; eauto using inv1_step, inv3_step. }
  pose proof (G _ _ _ E1 (inv1_init sc) (inv3_init sc)) as I3.
  cbn [run_from] in H. destruct (step sc s1 (ECheckComplete p true)) as [s2|] eqn:Es; [|discriminate]. clear H.
  unfold step in Es. cbv beta iota in Es. destruct (in_round s1 p) as [r|] eqn:Er; [|discriminate].
  apply in_round_some in Er. destruct Er as (Eh & _). exists s1, r. split; [reflexivity|]. split; [exact Eh|].
  match type of Es with (if ?c then _ else _) = _ => destruct c eqn:Gd; [|discriminate] end. clear Es.
  rewrite !andb_true_iff in Gd. destruct Gd as (((G1 & G3) & G245) & _).
  apply Bool.eqb_prop in G1. rewrite check_complete_spec in G1. symmetry in G1. apply orb_true_iff in G1.
  destruct G1 as [G1|G1].
  - left. rewrite forallb_forall in G1. intros j Hj. apply jstate_eqb_eq. apply G1. exact Hj.
  - right. destruct (ids s1) as [|i0 il] eqn:Eids; [|discriminate].
    assert (Hout : r_out r = []).
    { apply skip_update_spec in G245. destruct G245 as [U|(_ & _ & Q)].
      - apply incl_nil'. rewrite <- Eids. apply (k_out_ids sc s1 I3 r Eh). right. left. exact U.
      - unfold eqsetN in Q. apply andb_true_iff in Q. destruct Q as [Q _]. destruct (r_out r); [reflexivity|discriminate]. }
    apply incl_nil'. rewrite <- Hout. apply (k_active_owned sc s1 I3 r Eh G3).
Qed.
