(* C03 / C05, completeness: in a fault-free run of an acyclic configuration the completion check
   returns true only when every job is done, so the results summary reports no missing job and lists
   a result for every configured job; the completion flag is set only when every job has a result.
   "Fault-free" is the executable predicate SystemFF1.fault_free, which the check evaluates on every
   impl trace of its fault-free modes (so the hypothesis is one real runs are seen to satisfy). *)
From Coq Require Import List ZArith NArith Bool Arith Lia Permutation.
From Jade Require Import Base System SystemMonitors SystemProofs SystemInv SystemOrder SystemLimits SystemHooks SystemLaunch
  SystemTheorems SystemProgress SystemFF1 SystemFF2 SystemFF3.
Import ListNotations.
Open Scope N_scope.
Set Default Timeout 300.

(* the dependency graph has no cycle and mentions only configured jobs *)
Definition acyclic (sc : scenario) : Prop :=
  exists rank : N -> nat, forall j d, In j (all_jobs sc) -> In d (deps sc j) -> In d (all_jobs sc) /\ (rank d < rank j)%nat.
(* at least one node may be used *)
Definition nodes_ok (sc : scenario) : Prop := depth_ok (sc_max_nodes sc) 0 = true.

Record FFd (sc : scenario) (s : state) : Prop := {
  d_sum : forall r, holder s = Some r -> r_summary r = true -> r_check r = Some true;
  d_sumown : forall r, holder s = Some r -> r_summary r = true -> r_owns r = false /\ r_updated r = true;
  d_all : forall r, holder s = Some r -> r_check r = Some true -> forall j, In j (all_jobs sc) -> In j (P s)
}.
Lemma ffd_init sc : FFd sc init.
Proof. constructor; cbn; intros; discriminate. Qed.

Record FF (sc : scenario) (s : state) : Prop := {
  ff_1 : Inv1 sc s; ff_3 : Inv3 sc s; ff_4 : Inv4 sc s; ff_k : rows_kept s;
  ff_a : FFa sc s; ff_b : FFb sc s; ff_c : FFc sc s; ff_d : FFd sc s }.
Lemma ff_init sc : FF sc init.
Proof.
  constructor; [apply inv1_init|apply inv3_init|apply inv4_init| |apply ffa_init|apply ffb_init|apply ffc_init|apply ffd_init].
  unfold rows_kept. cbn. constructor.
Qed.

(* the completion check of a fault-free run of an acyclic configuration *)
Lemma check_all_done sc s p s' : acyclic sc -> nodes_ok sc -> FF sc s ->
  step sc s (ECheckComplete p true) = Some s' -> forall j, In j (all_jobs sc) -> In j (P s).
Proof.
  intros (rank & Hrank) Hnodes [I1 I3 I4 IK IA IB IC ID] Hs.
  unfold step in Hs. cbv beta iota in Hs. destruct (in_round s p) as [r|] eqn:Er; [|discriminate].
  apply in_round_some in Er. destruct Er as (Eh & _ & _ & Hround).
  match type of Hs with (if ?c then _ else _) = _ => destruct c eqn:G; [|discriminate] end. clear Hs.
  rewrite !andb_true_iff in G. destruct G as (((G1 & G3) & G245) & G6).
  apply Bool.eqb_prop in G1. rewrite check_complete_spec in G1.
  apply skip_update_spec in G245.
  assert (G2 : r_updated r || isnil (r_placed r) = true) by (destruct G245 as [->|(_ & -> & _)]; [reflexivity|apply orb_true_r]).
  assert (G5 : r_updated r || isnil (r_seen r) = true) by (destruct G245 as [->|(-> & _)]; [reflexivity|apply orb_true_r]).
  assert (G4 : r_updated r || eqsetN (r_out r) (ids s) = true) by (destruct G245 as [->|(_ & _ & ->)]; [reflexivity|apply orb_true_r]).
  assert (Vst : vst s = r_st r) by (unfold vst; rewrite Eh; reflexivity).
  assert (Vbl : vbl s = r_bl r) by (unfold vbl; rewrite Eh; reflexivity).
  assert (Hdone : forall j, In j (all_jobs sc) -> r_st r j = DONE -> In j (P s)).
  { intros j Hj Hd. apply (b_done sc s IB j Hj). rewrite Vst. exact Hd. }
  symmetry in G1. apply orb_true_iff in G1. destruct G1 as [G1|G1].
  { rewrite forallb_forall in G1. intros j Hj. apply Hdone; [exact Hj|]. apply jstate_eqb_eq. apply G1. exact Hj. }
  destruct (ids s) as [|i0 il] eqn:Eids; [clear G1|discriminate].
  (* nothing is tracked any more *)
  assert (Hout : r_out r = []).
  { apply orb_true_iff in G4. destruct G4 as [G4|G4].
    - apply incl_nil_eq. rewrite <- Eids. apply (k_out_ids sc s I3 r Eh). right. left. exact G4.
    - apply eqsetN_nil_l. exact G4. }
  assert (Hcoll : r_collected r = true) by (apply (a_owns_coll sc s IA r Eh G3)).
  assert (Hbatch : forall j, In j (handed s) -> In j (P s)).
  { intros j Hj. rewrite (m_handed sc s I4) in Hj. apply in_flat_map in Hj. destruct Hj as (h & Hh & Hj).
    apply (c_coll sc s IC r Eh Hcoll h Hh); [rewrite Hout; intros []|exact Hj]. }
  assert (Hus : r_updated r = true \/ r_seen r = []).
  { apply orb_true_iff in G5. destruct G5 as [G5|G5]; [left; exact G5|right; destruct (r_seen r); [reflexivity|discriminate]]. }
  assert (Hup : r_updated r = true \/ r_placed r = []).
  { apply orb_true_iff in G2. destruct G2 as [G2|G2]; [left; exact G2|right; destruct (r_placed r); [reflexivity|discriminate]]. }
  assert (Hprocdone : forall j, In j (P s) -> r_st r j = DONE).
  { intros j Hj. destruct (b_proc sc s IB j Hj) as [D|(r0 & E0 & U & Sn & _)]; [rewrite Vst in D; exact D|].
    rewrite Eh in E0. injection E0 as <-. destruct Hus as [Hus|Hus]; [congruence|rewrite Hus in Sn; contradiction]. }
  (* maximality of the round: no job that could have been submitted is left *)
  unfold round_maximal in G6. rewrite (a_sess sc s IA r Eh), Hout in G6. cbn [length N.of_nat orb] in G6.
  unfold nodes_ok in Hnodes. rewrite Hnodes in G6. cbn [negb orb] in G6. rewrite forallb_forall in G6.
  assert (Hall : forall n j, In j (all_jobs sc) -> (rank j < n)%nat -> r_st r j = DONE).
  { induction n as [|n IHn]; intros j Hj Hlt; [lia|].
    destruct (r_st r j) eqn:Est; [|exfalso|reflexivity].
    - exfalso. specialize (G6 j Hj). rewrite Est in G6. cbn [jstate_eqb andb] in G6.
      apply orb_true_iff in G6. destruct G6 as [G6|G6].
      + destruct (r_bl r j) as [|d bl0] eqn:Ebl; [discriminate|].
        assert (Hd : In d (vbl s j)) by (rewrite Vbl, Ebl; left; reflexivity).
        assert (Hn : vst s j = NS) by (rewrite Vst; exact Est).
        destruct (b_bl sc s IB j d Hj Hn Hd) as [Hdep Hnp].
        destruct (Hrank j d Hj Hdep) as [Hdj Hrk].
        apply Hnp. apply Hdone; [exact Hdj|]. apply IHn; [exact Hdj|lia].
      + apply memN_In in G6. destruct Hup as [Hup|Hup]; [|rewrite Hup in G6; contradiction].
        apply (i_updated_placed sc s I1 r j Eh Hup G6).
        rewrite <- (proj1 (a_copy sc s IA r Eh (or_introl Hup) j)). exact Est.
    - assert (Hs : vst s j = SUB) by (rewrite Vst; exact Est).
      pose proof (Hprocdone j (Hbatch j (b_sub sc s IB j Hj Hs))) as D. congruence. }
  intros j Hj. apply Hdone; [exact Hj|]. apply (Hall (S (rank j)) j Hj). lia.
Qed.

Section GroupD.
Variable sc : scenario.
Variables (s s' : state) (e : event).
Hypothesis Hac : acyclic sc.
Hypothesis Hno : nodes_ok sc.
Hypothesis H : step sc s e = Some s'.
Hypothesis Hff : ff_ev sc s e = true.
Hypothesis HF : FF sc s.

Lemma d1 : forall r, holder s' = Some r -> r_summary r = true -> r_check r = Some true.
Proof.
  pose proof (d_sum sc s (ff_d sc s HF)) as O. pose proof (k_fresh sc s (ff_3 sc s HF)) as FR.
  pose proof (d_sumown sc s (ff_d sc s HF)) as SO.
  revert H Hff. intros H Hff. ffstart2 e H Hff FR. all: try basic.
  all: intros Hs; destruct (SO Hs) as [So _]; congruence.
Qed.

Lemma d2 : forall r, holder s' = Some r -> r_summary r = true -> r_owns r = false /\ r_updated r = true.
Proof.
  pose proof (d_sumown sc s (ff_d sc s HF)) as O. pose proof (k_fresh sc s (ff_3 sc s HF)) as FR.
  pose proof (a_chk sc s (ff_a sc s HF)) as CK.
  revert H Hff. intros H Hff. ffstart2 e H Hff FR. all: try basic.
  all: lazymatch goal with EV := ?x |- _ =>
         lazymatch x with
         | ESummary _ _ _ => intros _; split; [assumption|]; apply CK; [congruence|assumption]
         | _ => intros Hs; destruct (O Hs) as [So Su]; congruence
         end
       end.
Qed.

Lemma d3 : forall r, holder s' = Some r -> r_check r = Some true -> forall j, In j (all_jobs sc) -> In j (P s').
Proof.
  pose proof (d_all sc s (ff_d sc s HF)) as O. pose proof (k_fresh sc s (ff_3 sc s HF)) as FR.
  pose proof (check_all_done sc s) as CA.
  revert H Hff. intros H Hff. pose proof H as Hstep. ffstart2 e H Hff FR. all: try basic.
  all: lazymatch goal with EV := ?x |- _ =>
         lazymatch x with
         | ECheckComplete _ _ => intros Eb; injection Eb as ->; eapply CA; eauto
         | EMarkerRemove _ => intros Ec; apply O; congruence
         | _ => intros Hc jx Hj; rewrite row_names_app; apply in_app_iff; left; eapply O; eauto
         end
       end.
Qed.

Lemma ffd_step_lemma : FFd sc s'.
Proof. constructor; [apply d1|apply d2|apply d3]. Qed.
End GroupD.

Lemma ff_step sc s e s' : acyclic sc -> nodes_ok sc -> step sc s e = Some s' -> ff_ev sc s e = true -> FF sc s -> FF sc s'.
Proof.
  intros Hac Hno Hs Hf HF. pose proof HF as [I1 I3 I4 IK IA IB IC ID]. constructor.
  - eapply inv1_step; eauto.
  - eapply inv3_step; eauto.
  - eapply inv4_step; eauto.
  - eapply rows_kept_step; eauto.
  - eapply ffa_step; eauto.
  - eapply ffb_step; eauto.
  - eapply ffc_step; eauto.
  - eapply ffd_step_lemma; eauto.
Qed.

Lemma ff_run_from sc : acyclic sc -> nodes_ok sc -> forall tr s s', run_from sc s tr = Some s' -> fault_free sc s tr = true ->
  FF sc s -> FF sc s'.
Proof.
  intros Hac Hno. induction tr as [|e t IH]; intros s s' Hr Hf HF; cbn [run_from fault_free] in *.
  - injection Hr as <-. exact HF.
  - apply andb_true_iff in Hf. destruct Hf as [Hf1 Hf2].
    destruct (step sc s e) as [s1|] eqn:Es; [|discriminate]. eapply IH; eauto using ff_step.
Qed.

Lemma fault_free_app sc tr1 : forall s tr2, fault_free sc s (tr1 ++ tr2) = true ->
  fault_free sc s tr1 = true /\ forall s1, run_from sc s tr1 = Some s1 -> fault_free sc s1 tr2 = true.
Proof.
  induction tr1 as [|e t IH]; intros s tr2 Hf; cbn [app fault_free run_from] in *.
  - split; [reflexivity|]. intros s1 E. injection E as <-. exact Hf.
  - apply andb_true_iff in Hf. destruct Hf as [Hf1 Hf2]. rewrite Hf1. cbn [andb].
    destruct (step sc s e) as [s1|] eqn:Es; [|discriminate]. apply IH. exact Hf2.
Qed.

(* ---------- the theorems ---------- *)
Theorem complete_no_missing sc tr1 p res miss tr2 s :
  acyclic sc -> nodes_ok sc ->
  run sc (tr1 ++ ESummary p res miss :: tr2) = Some s ->
  fault_free sc init (tr1 ++ ESummary p res miss :: tr2) = true ->
  miss = [] /\ forall j, In j (all_jobs sc) -> In j (row_names res).
Proof.
  intros Hac Hno Hr Hf. unfold run in Hr. rewrite run_from_app in Hr.
  destruct (run_from sc init tr1) as [s1|] eqn:E1; [|discriminate].
  destruct (fault_free_app _ _ _ _ Hf) as [Hf1 Hf2]. specialize (Hf2 s1 E1).
  pose proof (ff_run_from sc Hac Hno _ _ _ E1 Hf1 (ff_init sc)) as HF.
  cbn [run_from] in Hr. destruct (step sc s1 (ESummary p res miss)) as [s2|] eqn:Es; [|discriminate]. clear Hr Hf2.
  unfold step in Es. cbv beta iota in Es. destruct (in_round s1 p) as [r|] eqn:Er; [|discriminate].
  apply in_round_some in Er. destruct Er as (Eh & _).
  match type of Es with (if ?c then _ else _) = _ => destruct c eqn:G; [|discriminate] end. clear Es.
  rewrite !andb_true_iff in G. destruct G as ((((((G1 & G2) & G3) & G4) & G5) & G6) & G7).
  assert (Ec : r_check r = Some true) by (destruct (r_check r) as [[|]|]; try discriminate; reflexivity).
  pose proof (d_all sc s1 (ff_d sc s1 HF) r Eh Ec) as Hall. unfold P in Hall.
  split.
  - rewrite eqsetN_spec in G7. destruct miss as [|m ms]; [reflexivity|]. exfalso.
    assert (Hm : In m (diffN (all_jobs sc) (row_names (processed s1)))) by (apply G7; left; reflexivity).
    apply diffN_spec in Hm. destruct Hm as [Hm1 Hm2]. apply Hm2. apply Hall. exact Hm1.
  - intros j Hj. apply all_mem_rows_incl in G6. apply (row_names_incl _ _ G6). apply Hall. exact Hj.
Qed.

Theorem complete_only_when_all_done sc tr1 p tr2 s :
  acyclic sc -> nodes_ok sc ->
  run sc (tr1 ++ EMarkComplete p :: tr2) = Some s ->
  fault_free sc init (tr1 ++ EMarkComplete p :: tr2) = true ->
  exists s1, run sc tr1 = Some s1 /\ forall j, In j (all_jobs sc) -> In j (row_names (processed s1)).
Proof.
  intros Hac Hno Hr Hf. unfold run in *. rewrite run_from_app in Hr.
  destruct (run_from sc init tr1) as [s1|] eqn:E1; [|discriminate]. exists s1. split; [reflexivity|].
  destruct (fault_free_app _ _ _ _ Hf) as [Hf1 _].
  pose proof (ff_run_from sc Hac Hno _ _ _ E1 Hf1 (ff_init sc)) as HF.
  cbn [run_from] in Hr. destruct (step sc s1 (EMarkComplete p)) as [s2|] eqn:Es; [|discriminate]. clear Hr.
  unfold step in Es. cbv beta iota in Es. destruct (in_round s1 p) as [r|] eqn:Er; [|discriminate].
  apply in_round_some in Er. destruct Er as (Eh & _).
  match type of Es with (if ?c then _ else _) = _ => destruct c eqn:G; [|discriminate] end. clear Es.
  rewrite !andb_true_iff in G. destruct G as (((G1 & G2) & G3) & G4).
  apply (d_all sc s1 (ff_d sc s1 HF) r Eh). apply (d_sum sc s1 (ff_d sc s1 HF) r Eh G1).
Qed.
