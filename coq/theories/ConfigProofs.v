(* ConfigProofs.v - proofs about the model Config.v (property C17); statements collected in Props/C17.v *)
From Coq Require Import String Ascii List ZArith NArith Bool Lia DecimalString Permutation.
From Jade Require Import Base Config.
From Jade.Gen Require Import ConfigGen.
Import ListNotations.
Open Scope string_scope.

(* ---------- json_eqb decides equality ---------- *)
Lemma json_eqb_true : forall a b, json_eqb a b = true -> a = b.
Proof.
  fix IH 1. intros a b. destruct a as [| x | x | x | l | l], b as [| y | y | y | l0 | l0]; cbn; try discriminate; intros H.
  - reflexivity.
  - apply Bool.eqb_prop in H. congruence.
  - apply Z.eqb_eq in H. congruence.
  - apply String.eqb_eq in H. congruence.
  - f_equal. revert l l0 H. fix IHl 1. intros [|a l] [|b l0] H; try discriminate; try reflexivity.
    apply andb_true_iff in H as [H1 H2]. f_equal; [apply IH; exact H1|apply IHl; exact H2].
  - f_equal. revert l l0 H. fix IHl 1. intros [|[k a] l] [|[k' b] l0] H; try discriminate; try reflexivity.
    apply andb_true_iff in H as [H12 H3]. apply andb_true_iff in H12 as [H1 H2].
    apply String.eqb_eq in H1. subst k'. f_equal; [f_equal; apply IH; exact H2|apply IHl; exact H3].
Qed.
Lemma json_eqb_refl : forall a, json_eqb a a = true.
Proof.
  fix IH 1. intros [| x | x | x | l | l]; cbn.
  - reflexivity.
  - destruct x; reflexivity.
  - apply Z.eqb_refl.
  - apply String.eqb_refl.
  - revert l. fix IHl 1. intros [|a l]; [reflexivity|]. rewrite IH. cbn. apply IHl.
  - revert l. fix IHl 1. intros [|[k a] l]; [reflexivity|]. rewrite String.eqb_refl, IH. cbn. apply IHl.
Qed.
Lemma json_eqb_eq a b : json_eqb a b = true <-> a = b.
Proof. split; [apply json_eqb_true|intros ->; apply json_eqb_refl]. Qed.
Lemma json_eqb_neq a b : json_eqb a b = false <-> a <> b.
Proof. rewrite <- json_eqb_eq. destruct (json_eqb a b); split; congruence. Qed.

(* ---------- membership ---------- *)
Lemma mem_In x l : mem x l = true <-> In x l.
Proof.
  unfold mem. rewrite existsb_exists. split.
  - intros [y [Hy E]]. apply String.eqb_eq in E. subst. exact Hy.
  - intros H. exists x. split; [exact H|apply String.eqb_refl].
Qed.
Lemma mem_false x l : mem x l = false <-> ~ In x l.
Proof. rewrite <- mem_In. destruct (mem x l); split; congruence. Qed.
Lemma nodupb_NoDup l : nodupb l = true <-> NoDup l.
Proof.
  induction l as [|x r IH]; cbn.
  - split; [constructor|reflexivity].
  - rewrite andb_true_iff, negb_true_iff, mem_false, IH. split.
    + intros [H1 H2]. constructor; assumption.
    + intros H. inversion H; subst. split; assumption.
Qed.

(* ---------- strip ---------- *)
Lemma lstrip_head l : match lstrip_l l with [] => True | a :: _ => is_ws a = false end.
Proof. induction l as [|a r IH]; cbn; [exact I|]. destruct (is_ws a) eqn:E; [exact IH|exact E]. Qed.
Lemma lstrip_fixed a r : is_ws a = false -> lstrip_l (a :: r) = a :: r.
Proof. intros H. cbn. rewrite H. reflexivity. Qed.
Lemma rstrip_cons_nonws a r : is_ws a = false -> exists t, rstrip_l (a :: r) = a :: t.
Proof. intros H. cbn. destruct (rstrip_l r); [rewrite H; eexists; reflexivity|eexists; reflexivity]. Qed.
Lemma rstrip_idem l : rstrip_l (rstrip_l l) = rstrip_l l.
Proof.
  induction l as [|a r IH]; [reflexivity|]. cbn. destruct (rstrip_l r) as [|b t] eqn:E.
  - destruct (is_ws a) eqn:Ea; [reflexivity|]. cbn. rewrite Ea. reflexivity.
  - cbn. cbn in IH. rewrite IH. reflexivity.
Qed.
Lemma strip_idem s : strip (strip s) = strip s.
Proof.
  unfold strip. rewrite chars_of_chars. f_equal.
  pose proof (lstrip_head (chars s)) as Hh. destruct (lstrip_l (chars s)) as [|a r] eqn:E; [reflexivity|].
  destruct (rstrip_cons_nonws a r Hh) as [t Ht]. rewrite Ht, (lstrip_fixed a t Hh), <- Ht. apply rstrip_idem.
Qed.
Lemma sstrip_idem s : sstrip (sstrip s) = sstrip s.
Proof. unfold sstrip. destruct cfg_strip_whitespace; [apply strip_idem|reflexivity]. Qed.
Lemma rstrip_no_ws l : forallb (fun a => negb (is_ws a)) l = true -> rstrip_l l = l.
Proof.
  induction l as [|a r IH]; [reflexivity|]. intros H.
  cbn in H. apply andb_true_iff in H as [Ha Hr]. apply negb_true_iff in Ha. cbn. rewrite (IH Hr).
  destruct r; [rewrite Ha|]; reflexivity.
Qed.
Lemma lstrip_no_ws l : forallb (fun a => negb (is_ws a)) l = true -> lstrip_l l = l.
Proof.
  destruct l as [|a r]; [reflexivity|]. intros H. cbn in H. apply andb_true_iff in H as [H _].
  apply negb_true_iff in H. apply lstrip_fixed. exact H.
Qed.
Lemma strip_no_ws s : forallb (fun a => negb (is_ws a)) (chars s) = true -> strip s = s.
Proof.
  intros H. unfold strip. rewrite (lstrip_no_ws _ H), (rstrip_no_ws _ H). apply of_chars_chars.
Qed.

(* str(int) contains no whitespace *)
Lemma uint_no_ws d : forallb (fun a => negb (is_ws a)) (chars (NilEmpty.string_of_uint d)) = true.
Proof. induction d; cbn; try reflexivity; exact IHd. Qed.
Lemma z_str_no_ws z : forallb (fun a => negb (is_ws a)) (chars (z_str z)) = true.
Proof.
  unfold z_str, NilZero.string_of_int, NilZero.string_of_uint.
  destruct (Z.to_int z) as [d|d]; destruct d; cbn; try reflexivity; apply uint_no_ws.
Qed.
Lemma sstrip_z_str z : sstrip (z_str z) = z_str z.
Proof. unfold sstrip. destruct cfg_strip_whitespace; [apply strip_no_ws, z_str_no_ws|reflexivity]. Qed.

(* ---------- dedup ---------- *)
Lemma dedup_In x l : In x (dedup l) <-> In x l.
Proof.
  induction l as [|y r IH]; cbn; [tauto|]. destruct (mem y r) eqn:E.
  - rewrite IH. apply mem_In in E. split; [tauto|]. intros [->|H]; assumption.
  - cbn. rewrite IH. tauto.
Qed.
Lemma dedup_NoDup l : NoDup (dedup l).
Proof.
  induction l as [|y r IH]; cbn; [constructor|]. destruct (mem y r) eqn:E; [exact IH|].
  constructor; [|exact IH]. rewrite dedup_In. apply mem_false. exact E.
Qed.
Lemma dedup_fixed l : NoDup l -> dedup l = l.
Proof.
  induction l as [|y r IH]; [reflexivity|]. intros H. inversion H as [|? ? Hn Hd]; subst. cbn.
  apply mem_false in Hn. rewrite Hn, (IH Hd). reflexivity.
Qed.
Arguments sstrip : simpl never.
Arguments z_str : simpl never.
(* ---------- construction ---------- *)
Lemma NoDup_map_inj {A B} (f : A -> B) l :
  (forall x y, In x l -> In y l -> f x = f y -> x = y) -> NoDup l -> NoDup (map f l).
Proof.
  induction l as [|a r IH]; intros Hinj Hn; cbn; [constructor|]. inversion Hn as [|? ? Hna Hnr]; subst.
  constructor.
  - rewrite in_map_iff. intros [y [Hy Hin]]. assert (y = a) by (apply Hinj; cbn; auto). subst. exact (Hna Hin).
  - apply IH; [|exact Hnr]. intros x y Hx Hy. apply Hinj; cbn; auto.
Qed.
Lemma norm_blocker_stripped b : stripped (norm_blocker b).
Proof. destruct b; cbn; unfold stripped; [apply sstrip_z_str|apply sstrip_idem]. Qed.
Lemma norm_blockers_fixed l :
  (forall b, In b l -> exists s, b = BStr s /\ stripped s) -> NoDup l ->
  map BStr (dedup (map norm_blocker l)) = l.
Proof.
  intros Hb Hn.
  assert (E : map norm_blocker l = map blocker_str l).
  { apply map_ext_in. intros b Hin. destruct (Hb b Hin) as [s [-> Hs]]. cbn. exact Hs. }
  rewrite E, dedup_fixed.
  - rewrite map_map. rewrite <- (map_id l) at 2. apply map_ext_in. intros b Hin.
    destruct (Hb b Hin) as [s [-> _]]. reflexivity.
  - apply NoDup_map_inj; [|exact Hn]. intros x y Hx Hy.
    destruct (Hb x Hx) as [s [-> _]], (Hb y Hy) as [t [-> _]]. cbn. congruence.
Qed.
Lemma norm_job_fixed j : job_normal j -> norm_job j = j.
Proof.
  destruct j as [name mnm cmd bl cancel est grp ajn aod ext id]. unfold job_normal, norm_job. cbn.
  intros [Hn [Hc [Hg [Hb [Hnd [Hm _]]]]]]. f_equal.
  - destruct name as [n|]; [cbn; f_equal; apply Hn; reflexivity|reflexivity].
  - exact Hc.
  - apply norm_blockers_fixed; assumption.
  - exact Hg.
  - destruct mnm; [cbn; symmetry; apply Hm; reflexivity|reflexivity].
Qed.
(* the part of job_normal that validation of one job establishes *)
Definition fields_normal (j : job) : Prop :=
  (forall n, j_name j = Some n -> stripped n) /\ stripped (j_command j) /\ stripped (j_group j) /\
  (forall b, In b (j_blocked j) -> exists s, b = BStr s /\ stripped s) /\ NoDup (j_blocked j) /\
  (j_mnm j = true -> j_aod j = true).
Lemma norm_job_fields j : fields_normal (norm_job j).
Proof.
  unfold fields_normal, norm_job, stripped. cbn. repeat split.
  - intros n H. destruct (j_name j) as [m|]; cbn in H; [|discriminate]. injection H as <-. apply sstrip_idem.
  - apply sstrip_idem.
  - apply sstrip_idem.
  - intros b H. apply in_map_iff in H as [s [<- Hs]]. exists s. split; [reflexivity|].
    apply dedup_In, in_map_iff in Hs as [b0 [<- _]]. apply (norm_blocker_stripped b0).
  - apply NoDup_map_inj; [intros x y _ _ E; congruence|apply dedup_NoDup].
  - intros ->. reflexivity.
Qed.
Lemma norm_job_idem j : norm_job (norm_job j) = norm_job j.
Proof.
  destruct (norm_job_fields j) as [Hn [Hc [Hg [Hb [Hnd Hm]]]]].
  remember (norm_job j) as k. destruct k as [name mnm cmd bl cancel est grp ajn aod ext id].
  unfold norm_job. cbn in *. f_equal.
  - destruct name as [n|]; [cbn; f_equal; apply Hn; reflexivity|reflexivity].
  - exact Hc.
  - apply norm_blockers_fixed; assumption.
  - exact Hg.
  - destruct mnm; [cbn; symmetry; apply Hm; reflexivity|reflexivity].
Qed.
Lemma norm_group_idem g : norm_group (norm_group g) = norm_group g.
Proof. unfold norm_group. cbn. rewrite sstrip_idem. reflexivity. Qed.

Lemma command_ok_b j : (negb (j_mnm j) && String.eqb (j_command j) "") = false <-> command_ok j.
Proof.
  unfold command_ok. destruct (j_mnm j); cbn.
  - split; [discriminate|reflexivity].
  - rewrite String.eqb_neq. split; auto.
Qed.
Lemma assign_ids_cons cur j r :
  assign_ids cur (j :: r) =
  (match j_id j with None => set_id j cur | Some _ => j end)
    :: assign_ids (match j_id j with None => (cur + 1)%Z | Some _ => cur end) r.
Proof. cbn. destruct (j_id j); reflexivity. Qed.

Lemma add_jobs_spec : forall js cur seen js',
  add_jobs cur seen js = Ok js' <->
  js' = assign_ids cur js /\ Forall command_ok js' /\ NoDup (map job_name js') /\
  (forall n, In n (map job_name js') -> ~ In n seen).
Proof.
  induction js as [|j r IH]; intros cur seen js'.
  - cbn. split.
    + intros H. injection H as <-. repeat split; [constructor|constructor|intros n []].
    + intros [-> _]. reflexivity.
  - rewrite assign_ids_cons. cbn [add_jobs].
    set (j' := match j_id j with None => set_id j cur | Some _ => j end).
    set (cur' := match j_id j with None => (cur + 1)%Z | Some _ => cur end).
    destruct (negb (j_mnm j') && String.eqb (j_command j') "") eqn:Ec.
    { split; [discriminate|]. intros [-> [Hf _]]. inversion Hf as [|? ? Hc _]; subst.
      apply command_ok_b in Hc. congruence. }
    apply command_ok_b in Ec.
    destruct (mem (job_name j') seen) eqn:Em.
    { split; [discriminate|]. intros [-> [_ [_ Hs]]]. apply mem_In in Em. exfalso. apply (Hs (job_name j')); cbn; auto. }
    apply mem_false in Em.
    destruct (add_jobs cur' (job_name j' :: seen) r) as [l|e] eqn:Er.
    + apply IH in Er. destruct Er as [El [Hf [Hn Hs]]]. split.
      * intros H. injection H as <-. subst l. repeat split.
        -- constructor; assumption.
        -- cbn. constructor; [|exact Hn]. intros Hin. apply (Hs _ Hin). cbn. auto.
        -- intros n [<-|Hin]; [exact Em|]. intros Hseen. apply (Hs _ Hin). cbn. auto.
      * intros [-> _]. subst l. reflexivity.
    + split; [discriminate|]. intros [-> [Hf [Hn Hs]]]. exfalso.
      assert (X : add_jobs cur' (job_name j' :: seen) r = Ok (assign_ids cur' r)).
      { apply IH. inversion Hf; subst. cbn in Hn. inversion Hn; subst. repeat split; try assumption.
        intros n Hin [<-|Hseen]; [contradiction|]. apply (Hs n); cbn; auto. }
      congruence.
Qed.

Lemma construct_spec raw c :
  construct raw = Ok c <->
  c = built raw /\ Forall command_ok (c_jobs (built raw)) /\ NoDup (map job_name (c_jobs (built raw))).
Proof.
  unfold construct. destruct (add_jobs first_job_id [] (map norm_job (c_jobs raw))) as [l|e] eqn:E.
  - apply add_jobs_spec in E. destruct E as [-> [Hf [Hn _]]]. split.
    + intros H. injection H as <-. repeat split; assumption.
    + intros [-> _]. reflexivity.
  - split; [discriminate|]. intros [_ [Hf Hn]]. exfalso.
    assert (X : add_jobs first_job_id [] (map norm_job (c_jobs raw)) = Ok (assign_ids first_job_id (map norm_job (c_jobs raw)))).
    { apply add_jobs_spec. repeat split; try assumption. intros n _ []. }
    congruence.
Qed.

Lemma assign_ids_fixed cur js : Forall (fun j => j_id j <> None) js -> assign_ids cur js = js.
Proof.
  revert cur. induction js as [|j r IH]; intros cur H; [reflexivity|]. inversion H as [|? ? Hj Hr]; subst.
  cbn. destruct (j_id j); [|congruence]. rewrite (IH cur Hr). reflexivity.
Qed.
Lemma assign_ids_normal cur js :
  Forall fields_normal js -> Forall command_ok (assign_ids cur js) -> Forall job_normal (assign_ids cur js).
Proof.
  revert cur. induction js as [|j r IH]; intros cur Hf Hc; [constructor|].
  inversion Hf as [|? ? Hj Hr]; subst. rewrite assign_ids_cons in *. inversion Hc as [|? ? Hc1 Hc2]; subst.
  constructor; [|apply IH; assumption].
  destruct Hj as [H1 [H2 [H3 [H4 [H5 H6]]]]].
  destruct (j_id j) eqn:Ei; unfold job_normal; cbn; repeat split; try assumption; congruence.
Qed.

Theorem construct_normalized raw c : construct raw = Ok c -> normalized c.
Proof.
  intros H. apply construct_spec in H. destruct H as [-> [Hc Hn]]. unfold normalized. repeat split.
  - apply assign_ids_normal; [|exact Hc]. apply Forall_forall. intros j Hj.
    apply in_map_iff in Hj as [j0 [<- _]]. apply norm_job_fields.
  - exact Hn.
  - cbn. apply Forall_forall. intros g Hg. apply in_map_iff in Hg as [g0 [<- _]]. unfold stripped. cbn. apply sstrip_idem.
Qed.
Lemma built_fixed c : normalized c -> built c = c.
Proof.
  intros [Hj [_ Hg]]. destruct c as [js gs s1 s2 s3 s4 u]. unfold built. cbn in *. f_equal.
  - assert (E : map norm_job js = js).
    { rewrite <- (map_id js) at 2. apply map_ext_in. intros j Hin. apply norm_job_fixed.
      rewrite Forall_forall in Hj. auto. }
    rewrite E. apply assign_ids_fixed. eapply Forall_impl; [|exact Hj]. intros j H. apply H.
  - rewrite <- (map_id gs) at 2. apply map_ext_in. intros g Hin. rewrite Forall_forall in Hg.
    specialize (Hg g Hin). destruct g as [n p]. unfold norm_group. cbn in *. f_equal. exact Hg.
Qed.
Theorem construct_fixed c : normalized c -> construct c = Ok c.
Proof.
  intros H. apply construct_spec. rewrite (built_fixed c H). destruct H as [Hj [Hn _]]. repeat split.
  - eapply Forall_impl; [|exact Hj]. intros j Hjn. apply Hjn.
  - exact Hn.
Qed.
Theorem construct_idem raw c : construct raw = Ok c -> construct c = Ok c.
Proof. intros H. apply construct_fixed. eapply construct_normalized. exact H. Qed.
(* ---------- loading what was serialized ---------- *)
Lemma assoc_None {A} k (l : list (string * A)) : assoc k l = None <-> ~ In k (map fst l).
Proof.
  induction l as [|[k' v] r IH]; cbn; [tauto|]. destruct (String.eqb k k') eqn:E.
  - apply String.eqb_eq in E. subst. split; [discriminate|]. intros H. exfalso. apply H. auto.
  - apply String.eqb_neq in E. rewrite IH. split; [intros H [H1|H1]; [congruence|tauto]|tauto].
Qed.
Lemma assoc_filter {A} (Q : string * A -> bool) k l : NoDup (map fst l) ->
  assoc k (filter Q l) = match assoc k l with Some v => if Q (k, v) then Some v else None | None => None end.
Proof.
  induction l as [|[k' v] r IH]; intros Hn; [reflexivity|]. cbn in Hn. inversion Hn as [|? ? Hk Hr]; subst.
  cbn [filter assoc]. destruct (String.eqb k k') eqn:E.
  - apply String.eqb_eq in E. subst k'. destruct (Q (k, v)) eqn:Eq.
    + cbn. rewrite String.eqb_refl. reflexivity.
    + rewrite (IH Hr). apply assoc_None in Hk. rewrite Hk. reflexivity.
  - destruct (Q (k', v)); [cbn; rewrite E|]; apply (IH Hr).
Qed.
Lemma jfield_filter k l v : NoDup (map fst l) -> assoc k l = Some v ->
  jfield k (filter (fun kv => negb (elided kv)) l) = v.
Proof.
  intros Hn Ha. unfold jfield. rewrite (assoc_filter _ k l Hn), Ha.
  destruct (elided (k, v)) eqn:E; cbn; [|reflexivity].
  unfold elided in E. cbn in E. apply andb_true_iff in E as [_ E]. apply json_eqb_true in E. congruence.
Qed.
Lemma assoc_filter_kept k l v : NoDup (map fst l) -> assoc k l = Some v -> elided (k, v) = false ->
  assoc k (filter (fun kv => negb (elided kv)) l) = Some v.
Proof. intros Hn Ha He. rewrite (assoc_filter _ k l Hn), Ha, He. reflexivity. Qed.
Lemma forallb_filter {A} (P Q : A -> bool) l : forallb P l = true -> forallb P (filter Q l) = true.
Proof.
  induction l as [|a r IH]; cbn; [reflexivity|]. intros H. apply andb_true_iff in H as [H1 H2].
  destruct (Q a); cbn; [rewrite H1|]; auto.
Qed.
Lemma traverse_map {A B} (f : B -> option A) (g : A -> B) l :
  (forall a, f (g a) = Some a) -> traverse f (map g l) = Some l.
Proof. intros H. induction l as [|a r IH]; [reflexivity|]. cbn. rewrite H, IH. reflexivity. Qed.
Lemma dec_blockers_ok l : dec_blockers (JList (map blocker_json l)) = Some l.
Proof. cbn. apply traverse_map. intros [z|s]; reflexivity. Qed.

Lemma job_dict_keys j : NoDup (map fst (job_dict j)).
Proof. apply nodupb_NoDup. reflexivity. Qed.
Lemma job_dict_known j : forallb (fun kv => mem (fst kv) job_field_names) (job_dict j) = true.
Proof. reflexivity. Qed.
(* `command` is never dropped, `extension` is never dropped: over the generated elision tuple *)
Lemma command_kept cmd : elided ("command", JStr cmd) = false.
Proof.
  unfold elided. cbn [fst snd]. replace (job_field_default "command") with JNull by reflexivity.
  destruct (mem "command" job_elide_fields); reflexivity.
Qed.
Lemma extension_kept : elided ("extension", JStr job_extension) = false.
Proof. reflexivity. Qed.

Theorem parse_serialize_job j : parse_job (serialize_job j) = Some j.
Proof.
  unfold parse_job, serialize_job.
  rewrite (forallb_filter _ _ _ (job_dict_known j)). cbn [negb].
  rewrite (assoc_filter_kept "extension" (job_dict j) (JStr job_extension) (job_dict_keys j) eq_refl extension_kept).
  rewrite (assoc_filter_kept "command" (job_dict j) (JStr (j_command j)) (job_dict_keys j) eq_refl (command_kept _)).
  rewrite String.eqb_refl. cbn [negb].
  rewrite (jfield_filter "name" (job_dict j) _ (job_dict_keys j) eq_refl).
  rewrite (jfield_filter "use_multi_node_manager" (job_dict j) _ (job_dict_keys j) eq_refl).
  rewrite (jfield_filter "spark_config" (job_dict j) _ (job_dict_keys j) eq_refl).
  rewrite (jfield_filter "blocked_by" (job_dict j) _ (job_dict_keys j) eq_refl).
  rewrite (jfield_filter "cancel_on_blocking_job_failure" (job_dict j) _ (job_dict_keys j) eq_refl).
  rewrite (jfield_filter "estimated_run_minutes" (job_dict j) _ (job_dict_keys j) eq_refl).
  rewrite (jfield_filter "submission_group" (job_dict j) _ (job_dict_keys j) eq_refl).
  rewrite (jfield_filter "append_job_name" (job_dict j) _ (job_dict_keys j) eq_refl).
  rewrite (jfield_filter "append_output_dir" (job_dict j) _ (job_dict_keys j) eq_refl).
  rewrite (jfield_filter "ext" (job_dict j) _ (job_dict_keys j) eq_refl).
  rewrite (jfield_filter "job_id" (job_dict j) _ (job_dict_keys j) eq_refl).
  rewrite dec_blockers_ok.
  destruct j as [name mnm cmd bl cancel est grp ajn aod ext id]. cbn.
  destruct name, est, id; reflexivity.
Qed.
Theorem parse_serialize_group g : parse_group (serialize_group g) = Some g.
Proof. destruct g as [n p]. reflexivity. Qed.

Lemma top_opt_str_ok x : dec_opt_str (jopt JStr x) = Some x.
Proof. destruct x; reflexivity. Qed.
Theorem parse_serialize c : parse (serialize c) = Some c.
Proof.
  unfold parse, serialize. cbn [assoc String.eqb Ascii.eqb Bool.eqb].
  unfold top_absent_or_null, top_opt_str. cbn [assoc String.eqb Ascii.eqb Bool.eqb].
  rewrite !String.eqb_refl. cbn [andb negb].
  rewrite (traverse_map parse_job serialize_job _ parse_serialize_job).
  rewrite (traverse_map parse_group serialize_group _ parse_serialize_group).
  rewrite !top_opt_str_ok. destruct c; reflexivity.
Qed.

(* loading a serialized description = constructing from the description *)
Theorem deserialize_serialize c : deserialize (serialize c) = construct c.
Proof. unfold deserialize. rewrite parse_serialize. reflexivity. Qed.
Theorem roundtrip c : normalized c -> deserialize (serialize c) = Ok c.
Proof. intros H. rewrite deserialize_serialize. apply construct_fixed. exact H. Qed.
(* ---------- the checks ---------- *)
Lemma existsb_false {A} (f : A -> bool) l : existsb f l = false <-> forall x, In x l -> f x = false.
Proof.
  induction l as [|a r IH]; cbn; [split; [intros _ x []|reflexivity]|].
  rewrite orb_false_iff, IH. split.
  - intros [H1 H2] x [<-|Hx]; auto.
  - intros H. split; [apply H; auto|intros x Hx; apply H; auto].
Qed.
Lemma result_unit_cases (r : result unit) : r = Ok tt \/ exists e, r = Err e.
Proof. destruct r as [[]|e]; [left; reflexivity|right; eexists; reflexivity]. Qed.

Lemma groups_loop_spec first : forall gs seen names,
  check_groups_loop first seen gs = Ok names <->
  names = (rev (map g_name gs) ++ seen)%list /\ NoDup (map g_name gs) /\
  (forall g, In g gs -> ~ In (g_name g) seen) /\
  (forall g, In g gs -> g_hpc_type g = g_hpc_type first /\
                        forall p, In p group_must_be_same -> g_param p g = g_param p first).
Proof.
  induction gs as [|g r IH]; intros seen names.
  - cbn. split.
    + intros H. injection H as <-. split; [reflexivity|]. split; [constructor|]. split; intros g [].
    + intros [-> _]. reflexivity.
  - cbn [check_groups_loop].
    destruct (mem (g_name g) seen) eqn:Em.
    { split; [discriminate|]. intros [_ [_ [Hs _]]]. apply mem_In in Em. exfalso. apply (Hs g); cbn; auto. }
    apply mem_false in Em.
    destruct (json_eqb (g_hpc_type g) (g_hpc_type first)) eqn:Eh; cbn [negb].
    2:{ split; [discriminate|]. intros [_ [_ [_ Hp]]]. apply json_eqb_neq in Eh.
        destruct (Hp g (or_introl eq_refl)) as [H _]. contradiction. }
    apply json_eqb_true in Eh.
    destruct (find (fun p => negb (json_eqb (g_param p g) (g_param p first))) group_must_be_same) as [p|] eqn:Ef.
    { split; [discriminate|]. intros [_ [_ [_ Hp]]]. apply find_some in Ef as [Hin Hneq].
      apply negb_true_iff, json_eqb_neq in Hneq. destruct (Hp g (or_introl eq_refl)) as [_ H].
      exfalso. exact (Hneq (H p Hin)). }
    rewrite IH. split.
    + intros [-> [Hn [Hs Hp]]]. repeat split.
      * cbn. rewrite <- app_assoc. reflexivity.
      * cbn. constructor; [|exact Hn]. intros Hin. apply in_map_iff in Hin as [g' [E Hg']].
        apply (Hs g' Hg'). cbn. left. symmetry. exact E.
      * intros g' [<-|Hg']; [exact Em|]. intros Hin. apply (Hs g' Hg'). cbn. auto.
      * destruct H as [<-|Hg'].
        -- exact Eh.
        -- apply Hp. exact Hg'.
      * destruct H as [<-|Hg'].
        -- intros p Hp'. pose proof (find_none _ _ Ef p Hp') as X. apply negb_false_iff, json_eqb_true in X. exact X.
        -- apply Hp. exact Hg'.
    + intros [-> [Hn [Hs Hp]]]. cbn in Hn. inversion Hn as [|? ? Hn1 Hn2]; subst. repeat split.
      * cbn. rewrite <- app_assoc. reflexivity.
      * exact Hn2.
      * intros g' Hg' [E|Hin].
        -- apply Hn1. rewrite E. apply in_map. exact Hg'.
        -- apply (Hs g'); cbn; auto.
      * apply Hp. cbn. auto.
      * apply Hp. cbn. auto.
Qed.
Lemma jobs_groups_spec names : forall js,
  check_jobs_groups names js = Ok tt <-> forall j, In j js -> In (j_group j) names.
Proof.
  induction js as [|j r IH]; cbn.
  - split; [intros _ j []|reflexivity].
  - destruct (mem (j_group j) names) eqn:E.
    + apply mem_In in E. rewrite IH. split; [intros H j' [<-|Hj]; auto|intros H j' Hj; apply H; auto].
    + apply mem_false in E. split; [discriminate|]. intros H. exfalso. apply E, H. auto.
Qed.

Lemma fields_assert_ok : fields_assert = true.
Proof. vm_compute. reflexivity. Qed.
Lemma group_wide_ok : group_must_be_same = spec_group_wide.
Proof. reflexivity. Qed.

Lemma submission_groups_spec c :
  check_submission_groups c = Ok tt <->
  c_groups c <> [] /\ NoDup (map g_name (c_groups c)) /\
  (forall g1 g2, In g1 (c_groups c) -> In g2 (c_groups c) ->
     g_hpc_type g1 = g_hpc_type g2 /\ forall p, In p spec_group_wide -> g_param p g1 = g_param p g2) /\
  (forall j, In j (c_jobs c) -> In (j_group j) (map g_name (c_groups c))).
Proof.
  unfold check_submission_groups. destruct (c_groups c) as [|first rest] eqn:Eg.
  { split; [discriminate|]. intros [H _]. congruence. }
  rewrite fields_assert_ok. cbn [negb]. rewrite <- group_wide_ok.
  destruct (check_groups_loop first [] (first :: rest)) as [names|e] eqn:El.
  - apply groups_loop_spec in El. destruct El as [-> [Hn [_ Hp]]]. rewrite jobs_groups_spec. split.
    + intros Hj. repeat split.
      * discriminate.
      * exact Hn.
      * destruct (Hp g1 H) as [E1 _], (Hp g2 H0) as [E2 _]. congruence.
      * intros p Hpin. destruct (Hp g1 H) as [_ E1], (Hp g2 H0) as [_ E2]. rewrite (E1 p Hpin), (E2 p Hpin). reflexivity.
      * intros j Hin. specialize (Hj j Hin). rewrite app_nil_r, <- in_rev in Hj. exact Hj.
    + intros [_ [_ [_ Hj]]] j Hin. rewrite app_nil_r, <- in_rev. apply Hj. exact Hin.
  - split; [discriminate|]. intros [_ [Hn [Hp _]]]. exfalso.
    assert (X : check_groups_loop first [] (first :: rest) = Ok (rev (map g_name (first :: rest)) ++ [])%list).
    { apply groups_loop_spec. repeat split; try assumption.
      - intros g _ [].
      - apply Hp; cbn; auto.
      - apply Hp; cbn; auto. }
    congruence.
Qed.

Lemma estimates_spec c :
  check_estimates c = Ok tt <->
  (forall g j, In g (c_groups c) -> g_batch_size g = JNum 0 -> In j (c_jobs c) -> j_group j = g_name g -> j_est j <> None).
Proof.
  unfold check_estimates. destruct (existsb (missing_estimate c) (c_groups c)) eqn:E.
  - split; [discriminate|]. intros H. exfalso. apply existsb_exists in E as [g [Hg Hm]].
    unfold missing_estimate in Hm. apply andb_true_iff in Hm as [Hb Hj]. apply json_eqb_true in Hb.
    apply existsb_exists in Hj as [j [Hj Hx]]. apply andb_true_iff in Hx as [Hn He].
    apply String.eqb_eq in Hn. apply (H g j Hg Hb Hj Hn). destruct (j_est j); [discriminate|reflexivity].
  - split; [|reflexivity]. intros _ g j Hg Hb Hj Hn He.
    pose proof (proj1 (existsb_false _ _) E g Hg) as X. unfold missing_estimate in X.
    rewrite Hb in X. cbn in X. pose proof (proj1 (existsb_false _ _) X j Hj) as Y.
    cbn beta in Y. rewrite Hn, String.eqb_refl, He in Y. discriminate.
Qed.

Lemma dependencies_spec c :
  check_dependencies c = Ok tt <->
  (forall j b, In j (c_jobs c) -> In b (j_blocked j) -> In (blocker_str b) (map job_name (c_jobs c))).
Proof.
  unfold check_dependencies, all_blockers.
  destruct (forallb (fun b => mem b (map job_name (c_jobs c))) (flat_map (fun j => map blocker_str (j_blocked j)) (c_jobs c))) eqn:E.
  - split; [|reflexivity]. intros _ j b Hj Hb. rewrite forallb_forall in E. apply mem_In, E, in_flat_map.
    exists j. split; [exact Hj|apply in_map; exact Hb].
  - split; [discriminate|]. intros H. exfalso. assert (X : forallb (fun b => mem b (map job_name (c_jobs c)))
      (flat_map (fun j => map blocker_str (j_blocked j)) (c_jobs c)) = true); [|congruence].
    apply forallb_forall. intros s Hs. apply in_flat_map in Hs as [j [Hj Hs]]. apply in_map_iff in Hs as [b [<- Hb]].
    apply mem_In. apply (H j b Hj Hb).
Qed.

Definition wall_entry (g : group) : option (string * Z) := option_map (fun w => (g_name g, w)) (group_wall g).
Lemma walls_some : forall gs walls, traverse wall_entry gs = Some walls ->
  (forall g, In g gs -> group_wall g <> None) /\
  (forall n, ~ In n (map g_name gs) -> assoc n walls = None) /\
  (NoDup (map g_name gs) -> forall g, In g gs -> assoc (g_name g) walls = group_wall g).
Proof.
  induction gs as [|g r IH]; intros walls H.
  - cbn in H. injection H as <-. repeat split; [intros g []|intros g _ []].
  - cbn in H. unfold wall_entry at 1 in H. destruct (group_wall g) as [w|] eqn:Ew; cbn in H; [|discriminate].
    destruct (traverse wall_entry r) as [wr|] eqn:Er; [|discriminate]. injection H as <-.
    destruct (IH wr eq_refl) as [H1 [H2 H3]]. repeat split.
    + intros g' [<-|Hg']; [congruence|apply H1; exact Hg'].
    + intros n Hn. cbn in Hn. cbn. destruct (String.eqb n (g_name g)) eqn:E.
      * apply String.eqb_eq in E. exfalso. apply Hn. auto.
      * apply H2. tauto.
    + intros Hnd g' Hg'. cbn in Hnd. inversion Hnd as [|? ? Hn1 Hn2]; subst. cbn. destruct Hg' as [<-|Hg'].
      * rewrite String.eqb_refl. symmetry. exact Ew.
      * destruct (String.eqb (g_name g') (g_name g)) eqn:E.
        -- apply String.eqb_eq in E. exfalso. apply Hn1. rewrite <- E. apply in_map. exact Hg'.
        -- apply H3; assumption.
Qed.
Lemma walls_none : forall gs, traverse wall_entry gs = None <-> exists g, In g gs /\ group_wall g = None.
Proof.
  induction gs as [|g r IH]; cbn.
  - split; [discriminate|intros [g [[] _]]].
  - unfold wall_entry at 1. destruct (group_wall g) as [w|] eqn:Ew; cbn.
    + destruct (traverse wall_entry r) as [wr|] eqn:Er.
      * split; [discriminate|]. intros [g' [[<-|Hg'] Hn]]; [congruence|].
        assert (X : @None (list (string * Z)) = None) by reflexivity. 
        pose proof (proj2 IH (ex_intro _ g' (conj Hg' Hn))). discriminate.
      * split; [|reflexivity]. intros _. destruct (proj1 IH eq_refl) as [g' [Hg' Hn]]. exists g'. cbn. auto.
    + split; [|reflexivity]. intros _. exists g. auto.
Qed.
Lemma runtimes_jobs_spec walls : forall js,
  check_runtimes_jobs walls js = Ok tt <->
  (forall j, In j js -> exists w, assoc (j_group j) walls = Some w /\ forall e, j_est j = Some e -> (e * 60 <= w)%Z).
Proof.
  induction js as [|j r IH]; cbn [check_runtimes_jobs].
  - split; [intros _ j []|reflexivity].
  - destruct (assoc (j_group j) walls) as [w|] eqn:Ea.
    2:{ split; [discriminate|]. intros H. destruct (H j (or_introl eq_refl)) as [w [X _]]. congruence. }
    destruct (j_est j) as [e|] eqn:Ee.
    + destruct (w <? e * 60)%Z eqn:El.
      * split; [discriminate|]. intros H. destruct (H j (or_introl eq_refl)) as [w' [X Y]].
        rewrite Ea in X. injection X as <-. specialize (Y e Ee). apply Z.ltb_lt in El. lia.
      * apply Z.ltb_ge in El. rewrite IH. split.
        -- intros H j' [<-|Hj]; [|auto]. exists w. split; [exact Ea|]. intros e' He'. rewrite Ee in He'. injection He' as <-. exact El.
        -- intros H j' Hj. apply H. cbn. auto.
    + rewrite IH. split.
      * intros H j' [<-|Hj]; [|auto]. exists w. split; [exact Ea|]. intros e' He'. congruence.
      * intros H j' Hj. apply H. cbn. auto.
Qed.
Lemma runtimes_spec c : NoDup (map g_name (c_groups c)) ->
  (forall j, In j (c_jobs c) -> In (j_group j) (map g_name (c_groups c))) ->
  (check_runtimes c = Ok tt <->
   (forall g, In g (c_groups c) -> group_wall g <> None) /\
   (forall j g e w, In j (c_jobs c) -> In g (c_groups c) -> g_name g = j_group j -> j_est j = Some e ->
      group_wall g = Some w -> (e * 60 <= w)%Z)).
Proof.
  intros Hnd Hjg. unfold check_runtimes. fold wall_entry.
  destruct (traverse wall_entry (c_groups c)) as [walls|] eqn:Et.
  - destruct (walls_some _ _ Et) as [H1 [_ H3]]. specialize (H3 Hnd). rewrite runtimes_jobs_spec. split.
    + intros H. split; [exact H1|]. intros j g e w Hj Hg En Ee Ew. destruct (H j Hj) as [w' [Ha Hb]].
      rewrite <- En, (H3 g Hg), Ew in Ha. injection Ha as <-. apply Hb. exact Ee.
    + intros [_ H] j Hj. pose proof (Hjg j Hj) as Hin. apply in_map_iff in Hin as [g [En Hg]].
      destruct (group_wall g) as [w|] eqn:Ew; [|exfalso; apply (H1 g Hg Ew)].
      exists w. split; [rewrite <- En, (H3 g Hg); exact Ew|]. intros e Ee. apply (H j g e w Hj Hg En Ee Ew).
  - split; [discriminate|]. intros [H _]. apply walls_none in Et as [g [Hg Hn]]. exfalso. exact (H g Hg Hn).
Qed.

Lemma run_checks_unfold c :
  run_checks c =
  match check_submission_groups c with
  | Err e => Err e
  | Ok _ => match check_estimates c with
            | Err e => Err e
            | Ok _ => match check_dependencies c with
                      | Err e => Err e
                      | Ok _ => match check_runtimes c with Err e => Err e | Ok _ => Ok tt end
                      end
            end
  end.
Proof.
  unfold run_checks. change run_checks_steps with
    ["check_submission_groups"; "check_job_estimated_run_minutes"; "check_job_dependencies"; "check_job_runtimes"; "check_spark_config"].
  cbn. destruct (check_submission_groups c); [|reflexivity]. destruct (check_estimates c); [|reflexivity].
  destruct (check_dependencies c); [|reflexivity]. destruct (check_runtimes c); reflexivity.
Qed.

Theorem checks_exact c : run_checks c = Ok tt <-> valid c.
Proof.
  rewrite run_checks_unfold. unfold valid.
  destruct (result_unit_cases (check_submission_groups c)) as [E1|[e E1]]; rewrite E1.
  2:{ split; [discriminate|]. intros [H1 [H2 [H3 [H4 _]]]]. exfalso.
      assert (X : check_submission_groups c = Ok tt).
      { apply (proj2 (submission_groups_spec c)). split; [exact H1|]. split; [exact H2|]. split; [exact H3|exact H4]. }
      congruence. }
  destruct (proj1 (submission_groups_spec c) E1) as [H1 [H2 [H3 H4]]].
  destruct (result_unit_cases (check_estimates c)) as [E2|[e E2]]; rewrite E2.
  2:{ split; [discriminate|]. intros [_ [_ [_ [_ [H5 _]]]]]. exfalso.
      pose proof (proj2 (estimates_spec c) H5). congruence. }
  pose proof (proj1 (estimates_spec c) E2) as H5.
  destruct (result_unit_cases (check_dependencies c)) as [E3|[e E3]]; rewrite E3.
  2:{ split; [discriminate|]. intros [_ [_ [_ [_ [_ [H6 _]]]]]]. exfalso.
      pose proof (proj2 (dependencies_spec c) H6). congruence. }
  pose proof (proj1 (dependencies_spec c) E3) as H6.
  destruct (result_unit_cases (check_runtimes c)) as [E4|[e E4]]; rewrite E4.
  - destruct (proj1 (runtimes_spec c H2 H4) E4) as [H7 H8]. split; [|reflexivity]. intros _.
    split; [exact H1|]. split; [exact H2|]. split; [exact H3|]. split; [exact H4|]. split; [exact H5|].
    split; [exact H6|]. split; [exact H7|exact H8].
  - split; [discriminate|]. intros [_ [_ [_ [_ [_ [_ [H7 H8]]]]]]]. exfalso.
    pose proof (proj2 (runtimes_spec c H2 H4) (conj H7 H8)). congruence.
Qed.
Corollary invalid_rejected c : ~ valid c -> exists e, run_checks c = Err e.
Proof.
  intros H. destruct (result_unit_cases (run_checks c)) as [E|E]; [|exact E]. exfalso. apply H, checks_exact, E.
Qed.
(* ---------- each single invalidity is rejected ---------- *)
Lemma reject_no_groups c : c_groups c = [] -> run_checks c = Err ENoGroups.
Proof. intros H. rewrite run_checks_unfold. unfold check_submission_groups. rewrite H. reflexivity. Qed.
Lemma reject_missing_blocker c j b :
  In j (c_jobs c) -> In b (j_blocked j) -> ~ In (blocker_str b) (map job_name (c_jobs c)) ->
  exists e, run_checks c = Err e.
Proof. intros Hj Hb Hn. apply invalid_rejected. intros [_ [_ [_ [_ [_ [H _]]]]]]. exact (Hn (H j b Hj Hb)). Qed.
Lemma reject_invalid_group c j :
  In j (c_jobs c) -> ~ In (j_group j) (map g_name (c_groups c)) -> exists e, run_checks c = Err e.
Proof. intros Hj Hn. apply invalid_rejected. intros [_ [_ [_ [H _]]]]. exact (Hn (H j Hj)). Qed.
Lemma reject_duplicate_group c : ~ NoDup (map g_name (c_groups c)) -> exists e, run_checks c = Err e.
Proof. intros Hn. apply invalid_rejected. intros [_ [H _]]. exact (Hn H). Qed.
Lemma reject_inconsistent_hpc_type c g1 g2 :
  In g1 (c_groups c) -> In g2 (c_groups c) -> g_hpc_type g1 <> g_hpc_type g2 -> exists e, run_checks c = Err e.
Proof. intros H1 H2 Hn. apply invalid_rejected. intros [_ [_ [H _]]]. exact (Hn (proj1 (H g1 g2 H1 H2))). Qed.
Lemma reject_inconsistent_setting c g1 g2 p :
  In g1 (c_groups c) -> In g2 (c_groups c) -> In p spec_group_wide -> g_param p g1 <> g_param p g2 ->
  exists e, run_checks c = Err e.
Proof. intros H1 H2 Hp Hn. apply invalid_rejected. intros [_ [_ [H _]]]. exact (Hn (proj2 (H g1 g2 H1 H2) p Hp)). Qed.
Lemma reject_runtime_over_walltime c j g e w :
  In j (c_jobs c) -> In g (c_groups c) -> g_name g = j_group j -> j_est j = Some e -> group_wall g = Some w ->
  (w < e * 60)%Z -> exists e', run_checks c = Err e'.
Proof.
  intros Hj Hg Hn He Hw Hlt. apply invalid_rejected. intros [_ [_ [_ [_ [_ [_ [_ H]]]]]]].
  specialize (H j g e w Hj Hg Hn He Hw). lia.
Qed.
Lemma reject_missing_estimate c g j :
  In g (c_groups c) -> g_batch_size g = JNum 0 -> In j (c_jobs c) -> j_group j = g_name g -> j_est j = None ->
  exists e, run_checks c = Err e.
Proof. intros Hg Hb Hj Hn He. apply invalid_rejected. intros [_ [_ [_ [_ [H _]]]]]. exact (H g j Hg Hb Hj Hn He). Qed.
Lemma reject_unreadable_walltime c g : In g (c_groups c) -> group_wall g = None -> exists e, run_checks c = Err e.
Proof. intros Hg Hn. apply invalid_rejected. intros [_ [_ [_ [_ [_ [_ [H _]]]]]]]. exact (H g Hg Hn). Qed.

Lemma construct_cases raw : construct raw = Ok (built raw) \/ exists e, construct raw = Err e.
Proof.
  destruct (construct raw) as [c|e] eqn:E; [left|right; eexists; reflexivity].
  apply construct_spec in E. destruct E as [-> _]. reflexivity.
Qed.
Lemma reject_duplicate_names raw :
  ~ NoDup (map job_name (c_jobs (built raw))) -> exists e, construct raw = Err e.
Proof.
  intros Hn. destruct (construct_cases raw) as [E|E]; [|exact E]. apply construct_spec in E.
  destruct E as [_ [_ H]]. contradiction.
Qed.
Lemma reject_empty_command raw j :
  In j (c_jobs (built raw)) -> j_mnm j = false -> j_command j = "" -> exists e, construct raw = Err e.
Proof.
  intros Hj Hm Hc. destruct (construct_cases raw) as [E|E]; [|exact E]. apply construct_spec in E.
  destruct E as [_ [H _]]. rewrite Forall_forall in H. exfalso. exact (H j Hj Hm Hc).
Qed.
(* the only errors of construction *)
Lemma add_jobs_errors : forall js cur seen e, add_jobs cur seen js = Err e ->
  e = EEmptyCommand \/ exists n, e = EDuplicateName n.
Proof.
  induction js as [|j r IH]; intros cur seen e; cbn [add_jobs]; [discriminate|].
  destruct (negb _ && _); [intros H; injection H as <-; auto|].
  destruct (mem _ seen); [intros H; injection H as <-; right; eexists; reflexivity|].
  destruct (add_jobs _ _ r) eqn:E; [discriminate|]. intros H. injection H as <-. eapply IH. exact E.
Qed.
Lemma construct_errors raw e : construct raw = Err e -> e = EEmptyCommand \/ exists n, e = EDuplicateName n.
Proof.
  unfold construct. destruct (add_jobs _ _ _) eqn:E; [discriminate|]. intros H. injection H as <-.
  eapply add_jobs_errors. exact E.
Qed.

(* ---------- nothing reaches the cluster / the HPC before the checks have passed ---------- *)
Lemma submit_rejected c e : run_checks c = Err e -> run_submit_jobs c = ([], Err e).
Proof.
  intros H. unfold run_submit_jobs.
  change run_submit_steps with ["JobSubmitter.create"; "Cluster.create"; "mgr.submit_jobs"].
  change (exec_submit ["JobSubmitter.create"; "Cluster.create"; "mgr.submit_jobs"] c []) with
    (match exec_create create_steps c [] with
     | (tr', Ok _) => exec_submit ["Cluster.create"; "mgr.submit_jobs"] c tr'
     | (tr', Err e) => (tr', Err e)
     end).
  change create_steps with ["construct"; "run_checks"; "dump"; "return"].
  change (exec_create ["construct"; "run_checks"; "dump"; "return"] c []) with
    (match run_checks c with Ok _ => exec_create ["dump"; "return"] c [] | Err e => ([], Err e) end).
  rewrite H. reflexivity.
Qed.
Lemma submit_accepted c :
  run_checks c = Ok tt -> run_submit_jobs c = ([EvDump; EvClusterCreate; EvSubmitJobs], Ok tt).
Proof.
  intros H. unfold run_submit_jobs.
  change run_submit_steps with ["JobSubmitter.create"; "Cluster.create"; "mgr.submit_jobs"].
  change (exec_submit ["JobSubmitter.create"; "Cluster.create"; "mgr.submit_jobs"] c []) with
    (match exec_create create_steps c [] with
     | (tr', Ok _) => exec_submit ["Cluster.create"; "mgr.submit_jobs"] c tr'
     | (tr', Err e) => (tr', Err e)
     end).
  change create_steps with ["construct"; "run_checks"; "dump"; "return"].
  change (exec_create ["construct"; "run_checks"; "dump"; "return"] c []) with
    (match run_checks c with Ok _ => exec_create ["dump"; "return"] c [] | Err e => ([], Err e) end).
  rewrite H. reflexivity.
Qed.
Theorem load_rejected_no_events v :
  (forall e, deserialize v = Err e -> load_and_submit v = Err e) /\
  (forall c e, deserialize v = Ok c -> run_checks c = Err e ->
               load_and_submit v = Ok (serialize c, ([], Err e))) /\
  (forall c, deserialize v = Ok c -> run_checks c = Ok tt ->
             load_and_submit v = Ok (serialize c, ([EvDump; EvClusterCreate; EvSubmitJobs], Ok tt))).
Proof.
  unfold load_and_submit. repeat split.
  - intros e H. rewrite H. reflexivity.
  - intros c e H Hc. rewrite H, (submit_rejected c e Hc). reflexivity.
  - intros c H Hc. rewrite H, (submit_accepted c Hc). reflexivity.
Qed.
(* ---------- the error kind reported is truthful ---------- *)
(* what each error kind of run_checks claims about the configuration *)
Definition error_claim (c : config) (e : error) : Prop :=
  match e with
  | ENoGroups => c_groups c = []
  | EGroupTwice n => exists g, In g (c_groups c) /\ g_name g = n /\ ~ NoDup (map g_name (c_groups c))
  | EHpcType => exists g first, hd_error (c_groups c) = Some first /\ In g (c_groups c) /\ g_hpc_type g <> g_hpc_type first
  | EMustBeSame p => In p spec_group_wide /\
                     exists g first, hd_error (c_groups c) = Some first /\ In g (c_groups c) /\ g_param p g <> g_param p first
  | EJobInvalidGroup n grp => exists j, In j (c_jobs c) /\ job_name j = n /\ j_group j = grp /\
                                        ~ In grp (map g_name (c_groups c))
  | EMissingEstimate => exists g j, In g (c_groups c) /\ g_batch_size g = JNum 0 /\ In j (c_jobs c) /\
                                    j_group j = g_name g /\ j_est j = None
  | EMissingBlocker => exists j b, In j (c_jobs c) /\ In b (j_blocked j) /\ ~ In (blocker_str b) (map job_name (c_jobs c))
  | EWalltimeAssert => exists g, In g (c_groups c) /\ group_wall g = None
  | ERuntime n => exists j g e w, In j (c_jobs c) /\ job_name j = n /\ In g (c_groups c) /\ g_name g = j_group j /\
                                  j_est j = Some e /\ group_wall g = Some w /\ (w < e * 60)%Z
  | _ => False
  end.

Lemma groups_loop_err first : forall gs seen e,
  check_groups_loop first seen gs = Err e ->
  (exists g, In g gs /\ e = EGroupTwice (g_name g) /\ ~ NoDup (map g_name gs ++ seen)) \/
  (e = EHpcType /\ exists g, In g gs /\ g_hpc_type g <> g_hpc_type first) \/
  (exists p g, e = EMustBeSame p /\ In p group_must_be_same /\ In g gs /\ g_param p g <> g_param p first).
Proof.
  induction gs as [|g r IH]; intros seen e; cbn [check_groups_loop]; [discriminate|].
  destruct (mem (g_name g) seen) eqn:Em.
  { intros H. injection H as <-. left. exists g. split; [cbn; auto|]. split; [reflexivity|].
    apply mem_In in Em. cbn. intros Hn. inversion Hn as [|? ? Hx _]; subst. apply Hx, in_or_app. auto. }
  destruct (json_eqb (g_hpc_type g) (g_hpc_type first)) eqn:Eh; cbn [negb].
  2:{ intros H. injection H as <-. right. left. split; [reflexivity|]. exists g. split; [cbn; auto|].
      apply json_eqb_neq. exact Eh. }
  destruct (find _ group_must_be_same) as [p|] eqn:Ef.
  { intros H. injection H as <-. right. right. apply find_some in Ef as [Hin Hneq].
    apply negb_true_iff, json_eqb_neq in Hneq. exists p, g. repeat split; cbn; auto. }
  intros H. destruct (IH _ _ H) as [[g' [Hg' [-> Hn]]]|[[-> [g' [Hg' Hd]]]|[p [g' [-> [Hp [Hg' Hd]]]]]]].
  - left. exists g'. split; [cbn; auto|]. split; [reflexivity|]. intros Hnd. apply Hn.
    cbn in Hnd. exact (Permutation.Permutation_NoDup (Permutation.Permutation_middle _ _ _) Hnd).
  - right. left. split; [reflexivity|]. exists g'. split; [cbn; auto|exact Hd].
  - right. right. exists p, g'. repeat split; cbn; auto.
Qed.
Lemma forallb_false_ex {A} (f : A -> bool) l : forallb f l = false -> exists x, In x l /\ f x = false.
Proof.
  induction l as [|a r IH]; cbn; [discriminate|]. intros H. apply andb_false_iff in H as [H|H].
  - exists a. auto.
  - destruct (IH H) as [x [Hx Hf]]. exists x. auto.
Qed.
Lemma jobs_groups_err names : forall js e, check_jobs_groups names js = Err e ->
  exists j, In j js /\ e = EJobInvalidGroup (job_name j) (j_group j) /\ ~ In (j_group j) names.
Proof.
  induction js as [|j r IH]; intros e; cbn; [discriminate|]. destruct (mem (j_group j) names) eqn:E.
  - intros H. destruct (IH e H) as [j' [Hj' X]]. exists j'. split; [auto|exact X].
  - intros H. injection H as <-. exists j. split; [auto|]. split; [reflexivity|apply mem_false; exact E].
Qed.
Lemma submission_groups_err c e : check_submission_groups c = Err e -> error_claim c e.
Proof.
  unfold check_submission_groups. destruct (c_groups c) as [|first rest] eqn:Eg.
  { intros H. injection H as <-. exact Eg. }
  rewrite fields_assert_ok. cbn [negb].
  destruct (check_groups_loop first [] (first :: rest)) as [names|e'] eqn:El.
  - intros H. apply groups_loop_spec in El. destruct El as [-> _].
    destruct (jobs_groups_err _ _ _ H) as [j [Hj [-> Hn]]]. cbn [error_claim]. exists j. repeat split; try assumption.
    rewrite Eg. intros Hin. apply Hn. rewrite app_nil_r, <- in_rev. exact Hin.
  - intros H. injection H as <-.
    destruct (groups_loop_err _ _ _ _ El) as [[g [Hg [-> Hn]]]|[[-> [g [Hg Hd]]]|[p [g [-> [Hp [Hg Hd]]]]]]]; cbn [error_claim].
    + exists g. rewrite Eg. repeat split; try assumption. rewrite app_nil_r in Hn. exact Hn.
    + exists g, first. rewrite Eg. repeat split; assumption.
    + split; [rewrite <- group_wide_ok; exact Hp|]. exists g, first. rewrite Eg. repeat split; assumption.
Qed.
Lemma estimates_err c e : check_estimates c = Err e -> error_claim c e.
Proof.
  unfold check_estimates. destruct (existsb (missing_estimate c) (c_groups c)) eqn:E; [|discriminate].
  intros H. injection H as <-. apply existsb_exists in E as [g [Hg Hm]].
  unfold missing_estimate in Hm. apply andb_true_iff in Hm as [Hb Hj]. apply json_eqb_true in Hb.
  apply existsb_exists in Hj as [j [Hj Hx]]. apply andb_true_iff in Hx as [Hn He].
  apply String.eqb_eq in Hn. cbn [error_claim]. exists g, j. repeat split; try assumption. destruct (j_est j); [discriminate|reflexivity].
Qed.
Lemma dependencies_err c e : check_dependencies c = Err e -> error_claim c e.
Proof.
  intros H. assert (e = EMissingBlocker) as ->.
  { unfold check_dependencies in H. destruct (forallb _ _); [discriminate|]. injection H as <-. reflexivity. }
  cbn [error_claim]. destruct (forallb (fun j => forallb (fun b => mem (blocker_str b) (map job_name (c_jobs c))) (j_blocked j)) (c_jobs c)) eqn:E.
  - exfalso. assert (X : check_dependencies c = Ok tt); [|congruence]. apply dependencies_spec. intros j b Hj Hb.
    rewrite forallb_forall in E. specialize (E j Hj). rewrite forallb_forall in E. apply mem_In, E, Hb.
  - destruct (forallb_false_ex _ _ E) as [j [Hj Hf]]. destruct (forallb_false_ex _ _ Hf) as [b [Hb Hm]].
    exists j, b. repeat split; try assumption. apply mem_false. exact Hm.
Qed.
Lemma runtimes_jobs_err walls : forall js e, check_runtimes_jobs walls js = Err e ->
  (e = EGroupKey /\ exists j, In j js /\ assoc (j_group j) walls = None) \/
  (exists j w est, In j js /\ e = ERuntime (job_name j) /\ assoc (j_group j) walls = Some w /\ j_est j = Some est /\ (w < est * 60)%Z).
Proof.
  induction js as [|j r IH]; intros e; cbn [check_runtimes_jobs]; [discriminate|].
  destruct (assoc (j_group j) walls) as [w|] eqn:Ea.
  2:{ intros H. injection H as <-. left. split; [reflexivity|]. exists j. cbn. auto. }
  assert (R : check_runtimes_jobs walls r = Err e ->
    (e = EGroupKey /\ exists j0, In j0 (j :: r) /\ assoc (j_group j0) walls = None) \/
    (exists j0 w0 est, In j0 (j :: r) /\ e = ERuntime (job_name j0) /\ assoc (j_group j0) walls = Some w0 /\
                       j_est j0 = Some est /\ (w0 < est * 60)%Z)).
  { intros H. destruct (IH e H) as [[-> [j' [Hj' X]]]|[j' [w' [est [Hj' X]]]]].
    - left. split; [reflexivity|]. exists j'. cbn. auto.
    - right. exists j', w', est. cbn. auto. }
  destruct (j_est j) as [est|] eqn:Ee; [|exact R].
  destruct (w <? est * 60)%Z eqn:El; [|exact R].
  intros H. injection H as <-. right. exists j, w, est. apply Z.ltb_lt in El. cbn. auto 10.
Qed.
Lemma runtimes_err c e : NoDup (map g_name (c_groups c)) ->
  (forall j, In j (c_jobs c) -> In (j_group j) (map g_name (c_groups c))) ->
  check_runtimes c = Err e -> error_claim c e.
Proof.
  intros Hnd Hjg. unfold check_runtimes. fold wall_entry.
  destruct (traverse wall_entry (c_groups c)) as [walls|] eqn:Et.
  - destruct (walls_some _ _ Et) as [H1 [H2 H3]]. specialize (H3 Hnd). intros H.
    destruct (runtimes_jobs_err _ _ _ H) as [[-> [j [Hj Ha]]]|[j [w [est [Hj [-> [Ha [Ee Hlt]]]]]]]].
    + exfalso. pose proof (Hjg j Hj) as Hin. apply in_map_iff in Hin as [g [En Hg]].
      rewrite <- En, (H3 g Hg) in Ha. exact (H1 g Hg Ha).
    + cbn [error_claim]. pose proof (Hjg j Hj) as Hin. apply in_map_iff in Hin as [g [En Hg]].
      exists j, g, est, w. rewrite <- En, (H3 g Hg) in Ha. repeat split; assumption.
  - intros H. injection H as <-. apply walls_none in Et as [g [Hg Hn]]. cbn [error_claim]. exists g. auto.
Qed.
Theorem checks_error_truthful c e : run_checks c = Err e -> error_claim c e.
Proof.
  rewrite run_checks_unfold.
  destruct (result_unit_cases (check_submission_groups c)) as [E1|[e1 E1]]; rewrite E1.
  2:{ intros H. injection H as <-. apply submission_groups_err. exact E1. }
  destruct (proj1 (submission_groups_spec c) E1) as [_ [H2 [_ H4]]].
  destruct (result_unit_cases (check_estimates c)) as [E2|[e2 E2]]; rewrite E2.
  2:{ intros H. injection H as <-. apply estimates_err. exact E2. }
  destruct (result_unit_cases (check_dependencies c)) as [E3|[e3 E3]]; rewrite E3.
  2:{ intros H. injection H as <-. apply dependencies_err. exact E3. }
  destruct (result_unit_cases (check_runtimes c)) as [E4|[e4 E4]]; rewrite E4; [discriminate|].
  intros H. injection H as <-. apply (runtimes_err c e4 H2 H4 E4).
Qed.
