(* Layer B: the system model.  An event-trace acceptor for a whole JADE submission on an HPC:
   the login-node submitter, every compute node with its trailing try-submit-jobs, user commands
   (try-submit-jobs, cancel-jobs), the scheduler, and kill / failure events.

   `step sc s e : option state` checks the LOCAL conditions the code establishes at each visible
   point (who holds the submitter role, the submitter.lock marker, what a batch may contain, what
   a status update may write, when a node may launch a job ...) and returns None when impl did
   something the model does not allow.  The GLOBAL properties (C01 C02 C05 C06 C10 C11 C14 C16) are
   theorems about every accepted trace (SystemProofs.v), proved from one invariant.
   The virtual cluster (harness/vcluster.py) produces the events from the real code; every impl
   trace must be accepted (harness/sysrun.py evaluates `run` with vm_compute).

   Identifiers are N: jobs are numbered in configuration order, groups in configuration order,
   pids / hpc ids / batch indices as in the trace.  No proofs in this file. *)
From Coq Require Import List ZArith NArith Bool Arith.
From Jade Require Import Base.
From Jade.Gen Require Import RoundGen.
Import ListNotations.
Open Scope N_scope.

(* ---------- scenario ---------- *)
Record jobcfg := { jc_deps : list N; jc_flag : bool; jc_group : N; jc_est : Z; jc_rc : Z }.
Record groupcfg := {
  gc_size : N; gc_time : bool; gc_limit : Z (* wall seconds * processes *); gc_try : bool;
  gc_nproc : option N }.
Record hooks := { hk_setup : bool; hk_teardown : bool; hk_node_setup : bool; hk_node_teardown : bool }.
Record scenario := {
  sc_jobs : list jobcfg;
  sc_groups : list groupcfg;
  sc_max_nodes : option N;
  sc_cpus : N;
  sc_hooks : hooks }.

Definition dummy_job : jobcfg := {| jc_deps := []; jc_flag := false; jc_group := 0; jc_est := 0%Z; jc_rc := 0%Z |}.
Definition dummy_group : groupcfg :=
  {| gc_size := 1; gc_time := false; gc_limit := 0%Z; gc_try := false; gc_nproc := None |}.
Definition job (sc : scenario) (j : N) : jobcfg := nth (N.to_nat j) (sc_jobs sc) dummy_job.
Definition group (sc : scenario) (g : N) : groupcfg := nth (N.to_nat g) (sc_groups sc) dummy_group.
Definition njobs (sc : scenario) : N := N.of_nat (length (sc_jobs sc)).
Definition is_job (sc : scenario) (j : N) : bool := j <? njobs sc.
Definition all_jobs (sc : scenario) : list N := map N.of_nat (seq 0 (length (sc_jobs sc))).
Definition deps sc j := jc_deps (job sc j).
Definition flag sc j := jc_flag (job sc j).

(* ---------- state ---------- *)
Inductive jstate := NS | SUB | DONE.
Definition jstate_eqb (a b : jstate) : bool :=
  match a, b with NS, NS | SUB, SUB | DONE, DONE => true | _, _ => false end.

Record row := { rw_job : N; rw_rc : Z; rw_cancel : bool }.
Definition row_eqb (a b : row) : bool :=
  N.eqb (rw_job a) (rw_job b) && Z.eqb (rw_rc a) (rw_rc b) && Bool.eqb (rw_cancel a) (rw_cancel b).
Definition row_names (l : list row) : list N := map rw_job l.
Definition failed_names (l : list row) : list N := map rw_job (filter (fun r => negb (Z.eqb (rw_rc r) 0)) l).

(* what the process holding the submitter role knows and has done since it was promoted *)
Record session := {
  r_pid : N;
  r_alive : bool;
  r_st : N -> jstate;          (* its in-memory copy of the job table *)
  r_bl : N -> list N;
  r_index : N;                 (* next batch index *)
  r_out : list N;              (* hpc ids in its queue *)
  r_round : bool;              (* HpcSubmitter.run entered *)
  r_canceled : bool;           (* is_canceled as loaded *)
  r_owns : bool;               (* created submitter.lock in this round *)
  r_placed : list N;           (* jobs placed in batches in this round *)
  r_seen : list N;             (* names seen complete in this round *)
  r_updated : bool;
  r_check : option bool;       (* result of _is_complete *)
  r_summary : bool;
  r_teardown : bool;
  r_setup : bool;
  r_creator : bool;
  r_polled : bool;             (* the scheduler's status was read in this round *)
  r_collected : bool           (* the node result files were read in this round *)
}.

Inductive hstate := HPending | HRunning | HGone | HCancelled.
Record hentry := { h_id : N; h_index : N; h_jobs : list (N * list N); h_state : hstate; h_nproc : option N }.
Definition h_active (h : hentry) : bool :=
  match h_state h with HPending | HRunning => true | _ => false end.

Record node := {
  n_id : N;                         (* hpc id *)
  n_alive : bool;
  n_queue : list (N * list N);      (* queued jobs with their node-local blocking sets *)
  n_running : list N;
  n_depth : N;
  n_setup : bool;
  n_teardown : bool;
  n_started : bool                  (* some job of the batch was launched on this node *)
}.

Record state := {
  created : bool;
  st : N -> jstate;                 (* persisted job table *)
  bl : N -> list N;
  ids : list N;                     (* persisted hpc ids *)
  next_index : N;
  holder : option session;          (* the submitter field, with the holder's local state *)
  marker : bool;                    (* submitter.lock *)
  complete : bool;
  canceled : bool;
  rows : list row;                  (* every row ever appended, oldest first *)
  pending : list row;               (* rows in node result files, not yet collected *)
  processed : list row;             (* rows in the consolidated file *)
  hpc : list hentry;
  nodes : list node;
  (* ghost histories *)
  handed : list N;                  (* jobs of all successful sbatch payloads *)
  indices : list N;                 (* batch indices of all sbatch calls *)
  launched : list N;
  completions : N;                  (* number of mark_complete *)
  setups : N
}.

Definition init : state := {|
  created := false; st := fun _ => NS; bl := fun _ => []; ids := []; next_index := 1; holder := None;
  marker := false; complete := false; canceled := false; rows := []; pending := []; processed := [];
  hpc := []; nodes := []; handed := []; indices := []; launched := []; completions := 0; setups := 0 |}.

(* ---------- events ---------- *)
Inductive hook := HSetup | HTeardown | HNodeSetup | HNodeTeardown.
Record snapshot := {
  sn_jobs : list (N * (jstate * list N));
  sn_ids : list N; sn_index : N; sn_submitted : N; sn_completed : N }.

Inductive event :=
| ECreate (p : N)
| ELoad (p : N) (try promoted : bool) (is_complete is_canceled : bool)
| EDemote (p : N)
| ERound (p : N)
| ESqueue (p : N) (active : list N)
| ESqueueFail (p : N)
| ECollect (p : N) (rs : list row)
| ESubCancel (p : N) (j : N)
| EMarkerTouch (p : N)
| EMarkerFound (p : N)
| ESbatch (p : N) (idx g : N) (jobs : list (N * list N)) (nproc : option N) (res : option N)
| EUpdate (p : N) (sn : snapshot)
| ECheckComplete (p : N) (b : bool)
| EMarkerRemove (p : N)
| ESummary (p : N) (results : list row) (missing : list N)
| EHook (p : N) (h : hook) (nd : option N)
| EMarkComplete (p : N)
| EMarkCanceled (p : N)
| EScancel (p : N) (id : N)
| EBatchStart (id : N)
| ELaunch (id j : N)
| EAppend (id : N) (r : row)          (* a node appends a finish or cancel row *)
| EUnblock (id j d : N)
| EBatchEnd (id : N)
| EKill (pids : list N).

(* ---------- helpers ---------- *)
Definition isnil {A} (l : list A) : bool := match l with [] => true | _ => false end.
Definition upd {A} (f : N -> A) (k : N) (v : A) : N -> A := fun x => if N.eqb x k then v else f x.
Fixpoint lookup {A} (k : N) (l : list (N * A)) : option A :=
  match l with [] => None | (k', v) :: r => if N.eqb k k' then Some v else lookup k r end.
Definition remove_row (r : row) (l : list row) : list row :=
  (fix go l := match l with [] => [] | x :: t => if row_eqb x r then t else x :: go t end) l.
Definition mem_row (r : row) (l : list row) : bool := existsb (row_eqb r) l.
Fixpoint remove_rows (rs : list row) (l : list row) : list row :=
  match rs with [] => l | r :: t => remove_rows t (remove_row r l) end.
Fixpoint all_mem_rows (rs l : list row) : bool :=      (* multiset inclusion *)
  match rs with [] => true | r :: t => mem_row r l && all_mem_rows t (remove_row r l) end.
Definition eqsetN (a b : list N) : bool := subsetN a b && subsetN b a.
Definition active_ids (s : state) : list N := map h_id (filter h_active (hpc s)).
Definition find_h (id : N) (l : list hentry) : option hentry := find (fun h => N.eqb (h_id h) id) l.
Definition set_h (id : N) (x : hstate) (l : list hentry) : list hentry :=
  map (fun h => if N.eqb (h_id h) id
                then {| h_id := h_id h; h_index := h_index h; h_jobs := h_jobs h; h_state := x; h_nproc := h_nproc h |}
                else h) l.
Definition find_n (id : N) (l : list node) : option node := find (fun n => N.eqb (n_id n) id) l.
Definition set_n (nd : node) (l : list node) : list node :=
  map (fun n => if N.eqb (n_id n) (n_id nd) then nd else n) l.
Definition has_failed_dep (sc : scenario) (j : N) (rs : list row) : bool :=
  negb (match interN (deps sc j) (failed_names rs) with [] => true | _ => false end).
Definition count_st (sc : scenario) (f : N -> jstate) (x : jstate) : N :=
  N.of_nat (length (filter (fun j => jstate_eqb (f j) x) (all_jobs sc))).
Definition depth_ok (d : option N) (n : N) : bool := match d with None => true | Some m => n <? m end.
Definition sum_est (sc : scenario) (l : list N) : Z := fold_right (fun j a => (jc_est (job sc j) + a)%Z) 0%Z l.

(* session updates *)
Definition new_session (p : N) (s : state) (creator : bool) : session := {|
  r_pid := p; r_alive := true; r_st := st s; r_bl := bl s; r_index := next_index s; r_out := ids s;
  r_round := false; r_canceled := canceled s; r_owns := false; r_placed := []; r_seen := [];
  r_updated := false; r_check := None; r_summary := false; r_teardown := false; r_setup := false;
  r_creator := creator; r_polled := false; r_collected := false |}.

Definition with_holder (s : state) (h : option session) : state := {|
  created := created s; st := st s; bl := bl s; ids := ids s; next_index := next_index s; holder := h;
  marker := marker s; complete := complete s; canceled := canceled s; rows := rows s; pending := pending s;
  processed := processed s; hpc := hpc s; nodes := nodes s; handed := handed s; indices := indices s;
  launched := launched s; completions := completions s; setups := setups s |}.

(* the holder acting as process p, alive *)
Definition acting (s : state) (p : N) : option session :=
  match holder s with
  | Some r => if N.eqb (r_pid r) p && r_alive r then Some r else None
  | None => None
  end.
Definition in_round (s : state) (p : N) : option session :=
  match acting s p with Some r => if r_round r then Some r else None | None => None end.

(* C07's predicate on one batch, checked on what was really written to config_batch_N.json *)
Definition valid_batch (sc : scenario) (r : session) (g : N) (jobs : list (N * list N)) : bool :=
  let names := map fst jobs in
  let gc := group sc g in
  negb (match jobs with [] => true | _ => false end)
  && nodupbN names
  && forallb (fun jb =>
       let j := fst jb in
       is_job sc j
       && N.eqb (jc_group (job sc j)) g
       && jstate_eqb (r_st r j) NS
       && negb (memN j (r_placed r))
       && eqsetN (snd jb) (r_bl r j)                          (* the blockers handed to the node *)
       && subsetN (snd jb) names                               (* ... are all inside the batch *)
       && (match snd jb with [] => true | _ => gc_try gc end)) jobs
  && (if gc_time gc then (60 * sum_est sc names <=? gc_limit gc)%Z
      else N.of_nat (length jobs) <=? gc_size gc).

(* what update_job_status may persist, job by job *)
Definition update_ok_job (r : session) (sn : snapshot) (j : N) : bool :=
  match lookup j (sn_jobs sn) with
  | None => false
  | Some (x, b) =>
    if memN j (r_placed r)
    then jstate_eqb x SUB && (match b with [] => true | _ => false end)
    else
      match r_st r j with
      | NS => jstate_eqb x NS && eqsetN b (r_bl r j)
      | SUB => (if memN j (r_seen r) then jstate_eqb x DONE else jstate_eqb x SUB)
               && (match b with [] => true | _ => false end)
      | DONE => jstate_eqb x DONE && (match b with [] => true | _ => false end)
      end
  end.
Definition snap_st (sn : snapshot) (j : N) : jstate :=
  match lookup j (sn_jobs sn) with Some (x, _) => x | None => NS end.
Definition snap_bl (sn : snapshot) (j : N) : list N :=
  match lookup j (sn_jobs sn) with Some (_, b) => b | None => [] end.

Definition set_session (s : state) (r : session) : state := with_holder s (Some r).

(* HpcSubmitter.run leaves a NOT_SUBMITTED job without blockers behind only when its queue is full
   (or the submission is canceled): judged on the table as it is after the round's status update *)
Definition round_maximal (sc : scenario) (r : session) : bool :=
  r_canceled r
  || negb (depth_ok (sc_max_nodes sc) (N.of_nat (length (r_out r))))
  || forallb (fun j => negb (jstate_eqb (r_st r j) NS && match r_bl r j with [] => true | _ => false end)
                       || memN j (r_placed r)) (all_jobs sc).

(* ---------- the acceptor ---------- *)
Definition step (sc : scenario) (s : state) (e : event) : option state :=
  match e with
  | ECreate p =>
    if negb (created s) then
      let s1 := {| created := true; st := st s; bl := fun j => deps sc j; ids := ids s; next_index := next_index s;
                   holder := None; marker := marker s; complete := complete s; canceled := canceled s;
                   rows := rows s; pending := pending s; processed := processed s; hpc := hpc s;
                   nodes := nodes s; handed := handed s; indices := indices s; launched := launched s;
                   completions := completions s; setups := setups s |} in
      Some (with_holder s1 (Some (new_session p s1 true)))
    else None
  | ELoad p try promoted c x =>
    if created s && Bool.eqb c (complete s) && Bool.eqb x (canceled s)
       && Bool.eqb promoted (try && match holder s with None => true | Some _ => false end)
    then Some (if promoted then with_holder s (Some (new_session p s false)) else s)
    else None
  | EDemote p =>
    match acting s p with
    | Some r => Some (with_holder s None)
    | None => None
    end
  | ERound p =>
    match acting s p with
    | Some r =>
      if negb (r_round r) then
        Some (set_session s {| r_pid := r_pid r; r_alive := true; r_st := r_st r; r_bl := r_bl r; r_index := r_index r;
               r_out := r_out r; r_round := true; r_canceled := r_canceled r; r_owns := false; r_placed := [];
               r_seen := []; r_updated := false; r_check := None; r_summary := false; r_teardown := false;
               r_setup := r_setup r; r_creator := r_creator r; r_polled := false; r_collected := false |})
      else None
    | None => None
    end
  | ESqueue p active =>
    match in_round s p with
    | Some r =>
      if eqsetN active (active_ids s) && negb (r_collected r) && negb (r_owns r) then
        Some (set_session s {| r_pid := r_pid r; r_alive := true; r_st := r_st r; r_bl := r_bl r; r_index := r_index r;
               r_out := filter (fun i => memN i active) (r_out r); r_round := true; r_canceled := r_canceled r;
               r_owns := r_owns r; r_placed := r_placed r; r_seen := r_seen r; r_updated := r_updated r;
               r_check := r_check r; r_summary := r_summary r; r_teardown := r_teardown r; r_setup := r_setup r;
               r_creator := r_creator r; r_polled := true; r_collected := r_collected r |})
      else None
    | None => None
    end
  | ESqueueFail p =>
    match in_round s p with
    | Some r => if negb (r_collected r) && negb (r_owns r) then Some s else None
    | None => None end
  | ECollect p rs =>
    match in_round s p with
    | Some r =>
      if all_mem_rows rs (pending s) && negb (r_owns r) && negb (r_updated r) && negb (marker s)
         && (r_polled r || match r_out r with [] => true | _ => false end) then
        let names := row_names rs in
        let r' := {| r_pid := r_pid r; r_alive := true; r_st := r_st r;
                     r_bl := fun j => match r_st r j with NS => diffN (r_bl r j) names | _ => r_bl r j end;
                     r_index := r_index r; r_out := r_out r; r_round := true; r_canceled := r_canceled r;
                     r_owns := r_owns r; r_placed := r_placed r; r_seen := r_seen r ++ names;
                     r_updated := r_updated r; r_check := r_check r; r_summary := r_summary r;
                     r_teardown := r_teardown r; r_setup := r_setup r; r_creator := r_creator r; r_polled := r_polled r; r_collected := true |} in
        Some {| created := created s; st := st s; bl := bl s; ids := ids s; next_index := next_index s;
                holder := Some r'; marker := marker s; complete := complete s; canceled := canceled s;
                rows := rows s; pending := remove_rows rs (pending s); processed := processed s ++ rs;
                hpc := hpc s; nodes := nodes s; handed := handed s; indices := indices s;
                launched := launched s; completions := completions s; setups := setups s |}
      else None
    | None => None
    end
  | ESubCancel p j =>
    match in_round s p with
    | Some r =>
      if is_job sc j && jstate_eqb (r_st r j) NS && flag sc j && has_failed_dep sc j (processed s)
         && negb (r_owns r) && negb (r_updated r) && negb (marker s) && r_collected r then
        let rw := {| rw_job := j; rw_rc := 1%Z; rw_cancel := true |} in
        let r' := {| r_pid := r_pid r; r_alive := true; r_st := upd (r_st r) j DONE;
                     (* the canceled name is removed from the other blocker sets in the next pass of the loop *)
                     r_bl := fun x => if N.eqb x j then []
                                      else match r_st r x with NS => diffN (r_bl r x) [j] | _ => r_bl r x end;
                     r_index := r_index r; r_out := r_out r; r_round := true; r_canceled := r_canceled r;
                     r_owns := r_owns r; r_placed := r_placed r; r_seen := r_seen r ++ [j];
                     r_updated := r_updated r; r_check := r_check r; r_summary := r_summary r;
                     r_teardown := r_teardown r; r_setup := r_setup r; r_creator := r_creator r; r_polled := r_polled r; r_collected := r_collected r |} in
        Some {| created := created s; st := st s; bl := bl s; ids := ids s; next_index := next_index s;
                holder := Some r'; marker := marker s; complete := complete s; canceled := canceled s;
                rows := rows s ++ [rw]; pending := pending s; processed := processed s ++ [rw];
                hpc := hpc s; nodes := nodes s; handed := handed s; indices := indices s;
                launched := launched s; completions := completions s; setups := setups s |}
      else None
    | None => None
    end
  | EMarkerTouch p =>
    match in_round s p with
    | Some r =>
      if negb (marker s) && negb (r_owns r) && negb (r_updated r)
         && (r_polled r || match r_out r with [] => true | _ => false end) && r_collected r then
        let r' := {| r_pid := r_pid r; r_alive := true; r_st := r_st r; r_bl := r_bl r; r_index := r_index r;
                     r_out := r_out r; r_round := true; r_canceled := r_canceled r; r_owns := true;
                     r_placed := r_placed r; r_seen := r_seen r; r_updated := r_updated r; r_check := r_check r;
                     r_summary := r_summary r; r_teardown := r_teardown r; r_setup := r_setup r;
                     r_creator := r_creator r; r_polled := r_polled r; r_collected := r_collected r |} in
        Some {| created := created s; st := st s; bl := bl s; ids := ids s; next_index := next_index s;
                holder := Some r'; marker := true; complete := complete s; canceled := canceled s;
                rows := rows s; pending := pending s; processed := processed s; hpc := hpc s; nodes := nodes s;
                handed := handed s; indices := indices s; launched := launched s;
                completions := completions s; setups := setups s |}
      else None
    | None => None
    end
  | EMarkerFound p =>
    match in_round s p with
    | Some r => if marker s && negb (r_owns r) && negb (r_polled r) && negb (r_collected r) then Some s else None
    | None => None end
  | ESbatch p idx g jobs nproc res =>
    match in_round s p with
    | Some r =>
      if r_owns r && negb (r_updated r) && negb (r_canceled r) && negb (complete s)
         && (match r_check r with None => true | Some _ => false end)
         && N.eqb idx (r_index r) && valid_batch sc r g jobs
         && depth_ok (sc_max_nodes sc) (N.of_nat (length (r_out r)))
         && (if hk_setup (sc_hooks sc) && r_creator r then r_setup r else true)
         && option_eqb N.eqb nproc (gc_nproc (group sc g))
         && match res with Some id => negb (memN id (map h_id (hpc s))) | None => true end
      then
        let names := map fst jobs in
        let r' := {| r_pid := r_pid r; r_alive := true; r_st := r_st r; r_bl := r_bl r; r_index := r_index r + 1;
                     r_out := match res with Some id => r_out r ++ [id] | None => r_out r end;
                     r_round := true; r_canceled := r_canceled r; r_owns := true;
                     r_placed := r_placed r ++ names; r_seen := r_seen r; r_updated := r_updated r;
                     r_check := r_check r; r_summary := r_summary r; r_teardown := r_teardown r;
                     r_setup := r_setup r; r_creator := r_creator r; r_polled := r_polled r; r_collected := r_collected r |} in
        Some {| created := created s; st := st s; bl := bl s; ids := ids s; next_index := next_index s;
                holder := Some r'; marker := marker s; complete := complete s; canceled := canceled s;
                rows := rows s; pending := pending s; processed := processed s;
                hpc := match res with
                       | Some id => hpc s ++ [{| h_id := id; h_index := idx; h_jobs := jobs; h_state := HPending;
                                                 h_nproc := nproc |}]
                       | None => hpc s end;
                nodes := nodes s;
                handed := match res with Some _ => handed s ++ names | None => handed s end;
                indices := indices s ++ [idx]; launched := launched s;
                completions := completions s; setups := setups s |}
      else None
    | None => None
    end
  | EUpdate p sn =>
    match in_round s p with
    | Some r =>
      if negb (r_updated r) && r_owns r && (match r_check r with None => true | Some _ => false end)
         && forallb (update_ok_job r sn) (all_jobs sc)
         && eqsetN (sn_ids sn) (r_out r) && nodupbN (sn_ids sn)
         && N.eqb (sn_index sn) (r_index r)
         && N.eqb (sn_completed sn) (count_st sc (snap_st sn) DONE)
         && N.eqb (sn_submitted sn) (count_st sc (snap_st sn) SUB + count_st sc (snap_st sn) DONE)
      then
        let r' := {| r_pid := r_pid r; r_alive := true; r_st := snap_st sn; r_bl := snap_bl sn;
                     r_index := r_index r; r_out := r_out r; r_round := true; r_canceled := r_canceled r;
                     r_owns := r_owns r; r_placed := r_placed r; r_seen := r_seen r; r_updated := true;
                     r_check := r_check r; r_summary := r_summary r; r_teardown := r_teardown r;
                     r_setup := r_setup r; r_creator := r_creator r; r_polled := r_polled r; r_collected := r_collected r |} in
        Some {| created := created s; st := snap_st sn; bl := snap_bl sn; ids := sn_ids sn; next_index := sn_index sn;
                holder := Some r'; marker := marker s; complete := complete s; canceled := canceled s;
                rows := rows s; pending := pending s; processed := processed s; hpc := hpc s; nodes := nodes s;
                handed := handed s; indices := indices s; launched := launched s;
                completions := completions s; setups := setups s |}
      else None
    | None => None
    end
  | ECheckComplete p b =>
    match in_round s p with
    | Some r =>
      let all_done := forallb (fun j => jstate_eqb (r_st r j) DONE) (all_jobs sc) in
      (* _is_complete as HpcSubmitter defines it (Gen/RoundGen.v), evaluated after the status update; the update may
         be skipped only when _update_status's own test says nothing changed *)
      if Bool.eqb b (check_complete all_done (isnil (ids s)))
         && r_owns r
         && (r_updated r || negb (update_needed (negb (isnil (r_seen r))) (negb (isnil (r_placed r))) false
                                                (negb (eqsetN (r_out r) (ids s)))))
         && round_maximal sc r then
        Some (set_session s {| r_pid := r_pid r; r_alive := true; r_st := r_st r; r_bl := r_bl r; r_index := r_index r;
               r_out := r_out r; r_round := true; r_canceled := r_canceled r; r_owns := r_owns r;
               r_placed := r_placed r; r_seen := r_seen r; r_updated := r_updated r; r_check := Some b;
               r_summary := r_summary r; r_teardown := r_teardown r; r_setup := r_setup r;
               r_creator := r_creator r; r_polled := r_polled r; r_collected := r_collected r |})
      else None
    | None => None
    end
  | EMarkerRemove p =>
    match in_round s p with
    | Some r =>
      if r_owns r && marker s && (r_updated r || (match r_placed r with [] => true | _ => false end))
         && (r_updated r || (match r_seen r with [] => true | _ => false end))
         && (match r_check r with Some _ => true | None => false end) then
        let r' := {| r_pid := r_pid r; r_alive := true; r_st := r_st r; r_bl := r_bl r; r_index := r_index r;
                     r_out := r_out r; r_round := true; r_canceled := r_canceled r; r_owns := false;
                     r_placed := []; r_seen := r_seen r; r_updated := true; r_check := r_check r;
                     r_summary := r_summary r; r_teardown := r_teardown r; r_setup := r_setup r;
                     r_creator := r_creator r; r_polled := r_polled r; r_collected := r_collected r |} in
        Some {| created := created s; st := st s; bl := bl s; ids := ids s; next_index := next_index s;
                holder := Some r'; marker := false; complete := complete s; canceled := canceled s;
                rows := rows s; pending := pending s; processed := processed s; hpc := hpc s; nodes := nodes s;
                handed := handed s; indices := indices s; launched := launched s;
                completions := completions s; setups := setups s |}
      else None
    | None => None
    end
  | ESummary p results missing =>
    match in_round s p with
    | Some r =>
      if (match r_check r with Some true => true | _ => false end) && negb (r_owns r) && negb (complete s)
         && negb (r_summary r)
         && all_mem_rows results (processed s) && all_mem_rows (processed s) results
         && eqsetN missing (diffN (all_jobs sc) (row_names (processed s))) then
        Some (set_session s {| r_pid := r_pid r; r_alive := true; r_st := r_st r; r_bl := r_bl r; r_index := r_index r;
               r_out := r_out r; r_round := true; r_canceled := r_canceled r; r_owns := r_owns r;
               r_placed := r_placed r; r_seen := r_seen r; r_updated := r_updated r; r_check := r_check r;
               r_summary := true; r_teardown := r_teardown r; r_setup := r_setup r; r_creator := r_creator r; r_polled := r_polled r; r_collected := r_collected r |})
      else None
    | None => None
    end
  | EHook p h nd =>
    match h, nd with
    | HSetup, None =>
      match acting s p with
      | Some r =>
        if hk_setup (sc_hooks sc) && r_creator r && negb (r_round r) && negb (r_setup r) then
          let r' := {| r_pid := r_pid r; r_alive := true; r_st := r_st r; r_bl := r_bl r; r_index := r_index r;
                       r_out := r_out r; r_round := r_round r; r_canceled := r_canceled r; r_owns := r_owns r;
                       r_placed := r_placed r; r_seen := r_seen r; r_updated := r_updated r; r_check := r_check r;
                       r_summary := r_summary r; r_teardown := r_teardown r; r_setup := true;
                       r_creator := r_creator r; r_polled := r_polled r; r_collected := r_collected r |} in
          Some {| created := created s; st := st s; bl := bl s; ids := ids s; next_index := next_index s;
                  holder := Some r'; marker := marker s; complete := complete s; canceled := canceled s;
                  rows := rows s; pending := pending s; processed := processed s; hpc := hpc s; nodes := nodes s;
                  handed := handed s; indices := indices s; launched := launched s;
                  completions := completions s; setups := setups s + 1 |}
        else None
      | None => None
      end
    | HTeardown, None =>
      match in_round s p with
      | Some r =>
        if hk_teardown (sc_hooks sc) && r_summary r && negb (r_teardown r) && negb (complete s) then
          Some (set_session s {| r_pid := r_pid r; r_alive := true; r_st := r_st r; r_bl := r_bl r; r_index := r_index r;
                 r_out := r_out r; r_round := true; r_canceled := r_canceled r; r_owns := r_owns r;
                 r_placed := r_placed r; r_seen := r_seen r; r_updated := r_updated r; r_check := r_check r;
                 r_summary := r_summary r; r_teardown := true; r_setup := r_setup r; r_creator := r_creator r; r_polled := r_polled r; r_collected := r_collected r |})
        else None
      | None => None
      end
    | HNodeSetup, Some id =>
      match find_n id (nodes s) with
      | Some n =>
        if hk_node_setup (sc_hooks sc) && n_alive n && negb (n_setup n)
           && negb (n_started n) then
          Some {| created := created s; st := st s; bl := bl s; ids := ids s; next_index := next_index s;
                  holder := holder s; marker := marker s; complete := complete s; canceled := canceled s;
                  rows := rows s; pending := pending s; processed := processed s; hpc := hpc s;
                  nodes := set_n {| n_id := id; n_alive := true; n_queue := n_queue n; n_running := n_running n;
                                    n_depth := n_depth n; n_setup := true; n_teardown := n_teardown n; n_started := n_started n |} (nodes s);
                  handed := handed s; indices := indices s; launched := launched s;
                  completions := completions s; setups := setups s |}
        else None
      | None => None
      end
    | HNodeTeardown, Some id =>
      match find_n id (nodes s) with
      | Some n =>
        if hk_node_teardown (sc_hooks sc) && n_alive n && negb (n_teardown n)
           && (match n_running n with [] => true | _ => false end)
           && (match n_queue n with [] => true | _ => false end) then
          Some {| created := created s; st := st s; bl := bl s; ids := ids s; next_index := next_index s;
                  holder := holder s; marker := marker s; complete := complete s; canceled := canceled s;
                  rows := rows s; pending := pending s; processed := processed s; hpc := hpc s;
                  nodes := set_n {| n_id := id; n_alive := true; n_queue := n_queue n; n_running := n_running n;
                                    n_depth := n_depth n; n_setup := n_setup n; n_teardown := true; n_started := n_started n |} (nodes s);
                  handed := handed s; indices := indices s; launched := launched s;
                  completions := completions s; setups := setups s |}
        else None
      | None => None
      end
    | _, _ => None
    end
  | EMarkComplete p =>
    match in_round s p with
    | Some r =>
      if r_summary r && negb (complete s) && negb (marker s)
         && (if hk_teardown (sc_hooks sc) then r_teardown r else true) then
        Some {| created := created s; st := st s; bl := bl s; ids := ids s; next_index := next_index s;
                holder := Some {| r_pid := r_pid r; r_alive := true; r_st := r_st r; r_bl := r_bl r;
                     r_index := r_index r; r_out := r_out r; r_round := true; r_canceled := r_canceled r;
                     r_owns := r_owns r; r_placed := r_placed r; r_seen := r_seen r; r_updated := r_updated r;
                     r_check := r_check r; r_summary := false; r_teardown := false;
                     r_setup := r_setup r; r_creator := r_creator r; r_polled := r_polled r; r_collected := r_collected r |};
                marker := marker s; complete := true; canceled := canceled s;
                rows := rows s; pending := pending s; processed := processed s; hpc := hpc s; nodes := nodes s;
                handed := handed s; indices := indices s; launched := launched s;
                completions := completions s + 1; setups := setups s |}
      else None
    | None => None
    end
  | EMarkCanceled p =>
    match acting s p with
    | Some r =>
      (* cancel-jobs asked the scheduler to cancel every batch the status lists before it sets the flag *)
      if negb (r_round r) && forallb (fun i => negb (memN i (active_ids s))) (ids s) then
        Some {| created := created s; st := st s; bl := bl s; ids := ids s; next_index := next_index s;
                holder := Some {| r_pid := r_pid r; r_alive := true; r_st := r_st r; r_bl := r_bl r;
                     r_index := r_index r; r_out := r_out r; r_round := r_round r; r_canceled := true;
                     r_owns := r_owns r; r_placed := r_placed r; r_seen := r_seen r; r_updated := r_updated r;
                     r_check := r_check r; r_summary := r_summary r; r_teardown := r_teardown r;
                     r_setup := r_setup r; r_creator := r_creator r; r_polled := r_polled r; r_collected := r_collected r |};
                marker := marker s; complete := complete s; canceled := true;
                rows := rows s; pending := pending s; processed := processed s; hpc := hpc s; nodes := nodes s;
                handed := handed s; indices := indices s; launched := launched s;
                completions := completions s; setups := setups s |}
      else None
    | None => None
    end
  | EScancel p id =>
    match acting s p with
    | Some r =>
      if memN id (ids s) then
        Some {| created := created s; st := st s; bl := bl s; ids := ids s; next_index := next_index s;
                holder := holder s; marker := marker s; complete := complete s; canceled := canceled s;
                rows := rows s; pending := pending s; processed := processed s;
                hpc := match find_h id (hpc s) with
                       | Some h => if h_active h then set_h id HCancelled (hpc s) else hpc s
                       | None => hpc s end;
                nodes := map (fun n => if N.eqb (n_id n) id
                                       then {| n_id := id; n_alive := false; n_queue := n_queue n; n_running := n_running n;
                                               n_depth := n_depth n; n_setup := n_setup n; n_teardown := n_teardown n; n_started := n_started n |}
                                       else n) (nodes s);
                handed := handed s; indices := indices s; launched := launched s;
                completions := completions s; setups := setups s |}
      else None
    | None => None
    end
  | EBatchStart id =>
    match find_h id (hpc s) with
    | Some h =>
      match h_state h, find_n id (nodes s) with
      | HPending, None =>
        let nj := N.of_nat (length (h_jobs h)) in
        let workers := match h_nproc h with Some k => k | None => sc_cpus sc end in
        Some {| created := created s; st := st s; bl := bl s; ids := ids s; next_index := next_index s;
                holder := holder s; marker := marker s; complete := complete s; canceled := canceled s;
                rows := rows s; pending := pending s; processed := processed s;
                hpc := set_h id HRunning (hpc s);
                nodes := nodes s ++ [{| n_id := id; n_alive := true; n_queue := h_jobs h; n_running := [];
                                        n_depth := N.min nj workers; n_setup := false; n_teardown := false; n_started := false |}];
                handed := handed s; indices := indices s; launched := launched s;
                completions := completions s; setups := setups s |}
      | _, _ => None
      end
    | None => None
    end
  | ELaunch id j =>
    match find_n id (nodes s) with
    | Some n =>
      match lookup j (n_queue n) with
      | Some [] =>
        if n_alive n && (N.of_nat (length (n_running n)) <? n_depth n)
           && (if hk_node_setup (sc_hooks sc) then n_setup n else true) && negb (n_teardown n)
           && negb (flag sc j && has_failed_dep sc j (rows s)) then
          Some {| created := created s; st := st s; bl := bl s; ids := ids s; next_index := next_index s;
                  holder := holder s; marker := marker s; complete := complete s; canceled := canceled s;
                  rows := rows s; pending := pending s; processed := processed s; hpc := hpc s;
                  nodes := set_n {| n_id := id; n_alive := true;
                                    n_queue := filter (fun jb => negb (N.eqb (fst jb) j)) (n_queue n);
                                    n_running := n_running n ++ [j]; n_depth := n_depth n; n_setup := n_setup n;
                                    n_teardown := n_teardown n; n_started := true |} (nodes s);
                  handed := handed s; indices := indices s; launched := launched s ++ [j];
                  completions := completions s; setups := setups s |}
        else None
      | _ => None
      end
    | None => None
    end
  | EAppend id rw =>
    match find_n id (nodes s) with
    | Some n =>
      let j := rw_job rw in
      if n_alive n && negb (memN j (row_names (rows s))) && negb (n_teardown n) then
        if rw_cancel rw then
          (* node-level cancel: a queued flagged job one of whose blockers failed or was canceled *)
          match lookup j (n_queue n) with
          | Some _ =>
            if flag sc j && Z.eqb (rw_rc rw) 1 && has_failed_dep sc j (rows s) && negb (memN j (launched s)) then
              Some {| created := created s; st := st s; bl := bl s; ids := ids s; next_index := next_index s;
                      holder := holder s; marker := marker s; complete := complete s; canceled := canceled s;
                      rows := rows s ++ [rw]; pending := pending s ++ [rw]; processed := processed s; hpc := hpc s;
                      nodes := set_n {| n_id := id; n_alive := true;
                                        n_queue := filter (fun jb => negb (N.eqb (fst jb) j)) (n_queue n);
                                        n_running := n_running n; n_depth := n_depth n; n_setup := n_setup n;
                                        n_teardown := n_teardown n; n_started := n_started n |} (nodes s);
                      handed := handed s; indices := indices s; launched := launched s;
                      completions := completions s; setups := setups s |}
            else None
          | None => None
          end
        else
          if memN j (n_running n) && Z.eqb (rw_rc rw) (jc_rc (job sc j)) then
            Some {| created := created s; st := st s; bl := bl s; ids := ids s; next_index := next_index s;
                    holder := holder s; marker := marker s; complete := complete s; canceled := canceled s;
                    rows := rows s ++ [rw]; pending := pending s ++ [rw]; processed := processed s; hpc := hpc s;
                    nodes := set_n {| n_id := id; n_alive := true; n_queue := n_queue n;
                                      n_running := filter (fun x => negb (N.eqb x j)) (n_running n);
                                      n_depth := n_depth n; n_setup := n_setup n; n_teardown := n_teardown n; n_started := n_started n |} (nodes s);
                    handed := handed s; indices := indices s; launched := launched s;
                    completions := completions s; setups := setups s |}
          else None
      else None
    | None => None
    end
  | EUnblock id j d =>
    match find_n id (nodes s) with
    | Some n =>
      match lookup j (n_queue n) with
      | Some b =>
        if n_alive n && memN d (row_names (rows s)) then
          Some {| created := created s; st := st s; bl := bl s; ids := ids s; next_index := next_index s;
                  holder := holder s; marker := marker s; complete := complete s; canceled := canceled s;
                  rows := rows s; pending := pending s; processed := processed s; hpc := hpc s;
                  nodes := set_n {| n_id := id; n_alive := true;
                                    n_queue := map (fun jb => if N.eqb (fst jb) j
                                                              then (j, filter (fun x => negb (N.eqb x d)) (snd jb))
                                                              else jb) (n_queue n);
                                    n_running := n_running n; n_depth := n_depth n; n_setup := n_setup n;
                                    n_teardown := n_teardown n; n_started := n_started n |} (nodes s);
                  handed := handed s; indices := indices s; launched := launched s;
                  completions := completions s; setups := setups s |}
        else None
      | None => None
      end
    | None => None
    end
  | EBatchEnd id =>
    match find_h id (hpc s) with
    | Some h =>
      Some {| created := created s; st := st s; bl := bl s; ids := ids s; next_index := next_index s;
              holder := holder s; marker := marker s; complete := complete s; canceled := canceled s;
              rows := rows s; pending := pending s; processed := processed s;
              hpc := match h_state h with HCancelled => hpc s | _ => set_h id HGone (hpc s) end;
              nodes := map (fun n => if N.eqb (n_id n) id
                                     then {| n_id := id; n_alive := false; n_queue := n_queue n; n_running := n_running n;
                                             n_depth := n_depth n; n_setup := n_setup n; n_teardown := n_teardown n; n_started := n_started n |}
                                     else n) (nodes s);
              handed := handed s; indices := indices s; launched := launched s;
              completions := completions s; setups := setups s |}
    | None => None
    end
  | EKill pids =>
    Some (match holder s with
          | Some r =>
            if memN (r_pid r) pids then
              with_holder s (Some {| r_pid := r_pid r; r_alive := false; r_st := r_st r; r_bl := r_bl r;
                     r_index := r_index r; r_out := r_out r; r_round := r_round r; r_canceled := r_canceled r;
                     r_owns := r_owns r; r_placed := r_placed r; r_seen := r_seen r; r_updated := r_updated r;
                     r_check := r_check r; r_summary := r_summary r; r_teardown := r_teardown r;
                     r_setup := r_setup r; r_creator := r_creator r; r_polled := r_polled r; r_collected := r_collected r |})
            else s
          | None => s
          end)
  end.

Fixpoint run_from (sc : scenario) (s : state) (tr : list event) : option state :=
  match tr with
  | [] => Some s
  | e :: t => match step sc s e with Some s' => run_from sc s' t | None => None end
  end.
Definition run (sc : scenario) (tr : list event) : option state := run_from sc init tr.

(* index of the first rejected event (for diagnostics): None = accepted *)
Fixpoint first_reject (sc : scenario) (s : state) (tr : list event) (i : N) : option N :=
  match tr with
  | [] => None
  | e :: t => match step sc s e with Some s' => first_reject sc s' t (i + 1) | None => Some i end
  end.
