(* Proofs about the Cluster model (Cluster.v): version discipline, the submitter role, the CLI
   call sites.  Statements of the property theorems are in Props/C10.v. *)
Set Warnings "-unused-intro-pattern".
From Coq Require Import List NArith Bool Arith Lia.
From Jade Require Import Base Cluster.
Import ListNotations.
Open Scope N_scope.


(* ---------- boolean equalities ---------- *)
Lemma cfg_eqb_eq a b : cfg_eqb a b = true -> a = b.
Proof.
  destruct a as [v s c x n], b as [v' s' c' x' n']; unfold cfg_eqb; simpl; intro H.
  repeat (apply andb_prop in H; destruct H as [H ?]).
  apply N.eqb_eq in H. apply Bool.eqb_prop in H1, H2. apply N.eqb_eq in H0.
  assert (s = s') by (destruct s, s'; simpl in *; try discriminate; try reflexivity; apply N.eqb_eq in H3; congruence).
  congruence.
Qed.

(* ---------- invariants ---------- *)
Definition consistent (d : disk) : Prop :=
  c_version (d_cfg d) = d_cfg_vf d /\ j_version (d_js d) = d_js_vf d.

(* a handle's copies never run ahead of the version files; the text it wrote last carries the
   version of its copy and, if that is the current version, IS the file content *)
Definition hinv0 (d : disk) (h : handle) : Prop :=
  c_version (h_cfg h) <= d_cfg_vf d /\
  (forall c, h_hash h = Some c -> c_version c = c_version (h_cfg h) /\ (c_version c = d_cfg_vf d -> c = d_cfg d)) /\
  (forall j, h_js h = Some j -> j_version j <= d_js_vf d).

(* a copy with the current version has the current submitter field *)
Definition sub_agree (d : disk) (h : handle) : Prop :=
  c_version (h_cfg h) = d_cfg_vf d -> c_submitter (h_cfg h) = c_submitter (d_cfg d).

Definition hinv (d : disk) (h : handle) : Prop := hinv0 d h /\ sub_agree d h.

(* how one action may change the files: each pair (object, version file) is either untouched or
   replaced by an object carrying the next version *)
Definition cfg_same (d d' : disk) : Prop := d_cfg d' = d_cfg d /\ d_cfg_vf d' = d_cfg_vf d.
Definition js_same (d d' : disk) : Prop := d_js d' = d_js d /\ d_js_vf d' = d_js_vf d.
Definition cfg_next (d d' : disk) : Prop := d_cfg_vf d' = d_cfg_vf d + 1 /\ c_version (d_cfg d') = d_cfg_vf d'.
Definition js_next (d d' : disk) : Prop := d_js_vf d' = d_js_vf d + 1 /\ j_version (d_js d') = d_js_vf d'.
Definition dstep_ok (d d' : disk) : Prop := (cfg_same d d' \/ cfg_next d d') /\ (js_same d d' \/ js_next d d').

Lemma dstep_ok_refl d : dstep_ok d d.
Proof. unfold dstep_ok, cfg_same, js_same; auto. Qed.

(* frame: handles that did not act keep their invariant *)
Lemma hinv_frame d d' h : consistent d -> hinv d h -> dstep_ok d d' -> hinv d' h.
Proof.
  intros [Hc Hj] [[Hv [Hh Hjs]] Hs] [Hcfg Hjs'].
  unfold hinv, hinv0, sub_agree, cfg_same, cfg_next, js_same, js_next in *.
  destruct Hcfg as [[E1 E2]|[E1 E2]], Hjs' as [[F1 F2]|[F1 F2]]; rewrite ?E1, ?E2, ?F1, ?F2;
    (split; [split; [lia|split]|]);
    try (intros c Hc'; destruct (Hh c Hc') as [A B]; split; [exact A|intro; try (apply B; assumption); exfalso; lia]);
    try (intros j Hj'; specialize (Hjs j Hj'); lia);
    try (intro; try (apply Hs; assumption); exfalso; lia).
Qed.

Lemma N_opt_eqb_eq (a b : option N) : option_eqb N.eqb a b = true -> a = b.
Proof. destruct a, b; simpl; intro H; try discriminate; auto. apply N.eqb_eq in H. congruence. Qed.

Lemma am_i_submitter_eq h : am_i_submitter h = true -> c_submitter (h_cfg h) = Some (h_host h).
Proof. apply N_opt_eqb_eq. Qed.

Lemma hinv_hinv0 d h : hinv d h -> hinv0 d h.
Proof. intros [H _]; exact H. Qed.

(* memory-only change of the config copy that keeps its version *)
Lemma hinv0_mut d h c : hinv0 d h -> c_version c = c_version (h_cfg h) -> hinv0 d (h_with_cfg h c).
Proof.
  intros [Hv [Hh Hj]] E. unfold hinv0, h_with_cfg; simpl. rewrite E. auto.
Qed.

Lemma ser_cfg_spec d h r d' h' : consistent d -> hinv0 d h -> ser_cfg d h = (r, d', h') ->
  (r = RCfgMismatch /\ d' = d /\ h' = h /\ c_version (h_cfg h) <> d_cfg_vf d /\ hinv d h)
  \/ (r = ROk /\ c_version (h_cfg h) = d_cfg_vf d /\ consistent d' /\ hinv d' h' /\ js_same d d' /\
      (cfg_same d d' \/ cfg_next d d') /\ d_cfg d' = h_cfg h' /\
      c_submitter (h_cfg h') = c_submitter (h_cfg h) /\
      h_host h' = h_host h /\ h_js h' = h_js h /\ h_promoted h' = h_promoted h).
Proof.
  intros [Hc Hj] [Hv [Hh Hjs]] H. unfold ser_cfg, chk_cfg, and_then in H.
  destruct (c_version (h_cfg h) =? d_cfg_vf d) eqn:E; simpl in H.
  - apply N.eqb_eq in E. right. unfold write_cfg in H.
    destruct (option_eqb cfg_eqb (Some (h_cfg h)) (h_hash h)) eqn:Q.
    + injection H as Hr Hd Hh'; subst r d' h'.
      destruct (h_hash h) as [c|] eqn:Hq; simpl in Q; [|discriminate].
      apply cfg_eqb_eq in Q. destruct (Hh c eq_refl) as [A B].
      assert (c = d_cfg d) by (apply B; congruence).
      repeat split; auto; try (left; split; reflexivity); try congruence.
      all: try (intros c0 Hc0; rewrite Hq in Hc0; inversion Hc0; subst c0; split; [congruence|auto]).
      all: try (intro; congruence).
    + injection H as Hr Hd Hh'; subst r d' h'. simpl.
      repeat split; simpl; auto; try lia.
      all: try (intros c Hc'; inversion Hc'; subst; simpl; auto).
      all: try (right; split; simpl; lia).
      all: try (simpl in H; inversion H; subst; simpl; auto; lia).
  - apply N.eqb_neq in E. left. injection H as Hr Hd Hh'; subst r d' h'.
    do 4 (split; [solve [reflexivity|assumption]|]).
    split; [split; [assumption|split; assumption] | intro; contradiction].
Qed.

Lemma ser_js_spec d h r d' h' : consistent d -> hinv d h -> ser_js d h = (r, d', h') ->
  (d' = d /\ h' = h /\ ((r = RAttrError /\ h_js h = None) \/
                         (r = RJsMismatch /\ exists j, h_js h = Some j /\ j_version j <> d_js_vf d)))
  \/ (r = ROk /\ (exists j, h_js h = Some j /\ j_version j = d_js_vf d) /\ consistent d' /\ hinv d' h' /\
      cfg_same d d' /\ js_next d d' /\ h_js h' = Some (d_js d') /\ h_cfg h' = h_cfg h /\
      h_host h' = h_host h /\ h_promoted h' = h_promoted h /\ h_hash h' = h_hash h).
Proof.
  intros [Hc Hj] [[Hv [Hh Hjs]] Hs] H. unfold ser_js, chk_js, and_then in H.
  destruct (h_js h) as [j|] eqn:Ej.
  - destruct (j_version j =? d_js_vf d) eqn:E; simpl in H.
    + apply N.eqb_eq in E. right. unfold write_js in H. rewrite Ej in H. injection H as Hr Hd Hh'; subst r d' h'.
      unfold hinv, hinv0, sub_agree, consistent, cfg_same, js_next; simpl.
      repeat split; auto; try lia; try (exists j; auto).
      all: try (apply (Hh c H)).
      all: try (intros j0 X; inversion X; subst; simpl; lia).
    + apply N.eqb_neq in E. left. injection H as Hr Hd Hh'; subst r d' h'. repeat split; auto. right. split; auto. exists j; auto.
  - left. injection H as Hr Hd Hh'; subst r d' h'. repeat split; auto.
Qed.
Definition prom_trans (o : hop) (r : result) (p : bool) : bool :=
  match o, r with HPromote, RBool true => true | HDemote, ROk => false | _, _ => p end.
Definition sub_trans (o : hop) (host : N) (r : result) (s s' : option N) : Prop :=
  match o, r with
  | HPromote, RBool true => s = None /\ s' = Some host
  | HDemote, ROk => s = Some host /\ s' = None
  | _, _ => s' = s
  end.

(* everything the proofs need to know about one action of one handle *)
Definition apost (o : hop) (d : disk) (h : handle) (r : result) (d' : disk) (h' : handle) : Prop :=
  consistent d' /\ dstep_ok d d' /\ hinv d' h' /\ h_host h' = h_host h /\
  (cfg_same d d' \/ (c_version (h_cfg h) = d_cfg_vf d /\ d_cfg d' = h_cfg h')) /\
  (js_same d d' \/ (exists j, h_js h = Some j /\ j_version j = d_js_vf d /\ h_js h' = Some (d_js d'))) /\
  sub_trans o (h_host h) r (c_submitter (d_cfg d)) (c_submitter (d_cfg d')) /\
  h_promoted h' = prom_trans o r (h_promoted h) /\
  (is_exn r = true -> d' = d).

Ltac splits := repeat match goal with |- _ /\ _ => split end.

Lemma cfg_same_refl d : cfg_same d d. Proof. split; reflexivity. Qed.
Lemma js_same_refl d : js_same d d. Proof. split; reflexivity. Qed.
#[local] Hint Resolve cfg_same_refl js_same_refl dstep_ok_refl : core.

(* an action that fails (or does nothing) before touching anything *)
Lemma apost_nop o d h r h' : consistent d -> hinv d h' -> h_host h' = h_host h ->
  h_promoted h' = h_promoted h ->
  ~ (o = HPromote /\ r = RBool true) -> ~ (o = HDemote /\ r = ROk) ->
  apost o d h r d h'.
Proof.
  intros Hc Hi Hh Hp N1 N2. unfold apost. repeat split; auto; try apply Hc; try apply Hi.
  all: destruct o; simpl; auto; destruct r; simpl; auto; try (destruct b; auto); exfalso;
      solve [apply N1; auto | apply N2; auto].
Qed.

Lemma mut_ser_cfg d h c r d' h' : consistent d -> hinv d h ->
  c_version c = c_version (h_cfg h) -> c_submitter c = c_submitter (h_cfg h) ->
  ser_cfg d (h_with_cfg h c) = (r, d', h') ->
  consistent d' /\ dstep_ok d d' /\ hinv d' h' /\ h_host h' = h_host h /\
  (cfg_same d d' \/ (c_version (h_cfg h) = d_cfg_vf d /\ d_cfg d' = h_cfg h')) /\
  js_same d d' /\ c_submitter (d_cfg d') = c_submitter (d_cfg d) /\
  h_promoted h' = h_promoted h /\ h_js h' = h_js h /\ (is_exn r = true -> d' = d) /\
  ((r = ROk /\ c_version (h_cfg h) = d_cfg_vf d) \/ (r = RCfgMismatch /\ c_version (h_cfg h) <> d_cfg_vf d)).
Proof.
  intros Hc [Hi0 Hs] Ev Es H.
  destruct (ser_cfg_spec _ _ _ _ _ Hc (hinv0_mut _ _ _ Hi0 Ev) H)
    as [[-> [-> [-> [Hne Hi]]]] | [-> [Hv [Hc' [Hi' [Hjs [Hcfg [Hd [Hsub [Hh [Hj Hp]]]]]]]]]]]; simpl in *.
  - splits; auto.
    right. split; congruence.
  - splits; auto.
    + destruct Hjs as [A B]. split; [exact Hcfg | left; split; assumption].
    + destruct Hcfg as [Hcfg|Hcfg]; [left; exact Hcfg|right; split; congruence].
    + rewrite Hd, Hsub, Es. apply Hs. congruence.
    + intro; discriminate.
    + left. split; congruence.
Qed.

Lemma hinv_promoted d h b : hinv d h -> hinv d (h_with_promoted h b).
Proof. intros [[A [B C]] D]. split; [split; [|split]|]; simpl; auto. Qed.

Lemma hinv_js_mut d h j : hinv d h -> j_version j <= d_js_vf d -> hinv d (h_with_js h (Some j)).
Proof.
  intros [[A [B C]] D] E. split; [split; [|split]|]; simpl; auto.
  intros j0 X. inversion X; subst. exact E.
Qed.

Lemma hinv_cfg_mut d h c : hinv d h -> c_version c = c_version (h_cfg h) ->
  c_submitter c = c_submitter (h_cfg h) -> hinv d (h_with_cfg h c).
Proof.
  intros [A D] E F. split; [apply hinv0_mut; auto|]. unfold sub_agree in *; simpl. rewrite E, F. exact D.
Qed.

Lemma h_with_cfg_id h : h_with_cfg h (h_cfg h) = h.
Proof. destruct h; reflexivity. Qed.

Lemma set_sub_ser d h s r d' h' : consistent d -> hinv d h ->
  ser_cfg d (h_with_cfg h (cfg_with_submitter (h_cfg h) s)) = (r, d', h') ->
  (r = RCfgMismatch /\ d' = d /\ hinv d h' /\ h_host h' = h_host h /\ h_promoted h' = h_promoted h)
  \/ (r = ROk /\ c_version (h_cfg h) = d_cfg_vf d /\ consistent d' /\ hinv d' h' /\ js_same d d' /\
      (cfg_same d d' \/ cfg_next d d') /\ d_cfg d' = h_cfg h' /\ c_submitter (d_cfg d') = s /\
      c_submitter (d_cfg d) = c_submitter (h_cfg h) /\ h_host h' = h_host h /\
      h_promoted h' = h_promoted h).
Proof.
  intros Hc [Hi0 Hs] H.
  destruct (ser_cfg_spec _ _ _ _ _ Hc (hinv0_mut _ _ (cfg_with_submitter (h_cfg h) s) Hi0 eq_refl) H)
    as [[-> [-> [-> [Hne Hi]]]] | [-> [Hv [Hc' [Hi' [Hjs [Hcfg [Hd [Hsub [Hh [Hj Hp]]]]]]]]]]]; simpl in *.
  - left. splits; auto.
  - right. splits; auto.
    + rewrite Hd, Hsub. reflexivity.
    + symmetry. apply Hs. exact Hv.
Qed.

(* mutate both copies in memory, compare both versions, then write both (update_job_status,
   prepare_for_resubmission) *)
Definition write_both (d : disk) (h1 : handle) :=
  and_then (chk_cfg d h1) (fun d h => and_then (chk_js d h) (fun d h => and_then (ser_cfg d h) ser_js)).

Lemma write_both_post d h j j1 c1 r d' h' : consistent d -> hinv d h -> h_js h = Some j ->
  j_version j1 = j_version j -> c_version c1 = c_version (h_cfg h) -> c_submitter c1 = c_submitter (h_cfg h) ->
  write_both d (h_with_cfg (h_with_js h (Some j1)) c1) = (r, d', h') ->
  consistent d' /\ dstep_ok d d' /\ hinv d' h' /\ h_host h' = h_host h /\
  (cfg_same d d' \/ (c_version (h_cfg h) = d_cfg_vf d /\ d_cfg d' = h_cfg h')) /\
  (js_same d d' \/ (exists j, h_js h = Some j /\ j_version j = d_js_vf d /\ h_js h' = Some (d_js d'))) /\
  c_submitter (d_cfg d') = c_submitter (d_cfg d) /\ h_promoted h' = h_promoted h /\
  (is_exn r = true -> d' = d) /\
  (r = ROk \/ (r = RCfgMismatch /\ c_version (h_cfg h) <> d_cfg_vf d) \/ (r = RJsMismatch /\ j_version j <> d_js_vf d)).
Proof.
  intros Hc Hi Ej Ejv Ecv Ecs H. unfold write_both in H.
  assert (Hj1 : j_version j1 <= d_js_vf d) by (rewrite Ejv; destruct Hi as [[_ [_ X]] _]; apply X; exact Ej).
  assert (Hi0 : hinv d (h_with_js h (Some j1))) by (apply hinv_js_mut; auto).
  assert (Hi1 : hinv d (h_with_cfg (h_with_js h (Some j1)) c1)) by (apply hinv_cfg_mut; auto).
  assert (Nop : forall rr, is_exn rr = true -> rr = RCfgMismatch \/ rr = RJsMismatch ->
                (rr = RCfgMismatch -> c_version (h_cfg h) <> d_cfg_vf d) -> (rr = RJsMismatch -> j_version j <> d_js_vf d) ->
                (rr, d, h_with_cfg (h_with_js h (Some j1)) c1) = (r, d', h') ->
                consistent d' /\ dstep_ok d d' /\ hinv d' h' /\ h_host h' = h_host h /\
                (cfg_same d d' \/ (c_version (h_cfg h) = d_cfg_vf d /\ d_cfg d' = h_cfg h')) /\
                (js_same d d' \/ (exists j, h_js h = Some j /\ j_version j = d_js_vf d /\ h_js h' = Some (d_js d'))) /\
                c_submitter (d_cfg d') = c_submitter (d_cfg d) /\ h_promoted h' = h_promoted h /\
                (is_exn r = true -> d' = d) /\
                (r = ROk \/ (r = RCfgMismatch /\ c_version (h_cfg h) <> d_cfg_vf d) \/ (r = RJsMismatch /\ j_version j <> d_js_vf d))).
  { intros rr Hex Hrr N1 N2 X. injection X as <- <- <-. splits; auto.
    destruct Hrr as [->| ->]; [right; left; auto|right; right; auto]. }
  unfold and_then at 1 in H. unfold chk_cfg in H. simpl in H. rewrite Ecv in H.
  destruct (c_version (h_cfg h) =? d_cfg_vf d) eqn:Ev; simpl in H.
  2:{ apply N.eqb_neq in Ev. apply (Nop RCfgMismatch); auto; discriminate. }
  unfold and_then at 1 in H. unfold chk_js in H. simpl in H. rewrite Ejv in H.
  destruct (j_version j =? d_js_vf d) eqn:Evj; simpl in H.
  2:{ apply N.eqb_neq in Evj. apply (Nop RJsMismatch); auto; discriminate. }
  apply N.eqb_eq in Ev, Evj.
  destruct (ser_cfg d (h_with_cfg (h_with_js h (Some j1)) c1)) as [[r1 d1] h1] eqn:E1.
  apply mut_ser_cfg in E1; auto.
  destruct E1 as [A [B [C [D [E [F [G [I [J [K L]]]]]]]]]]. simpl in *.
  destruct L as [[-> _] | [_ X]]; [|contradiction].
  unfold and_then in H.
  destruct (ser_js_spec _ _ _ _ _ A C H) as [[-> [-> X]] | [-> [[j2 [Ej2 Ev2]] [Hc' [Hi' [Hcfg [Hjs [Hj' [Hcf [Hh [Hp Hq]]]]]]]]]]].
  + exfalso. rewrite J in X. destruct X as [[_ X]|[_ [j2 [X Y]]]]; [discriminate|].
    inversion X; subst j2. apply Y. destruct F as [_ F]. rewrite F. congruence.
  + splits; auto.
    all: try solve [destruct Hcfg as [Q1 Q2]; destruct F as [F1 F2]; destruct B as [B _]; destruct Hjs as [S1 S2]; split;
                    [destruct B as [[B1 B2]|[B1 B2]]; [left; split; congruence|right; split; congruence] | right; split; congruence]].
    all: try solve [congruence].
    all: try solve [destruct Hcfg as [Q1 Q2]; destruct E as [[E1 E2]|[E1 E2]]; [left; split; congruence|right; split; congruence]].
    all: try solve [right; exists j; splits; auto].
    all: try solve [simpl; destruct Hcfg as [Q1 Q2]; rewrite Q1; exact G].
    all: try solve [simpl; congruence].
    all: try solve [intro; discriminate].
Qed.


Lemma act_post o d h r d' h' : consistent d -> hinv d h -> act o d h = (r, d', h') -> apost o d h r d' h'.
Proof.
  intros Hc Hi H. destruct o; simpl in H.
  - (* HPromote *)
    unfold promote in H. destruct (has_submitter h) eqn:Hs.
    + injection H as <- <- <-. apply apost_nop; auto; intros [_ X]; discriminate.
    + destruct (ser_cfg d (h_with_cfg h (cfg_with_submitter (h_cfg h) (Some (h_host h))))) as [[r1 d1] h1] eqn:E.
      destruct (set_sub_ser _ _ _ _ _ _ Hc Hi E)
        as [[-> [-> [Hi1 [Hh Hp]]]] | [-> [Hv [Hc' [Hi' [Hjs [Hcfg [Hd [Hsub [Hds [Hh Hp]]]]]]]]]]].
      * injection H as <- <- <-. apply apost_nop; auto; intros [_ X]; discriminate.
      * injection H as <- <- <-. unfold apost. splits; simpl; auto.
      all: try solve [split; [exact Hcfg | left; exact Hjs]].
      all: try solve [apply hinv_promoted; exact Hi'].
      all: try solve [right; split; [exact Hv | exact Hd]].
      all: try solve [left; exact Hjs].
      all: try solve [split; [rewrite Hds; unfold has_submitter in Hs; destruct (c_submitter (h_cfg h)); [discriminate|reflexivity] | exact Hsub]].
      all: try solve [intro; discriminate].
  - (* HDemote *)
    destruct (am_i_submitter h) eqn:Ha.
    + destruct (ser_cfg d (h_with_cfg h (cfg_with_submitter (h_cfg h) None))) as [[r1 d1] h1] eqn:E.
      destruct (set_sub_ser _ _ _ _ _ _ Hc Hi E)
        as [[-> [-> [Hi1 [Hh Hp]]]] | [-> [Hv [Hc' [Hi' [Hjs [Hcfg [Hd [Hsub [Hds [Hh Hp]]]]]]]]]]].
      * injection H as <- <- <-. apply apost_nop; auto; intros [_ X]; discriminate.
      * injection H as <- <- <-. unfold apost. splits; simpl; auto.
      all: try solve [split; [exact Hcfg | left; exact Hjs]].
      all: try solve [apply hinv_promoted; exact Hi'].
      all: try solve [right; split; [exact Hv | exact Hd]].
      all: try solve [left; exact Hjs].
      all: try solve [split; [rewrite Hds; apply am_i_submitter_eq; exact Ha | exact Hsub]].
      all: try solve [intro; discriminate].
    + injection H as <- <- <-. apply apost_nop; auto; intros [_ X]; discriminate.
  - (* HMarkComplete *)
    destruct (c_complete (h_cfg h)).
    + injection H as <- <- <-. apply apost_nop; auto; intros [X _]; discriminate.
    + apply mut_ser_cfg in H; auto.
      destruct H as [A [B [C [D [E [F [G [I [J [K L]]]]]]]]]]. unfold apost. splits; auto; try solve [left; exact F]; try solve [simpl; congruence].
  - (* HMarkCanceled *)
    apply mut_ser_cfg in H; auto.
    destruct H as [A [B [C [D [E [F [G [I [J [K L]]]]]]]]]]. unfold apost. splits; auto; try solve [left; exact F]; try solve [simpl; congruence].
  - (* HSerialize *)
    rewrite <- (h_with_cfg_id h) in H at 1. apply mut_ser_cfg in H; auto.
    destruct H as [A [B [C [D [E [F [G [I [J [K L]]]]]]]]]]. unfold apost. splits; auto; try solve [left; exact F]; try solve [simpl; congruence].
  - (* HSerializeJobs *)
    destruct (ser_js_spec _ _ _ _ _ Hc Hi H) as [[-> [-> X]] | [-> [[j [Ej Ev]] [Hc' [Hi' [Hcfg [Hjs [Hj' [Hcf [Hh [Hp Hq]]]]]]]]]]].
    + apply apost_nop; auto; intros [Y _]; discriminate.
    + unfold apost. splits; simpl; auto.
    all: try solve [split; [left; exact Hcfg | right; exact Hjs]].
    all: try solve [left; exact Hcfg].
    all: try solve [right; exists j; auto].
    all: try solve [destruct Hcfg as [Q _]; rewrite Q; reflexivity].
    all: try solve [intro; discriminate].
  - (* HUpdate *)
    destruct (h_js h) as [j|] eqn:Ej.
    2:{ injection H as <- <- <-. apply apost_nop; auto; intros [X _]; discriminate. }
    change (write_both d (h_with_cfg (h_with_js h (Some (mkJs (j_version j) b ids)))
                                     (cfg_with_submitted (h_cfg h) (c_submitted (h_cfg h) + k))) = (r, d', h')) in H.
    apply (write_both_post _ _ j) in H; auto.
    destruct H as [A [B [C [D [E [F [G [I [J _]]]]]]]]]. unfold apost. splits; auto.
  - (* HCompleteHpc *)
    destruct (h_js h) as [j|] eqn:Ej.
    2:{ injection H as <- <- <-. apply apost_nop; auto; intros [X _]; discriminate. }
    destruct (remove_first id (j_ids j)) as [ids'|].
    2:{ injection H as <- <- <-. apply apost_nop; auto; intros [X _]; discriminate. }
    assert (Hj1 : j_version j <= d_js_vf d) by (destruct Hi as [[_ [_ X]] _]; apply X; exact Ej).
    assert (Hi0 : hinv d (h_with_js h (Some (mkJs (j_version j) (j_batch j) ids')))) by (apply hinv_js_mut; auto).
    destruct (ser_js_spec _ _ _ _ _ Hc Hi0 H) as [[-> [-> X]] | [-> [[j2 [Ej2 Ev2]] [Hc' [Hi' [Hcfg [Hjs [Hj' [Hcf [Hh [Hp Hq]]]]]]]]]]].
    + apply apost_nop; auto; intros [Y _]; discriminate.
    + simpl in *. inversion Ej2; subst j2. simpl in Ev2. unfold apost. splits; simpl; auto.
    all: try solve [split; [left; exact Hcfg | right; exact Hjs]].
    all: try solve [left; exact Hcfg].
    all: try solve [right; exists j; auto].
    all: try solve [destruct Hcfg as [Q _]; rewrite Q; reflexivity].
    all: try solve [intro; discriminate].
  - (* HReloadJobs *)
    injection H as <- <- <-. apply apost_nop; auto; try (intros [X _]; discriminate).
    apply hinv_js_mut; auto. destruct Hc as [_ X]. rewrite X. apply N.le_refl.
  - (* HPrepare *)
    destruct (c_complete (h_cfg h)).
    2:{ injection H as <- <- <-. apply apost_nop; auto; intros [X _]; discriminate. }
    destruct (h_js h) as [j|] eqn:Ej.
    2:{ injection H as <- <- <-. apply apost_nop; auto; try (intros [X _]; discriminate); try (apply hinv_cfg_mut; auto). }
    assert (Hw : h_with_js h (Some j) = h) by (destruct h; simpl in *; subst; reflexivity).
    rewrite <- Hw in H at 1.
    change (write_both d (h_with_cfg (h_with_js h (Some j))
              (cfg_with_submitted (cfg_with_canceled (cfg_with_complete (h_cfg h) false) false) v)) = (r, d', h')) in H.
    apply (write_both_post _ _ j) in H; auto.
    destruct H as [A [B [C [D [E [F [G [I [J _]]]]]]]]]. unfold apost. splits; auto.
Qed.

(* ---------- lists of handles ---------- *)
Lemma upd_length {A} (l : list A) i x : length (upd l i x) = length l.
Proof. revert i; induction l; intros [|i]; simpl; auto. Qed.

Lemma nth_error_upd_eq {A} (l : list A) i x y : nth_error l i = Some y -> nth_error (upd l i x) i = Some x.
Proof. revert i; induction l; intros [|i]; simpl; intros; try discriminate; auto. Qed.

Lemma nth_error_upd_neq {A} (l : list A) i k x : i <> k -> nth_error (upd l i x) k = nth_error l k.
Proof.
  revert i k; induction l; intros [|i] [|k]; simpl; intros; auto; try congruence.
Qed.

Lemma Forall_upd {A} (P : A -> Prop) l i x : Forall P l -> P x -> Forall P (upd l i x).
Proof.
  revert i; induction l; intros [|i] Hl Hx; simpl; auto; inversion Hl; subst; constructor; auto.
Qed.

Lemma Forall_nth {A} (P : A -> Prop) l i x : Forall P l -> nth_error l i = Some x -> P x.
Proof. intros Hl Hn. rewrite Forall_forall in Hl. apply Hl. eapply nth_error_In; eauto. Qed.

Lemma nth_error_snoc {A} (l : list A) x k y : nth_error (l ++ [x]) k = Some y ->
  (k < length l /\ nth_error l k = Some y)%nat \/ (k = length l /\ y = x).
Proof.
  intro H. destruct (Nat.lt_ge_cases k (length l)) as [L|L].
  - left. split; auto. rewrite nth_error_app1 in H; auto.
  - right. rewrite nth_error_app2 in H; auto.
    destruct (k - length l)%nat eqn:E; simpl in H.
    + inversion H; subst. split; auto. apply Nat.le_antisymm; auto. apply Nat.sub_0_le; auto.
    + destruct n; discriminate.
Qed.

(* ---------- the state invariant ---------- *)
Definition sinv (s : state) : Prop := consistent (s_disk s) /\ Forall (hinv (s_disk s)) (s_handles s).

Definition fresh_handle (host : N) (d : disk) : handle := mkH host (d_cfg d) None None false.

Lemma fresh_hinv host d : consistent d -> hinv d (fresh_handle host d).
Proof.
  intros [Hc Hj]. split; [split; [|split]|]; simpl.
  - rewrite Hc. apply N.le_refl.
  - intros c X; discriminate.
  - intros j X; discriminate.
  - intro; reflexivity.
Qed.

(* what Cluster._deserialize does with the fresh handle before the jobs are read *)
Definition load_act (p : bool) (d : disk) (h0 : handle) : result * disk * handle :=
  if p then promote d h0 else (RBool false, d, h0).

Lemma load_act_post p d h0 r d1 h1 : consistent d -> hinv d h0 -> load_act p d h0 = (r, d1, h1) ->
  apost HPromote d h0 r d1 h1.
Proof.
  intros Hc Hi H. destruct p; simpl in H.
  - apply (act_post HPromote); auto.
  - injection H as <- <- <-. apply apost_nop; auto; intros [_ X]; discriminate.
Qed.

Lemma Forall_frame d d' l : consistent d -> dstep_ok d d' -> Forall (hinv d) l -> Forall (hinv d') l.
Proof.
  intros Hc Hd Hl. rewrite Forall_forall in *. intros h Hin. eapply hinv_frame; eauto.
Qed.

Lemma step_load_eq s host p j :
  step s (Load host p j) =
  if s_wedged s then (RBlocked, s)
  else let '(r, d1, h1) := load_act p (s_disk s) (fresh_handle host (s_disk s)) in
       if is_exn r then (r, mkS d1 true (s_handles s))
       else let h2 := if j then h_with_js h1 (Some (d_js d1)) else h1 in
            (RLoaded (length (s_handles s)) (h_promoted h2), mkS d1 false (s_handles s ++ [h2])).
Proof. reflexivity. Qed.

Lemma step_sinv s o : sinv s -> sinv (snd (step s o)).
Proof.
  intros [Hc Hl]. destruct o as [host p j | i o |].
  - rewrite step_load_eq. destruct (s_wedged s); [split; auto|].
    destruct (load_act p (s_disk s) (fresh_handle host (s_disk s))) as [[r d1] h1] eqn:E.
    pose proof (load_act_post _ _ _ _ _ _ Hc (fresh_hinv host _ Hc) E) as [A [B [C _]]].
    destruct (is_exn r); simpl.
    + split; auto. simpl. apply (Forall_frame (s_disk s)); auto.
    + split; auto. simpl. apply Forall_app. split; [apply (Forall_frame (s_disk s)); auto|].
      constructor; [|constructor]. destruct j; auto.
      apply hinv_js_mut; auto. destruct A as [_ X]. rewrite X. apply N.le_refl.
  - simpl. destruct (nth_error (s_handles s) i) as [h|] eqn:En; [|split; auto].
    destruct (locked o && s_wedged s); [split; auto|].
    destruct (act o (s_disk s) h) as [[r d'] h'] eqn:E. simpl.
    pose proof (act_post _ _ _ _ _ _ Hc (Forall_nth _ _ _ _ Hl En) E) as [A [B [C _]]].
    split; auto. simpl. apply Forall_upd; auto. apply (Forall_frame (s_disk s)); auto.
  - simpl. split; auto.
Qed.

Lemma run_sinv ops : forall s, sinv s -> sinv (run s ops).
Proof. induction ops; simpl; intros; auto. apply IHops. apply step_sinv; auto. Qed.

Lemma create_sinv host : sinv (create host).
Proof.
  unfold create, sinv; simpl. split; [split; reflexivity|].
  constructor; [|constructor]. split; [split; [|split]|]; simpl.
  - apply N.le_refl.
  - intros c X; inversion X; subst; simpl; auto.
  - intros j X; inversion X; subst; simpl. apply N.le_refl.
  - intro; reflexivity.
Qed.

(* ---------- the submitter role ---------- *)
Definition role_inv (s : state) : Prop :=
  let sub := c_submitter (d_cfg (s_disk s)) in
  (forall i h, nth_error (s_handles s) i = Some h -> h_promoted h = true -> sub = Some (h_host h)) /\
  (forall i j hi hj, nth_error (s_handles s) i = Some hi -> nth_error (s_handles s) j = Some hj ->
                     h_promoted hi = true -> h_promoted hj = true -> i = j) /\
  (forall x, sub = Some x -> exists i h, nth_error (s_handles s) i = Some h /\ h_promoted h = true /\ h_host h = x).

Lemma trans_cases o r : (o = HPromote /\ r = RBool true) \/ (o = HDemote /\ r = ROk) \/
  (forall host s s' p, (sub_trans o host r s s' -> s' = s) /\ prom_trans o r p = p).
Proof.
  destruct o; try (right; right; intros; split; [intro X; exact X|reflexivity]).
  - destruct r; try (right; right; intros; split; [intro X; exact X|reflexivity]).
    destruct b; [left; auto|right; right; intros; split; [intro X; exact X|reflexivity]].
  - destruct r; try (right; right; intros; split; [intro X; exact X|reflexivity]).
    right; left; auto.
Qed.

Lemma nth_upd_cases {A} (l : list A) i k x y z : nth_error l i = Some z -> nth_error (upd l i x) k = Some y ->
  (k = i /\ y = x) \/ (k <> i /\ nth_error l k = Some y).
Proof.
  intros Hi Hk. destruct (Nat.eq_dec k i) as [->|N].
  - left. rewrite (nth_error_upd_eq _ _ _ _ Hi) in Hk. inversion Hk; auto.
  - right. rewrite nth_error_upd_neq in Hk; auto.
Qed.

Lemma role_step_do d w l d' w' i h h' o r :
  role_inv (mkS d w l) -> nth_error l i = Some h -> h_host h' = h_host h ->
  sub_trans o (h_host h) r (c_submitter (d_cfg d)) (c_submitter (d_cfg d')) ->
  h_promoted h' = prom_trans o r (h_promoted h) ->
  (o = HDemote -> h_promoted h = true) ->
  role_inv (mkS d' w' (upd l i h')).
Proof.
  unfold role_inv; simpl. intros [H1 [H2 H3]] Hn Hh Hs Hp Hg.
  destruct (trans_cases o r) as [[-> ->] | [[-> ->] | Hother]]; simpl in Hs, Hp.
  - (* successful promotion *)
    destruct Hs as [Hs Hs'].
    assert (Hnone : forall k hk, nth_error l k = Some hk -> h_promoted hk = true -> False).
    { intros k hk A B. specialize (H1 k hk A B). congruence. }
    split; [|split].
    + intros k hk A B. destruct (nth_upd_cases _ _ _ _ _ _ Hn A) as [[-> ->]|[N A']].
      * congruence.
      * exfalso; eauto.
    + intros k1 k2 a b A1 A2 B1 B2.
      destruct (nth_upd_cases _ _ _ _ _ _ Hn A1) as [[-> ->]|[N1 A1']]; [|exfalso; eauto].
      destruct (nth_upd_cases _ _ _ _ _ _ Hn A2) as [[-> ->]|[N2 A2']]; [reflexivity|exfalso; eauto].
    + intros x X. exists i, h'. split; [eapply nth_error_upd_eq; eauto|]. split; [auto|congruence].
  - (* successful demotion *)
    destruct Hs as [Hs Hs']. specialize (Hg eq_refl).
    assert (Hnone : forall k hk, nth_error (upd l i h') k = Some hk -> h_promoted hk = true -> False).
    { intros k hk A B. destruct (nth_upd_cases _ _ _ _ _ _ Hn A) as [[-> ->]|[N A']].
      - congruence.
      - apply N. eapply H2; eauto. }
    split; [|split].
    + intros k hk A B. exfalso; eauto.
    + intros k1 k2 a b A1 A2 B1 B2. exfalso; eauto.
    + intros x X. congruence.
  - (* anything else: role and disk field untouched *)
    destruct (Hother (h_host h) (c_submitter (d_cfg d)) (c_submitter (d_cfg d')) (h_promoted h)) as [Q1 Q2].
    specialize (Q1 Hs). rewrite Q2 in Hp. rewrite Q1.
    assert (Hold : forall k hk, nth_error (upd l i h') k = Some hk -> h_promoted hk = true ->
                   exists hk', nth_error l k = Some hk' /\ h_promoted hk' = true /\ h_host hk' = h_host hk).
    { intros k hk A B. destruct (nth_upd_cases _ _ _ _ _ _ Hn A) as [[-> ->]|[N A']].
      - exists h. repeat split; auto; congruence.
      - exists hk. auto. }
    split; [|split].
    + intros k hk A B. destruct (Hold k hk A B) as [hk' [X [Y Z]]]. rewrite <- Z. eauto.
    + intros k1 k2 a b A1 A2 B1 B2.
      destruct (Hold k1 a A1 B1) as [a' [X1 [Y1 _]]]. destruct (Hold k2 b A2 B2) as [b' [X2 [Y2 _]]]. eauto.
    + intros x X. destruct (H3 x X) as [k [hk [A [B C]]]].
      destruct (Nat.eq_dec k i) as [->|N].
      * exists i, h'. split; [eapply nth_error_upd_eq; eauto|]. split; congruence.
      * exists k, hk. split; [rewrite nth_error_upd_neq; auto|]. auto.
Qed.

Lemma role_append d w l h0 : role_inv (mkS d w l) -> h_promoted h0 = false -> role_inv (mkS d w (l ++ [h0])).
Proof.
  unfold role_inv; simpl. intros [H1 [H2 H3]] Hp.
  assert (Hold : forall k hk, nth_error (l ++ [h0]) k = Some hk -> h_promoted hk = true -> nth_error l k = Some hk).
  { intros k hk A B. destruct (nth_error_snoc _ _ _ _ A) as [[_ X]|[_ ->]]; [auto|congruence]. }
  split; [|split].
  - intros k hk A B. eauto.
  - intros k1 k2 a b A1 A2 B1 B2. eauto.
  - intros x X. destruct (H3 x X) as [k [hk [A [B C]]]]. exists k, hk. split; auto.
    rewrite nth_error_app1; auto. apply nth_error_Some. congruence.
Qed.

Lemma upd_snoc {A} (l : list A) x y : upd (l ++ [x]) (length l) y = l ++ [y].
Proof. induction l; simpl; auto. rewrite IHl. reflexivity. Qed.

Lemma role_wedge d w w' l : role_inv (mkS d w l) -> role_inv (mkS d w' l).
Proof. auto. Qed.

Lemma role_same_sub d d' w w' l : c_submitter (d_cfg d') = c_submitter (d_cfg d) ->
  role_inv (mkS d w l) -> role_inv (mkS d' w' l).
Proof. unfold role_inv; simpl. intros ->. auto. Qed.

Lemma step_role s o : sinv s -> role_inv s -> demote_guard s o = true -> role_inv (snd (step s o)).
Proof.
  intros [Hc Hl] Hr Hg. destruct s as [d w l]; simpl in *. destruct o as [host p j | i o |].
  - rewrite step_load_eq; simpl. destruct w; [exact Hr|].
    destruct (load_act p d (fresh_handle host d)) as [[r d1] h1] eqn:E.
    pose proof (load_act_post _ _ _ _ _ _ Hc (fresh_hinv host _ Hc) E) as [A [B [C [D [_ [_ [F [G I]]]]]]]].
    simpl in *. destruct (is_exn r) eqn:Ex; simpl.
    + rewrite (I eq_refl). exact Hr.
    + assert (R0 : role_inv (mkS d false (l ++ [fresh_handle host d]))) by (apply role_append; auto).
      assert (Hn : nth_error (l ++ [fresh_handle host d]) (length l) = Some (fresh_handle host d))
        by (rewrite nth_error_app2, Nat.sub_diag; auto).
      rewrite <- (upd_snoc l (fresh_handle host d)).
      eapply (role_step_do _ _ _ _ _ _ _ _ HPromote r R0 Hn); simpl; auto.
      * destruct j; simpl; auto.
      * destruct j; simpl; auto.
      * intro; discriminate.
  - simpl. destruct (nth_error l i) as [h|] eqn:En; [|exact Hr].
    destruct (locked o && w); [exact Hr|].
    destruct (act o d h) as [[r d'] h'] eqn:E. simpl.
    pose proof (act_post _ _ _ _ _ _ Hc (Forall_nth _ _ _ _ Hl En) E) as [A [B [C [D [_ [_ [F [G I]]]]]]]].
    eapply role_step_do; eauto. intros ->. simpl in Hg. rewrite En in Hg. exact Hg.
  - exact Hr.
Qed.

Lemma run_role ops : forall s, sinv s -> role_inv s -> protocol_ok s ops = true ->
  sinv (run s ops) /\ role_inv (run s ops).
Proof.
  induction ops as [|o ops IH]; simpl; intros s Hs Hr Hp; auto.
  apply andb_prop in Hp. destruct Hp as [Hg Hp].
  apply IH; auto using step_sinv, step_role.
Qed.

Lemma create_role host : role_inv (create host).
Proof.
  unfold create, role_inv; simpl. split; [|split].
  - intros [|[|i]] h X Y; simpl in X; try discriminate. inversion X; subst; reflexivity.
  - intros [|[|i]] [|[|j]] a b X1 X2; simpl in *; try discriminate; auto.
  - intros x X. inversion X; subst. exists 0%nat. eexists. split; [reflexivity|]. split; reflexivity.
Qed.

(* ---------- stale copies are rejected, all four files unchanged ---------- *)
Definition writes_cfg (o : hop) : bool :=
  match o with
  | HPromote | HDemote | HMarkComplete | HMarkCanceled | HSerialize | HUpdate _ _ _ | HPrepare _ => true
  | _ => false
  end.
Definition writes_js (o : hop) : bool :=
  match o with HSerializeJobs | HUpdate _ _ _ | HCompleteHpc _ | HPrepare _ => true | _ => false end.
Definition cfg_stale (d : disk) (h : handle) : Prop := c_version (h_cfg h) <> d_cfg_vf d.
Definition js_stale (d : disk) (h : handle) : Prop := exists j, h_js h = Some j /\ j_version j <> d_js_vf d.
(* the operation did not take effect: an exception, a lock timeout, or "not promoted" *)
Definition rejected (r : result) : bool :=
  is_exn r || match r with RBlocked | RBool false => true | _ => false end.
(* the operation's own precondition (checked by the code BEFORE the version compare) *)
Definition precond (o : hop) (h : handle) : bool :=
  match o with
  | HPromote => negb (has_submitter h)
  | HDemote => am_i_submitter h
  | HMarkComplete => negb (c_complete (h_cfg h))
  | HUpdate _ _ _ => match h_js h with Some _ => true | None => false end
  | HCompleteHpc id => match h_js h with
                       | Some j => match remove_first id (j_ids j) with Some _ => true | None => false end
                       | None => false
                       end
  | HPrepare _ => c_complete (h_cfg h) && match h_js h with Some _ => true | None => false end
  | _ => true
  end.

Lemma act_stale_cfg o d h : writes_cfg o = true -> cfg_stale d h ->
  let '(r, d', h') := act o d h in
  d' = d /\ rejected r = true /\ (precond o h = true -> r = RCfgMismatch).
Proof.
  intros Hw Hs. apply N.eqb_neq in Hs.
  destruct o; simpl in Hw; try discriminate; simpl;
    unfold promote, ser_cfg, chk_cfg, and_then; simpl.
  - destruct (has_submitter h); simpl; [repeat split; auto; discriminate|]. rewrite Hs; simpl. auto.
  - destruct (am_i_submitter h); simpl; [|repeat split; auto; discriminate]. rewrite Hs; simpl. auto.
  - destruct (c_complete (h_cfg h)); simpl; [repeat split; auto; discriminate|]. rewrite Hs; simpl. auto.
  - rewrite Hs; simpl. auto.
  - rewrite Hs; simpl. auto.
  - destruct (h_js h); simpl; [|repeat split; auto; discriminate]. rewrite Hs; simpl. auto.
  - destruct (c_complete (h_cfg h)); simpl; [|repeat split; auto; discriminate].
    destruct (h_js h); simpl; [|repeat split; auto; discriminate]. rewrite Hs; simpl. auto.
Qed.

Lemma act_stale_js o d h : writes_js o = true -> js_stale d h ->
  let '(r, d', h') := act o d h in
  d' = d /\ rejected r = true /\ (precond o h = true -> r = RCfgMismatch \/ r = RJsMismatch).
Proof.
  intros Hw [j [Ej Hs]]. apply N.eqb_neq in Hs.
  destruct o; simpl in Hw; try discriminate; simpl;
    unfold ser_js, chk_js, chk_cfg, and_then; simpl; rewrite ?Ej; simpl.
  - rewrite Hs; simpl. auto.
  - destruct (c_version (h_cfg h) =? d_cfg_vf d); simpl; [rewrite Hs; simpl|]; auto.
  - destruct (remove_first id (j_ids j)); simpl; [rewrite Hs; simpl; auto|repeat split; auto; discriminate].
  - destruct (c_complete (h_cfg h)); simpl; [|repeat split; auto; discriminate].
    destruct (c_version (h_cfg h) =? d_cfg_vf d); simpl; rewrite ?Ej; simpl; [rewrite Hs; simpl|]; auto.
Qed.

Lemma step_do_eq s i o h : nth_error (s_handles s) i = Some h ->
  step s (Do i o) =
  if locked o && s_wedged s then (RBlocked, s)
  else let '(r, d', h') := act o (s_disk s) h in
       (r, mkS d' (s_wedged s || (locked o && is_exn r)) (upd (s_handles s) i h')).
Proof. intro H. simpl. rewrite H. reflexivity. Qed.

Theorem stale_rejected : forall s i h o,
  nth_error (s_handles s) i = Some h ->
  (writes_cfg o = true /\ cfg_stale (s_disk s) h) \/ (writes_js o = true /\ js_stale (s_disk s) h) ->
  let '(r, s') := step s (Do i o) in
  s_disk s' = s_disk s /\ rejected r = true /\
  (precond o h = true -> locked o && s_wedged s = false -> r = RCfgMismatch \/ r = RJsMismatch).
Proof.
  intros s i h o Hn Hst. rewrite (step_do_eq _ _ _ _ Hn).
  destruct (locked o && s_wedged s); [repeat split; auto; discriminate|].
  destruct Hst as [[Hw Hs]|[Hw Hs]].
  - pose proof (act_stale_cfg o _ _ Hw Hs) as X. destruct (act o (s_disk s) h) as [[r d'] h'].
    destruct X as [A [B C]]. simpl. auto.
  - pose proof (act_stale_js o _ _ Hw Hs) as X. destruct (act o (s_disk s) h) as [[r d'] h'].
    destruct X as [A [B C]]. simpl. auto.
Qed.

(* ---------- no lost update ---------- *)
Lemma cfg_eqb_refl c : cfg_eqb c c = true.
Proof.
  destruct c as [v s a b n]; unfold cfg_eqb; simpl.
  rewrite !N.eqb_refl, !Bool.eqb_reflx. destruct s; simpl; rewrite ?N.eqb_refl; reflexivity.
Qed.
Lemma list_N_eqb_refl l : list_eqb N.eqb l l = true.
Proof. induction l; simpl; auto. rewrite N.eqb_refl; auto. Qed.
Lemma js_eqb_refl j : js_eqb j j = true.
Proof. destruct j; unfold js_eqb; simpl. rewrite !N.eqb_refl, list_N_eqb_refl. reflexivity. Qed.

Definition cfg_changed (d d' : disk) : bool :=
  negb (cfg_eqb (d_cfg d) (d_cfg d') && (d_cfg_vf d =? d_cfg_vf d')).
Definition js_changed (d d' : disk) : bool :=
  negb (js_eqb (d_js d) (d_js d') && (d_js_vf d =? d_js_vf d')).

Lemma cfg_changed_cases d d' : cfg_same d d' \/ cfg_next d d' ->
  (cfg_changed d d' = false /\ cfg_same d d') \/ (cfg_changed d d' = true /\ cfg_next d d').
Proof.
  unfold cfg_changed. intros [[A B]|[A B]].
  - left. rewrite A, B, cfg_eqb_refl, N.eqb_refl. split; [reflexivity|split; auto].
  - right. split; [|split; auto]. rewrite A.
    replace (d_cfg_vf d =? d_cfg_vf d + 1) with false by (symmetry; apply N.eqb_neq; lia).
    rewrite andb_false_r. reflexivity.
Qed.
Lemma js_changed_cases d d' : js_same d d' \/ js_next d d' ->
  (js_changed d d' = false /\ js_same d d') \/ (js_changed d d' = true /\ js_next d d').
Proof.
  unfold js_changed. intros [[A B]|[A B]].
  - left. rewrite A, B, js_eqb_refl, N.eqb_refl. split; [reflexivity|split; auto].
  - right. split; [|split; auto]. rewrite A.
    replace (d_js_vf d =? d_js_vf d + 1) with false by (symmetry; apply N.eqb_neq; lia).
    rewrite andb_false_r. reflexivity.
Qed.

Lemma step_dstep s o : sinv s -> dstep_ok (s_disk s) (s_disk (snd (step s o))).
Proof.
  intros [Hc Hl]. destruct o as [host p j | i o |].
  - rewrite step_load_eq. destruct (s_wedged s); [apply dstep_ok_refl|].
    destruct (load_act p (s_disk s) (fresh_handle host (s_disk s))) as [[r d1] h1] eqn:E.
    pose proof (load_act_post _ _ _ _ _ _ Hc (fresh_hinv host _ Hc) E) as [A [B _]].
    destruct (is_exn r); simpl; exact B.
  - simpl. destruct (nth_error (s_handles s) i) as [h|] eqn:En; [|apply dstep_ok_refl].
    destruct (locked o && s_wedged s); [apply dstep_ok_refl|].
    destruct (act o (s_disk s) h) as [[r d'] h'] eqn:E. simpl.
    pose proof (act_post _ _ _ _ _ _ Hc (Forall_nth _ _ _ _ Hl En) E) as [A [B _]]. exact B.
  - apply dstep_ok_refl.
Qed.

(* every write that changes an object is made from the latest version, installs the writer's copy
   with the next version, and keeps object and version file in step *)
Theorem no_lost_update_step : forall s i o h, sinv s -> nth_error (s_handles s) i = Some h ->
  let d := s_disk s in
  let s' := snd (step s (Do i o)) in
  let d' := s_disk s' in
  consistent d' /\
  (cfg_changed d d' = true ->
     c_version (h_cfg h) = d_cfg_vf d /\ d_cfg_vf d' = d_cfg_vf d + 1 /\
     exists h', nth_error (s_handles s') i = Some h' /\ d_cfg d' = h_cfg h') /\
  (js_changed d d' = true ->
     (exists j, h_js h = Some j /\ j_version j = d_js_vf d) /\ d_js_vf d' = d_js_vf d + 1 /\
     exists h', nth_error (s_handles s') i = Some h' /\ h_js h' = Some (d_js d')).
Proof.
  intros s i o h [Hc Hl] Hn. cbv zeta. rewrite (step_do_eq _ _ _ _ Hn).
  destruct (locked o && s_wedged s).
  { simpl. split; [exact Hc|]. unfold cfg_changed, js_changed.
    rewrite cfg_eqb_refl, js_eqb_refl, !N.eqb_refl. simpl. split; discriminate. }
  destruct (act o (s_disk s) h) as [[r d'] h'] eqn:E. simpl.
  pose proof (act_post _ _ _ _ _ _ Hc (Forall_nth _ _ _ _ Hl Hn) E) as [A [[B1 B2] [C [D [F [G _]]]]]].
  split; [exact A|]. split.
  - intro X. destruct (cfg_changed_cases _ _ B1) as [[Y _]|[_ [Y1 Y2]]]; [congruence|].
    destruct F as [[F1 F2]|[F1 F2]]; [exfalso; lia|].
    split; [exact F1|]. split; [exact Y1|]. exists h'. split; [eapply nth_error_upd_eq; eauto|exact F2].
  - intro X. destruct (js_changed_cases _ _ B2) as [[Y _]|[_ [Y1 Y2]]]; [congruence|].
    destruct G as [[G1 G2]|[j [G1 [G2 G3]]]]; [exfalso; lia|].
    split; [exists j; auto|]. split; [exact Y1|]. exists h'. split; [eapply nth_error_upd_eq; eauto|exact G3].
Qed.

Fixpoint count_cfg_writes (s : state) (ops : list op) : N :=
  match ops with
  | [] => 0
  | o :: r => let s' := snd (step s o) in
              (if cfg_changed (s_disk s) (s_disk s') then 1 else 0) + count_cfg_writes s' r
  end.
Fixpoint count_js_writes (s : state) (ops : list op) : N :=
  match ops with
  | [] => 0
  | o :: r => let s' := snd (step s o) in
              (if js_changed (s_disk s) (s_disk s') then 1 else 0) + count_js_writes s' r
  end.

(* the version files count the changing writes: versions go up by exactly one per changing write *)
Theorem versions_count_writes : forall ops s, sinv s ->
  d_cfg_vf (s_disk (run s ops)) = d_cfg_vf (s_disk s) + count_cfg_writes s ops /\
  d_js_vf (s_disk (run s ops)) = d_js_vf (s_disk s) + count_js_writes s ops /\
  consistent (s_disk (run s ops)).
Proof.
  induction ops as [|o ops IH]; intros s Hs; simpl.
  - rewrite !N.add_0_r. destruct Hs; auto.
  - destruct (IH _ (step_sinv s o Hs)) as [A [B C]]. rewrite A, B.
    destruct (step_dstep s o Hs) as [D1 D2].
    destruct (cfg_changed_cases _ _ D1) as [[-> [_ X]]|[-> [X _]]];
      destruct (js_changed_cases _ _ D2) as [[-> [_ Y]]|[-> [Y _]]]; rewrite X, Y; splits; auto; lia.
Qed.

(* a copy carrying the current version has the current submitter field, and what its handle wrote
   last is what the file holds *)
Theorem fresh_copy : forall host ops i h,
  let s := run (create host) ops in
  nth_error (s_handles s) i = Some h ->
  c_version (h_cfg h) <= d_cfg_vf (s_disk s) /\
  (c_version (h_cfg h) = d_cfg_vf (s_disk s) ->
     c_submitter (h_cfg h) = c_submitter (d_cfg (s_disk s)) /\
     forall c, h_hash h = Some c -> c = d_cfg (s_disk s)).
Proof.
  intros host ops i h s Hn. destruct (run_sinv ops _ (create_sinv host)) as [Hc Hl]. subst s.
  destruct (Forall_nth _ _ _ _ Hl Hn) as [[A [B C]] D]. split; [exact A|].
  intro E. split; [apply D; exact E|]. intros c Hq. destruct (B c Hq) as [B1 B2]. apply B2. rewrite B1. exact E.
Qed.

(* ---------- promotion is refused while the role is held ---------- *)
Lemma ser_cfg_res d h r d' h' : ser_cfg d h = (r, d', h') -> r = ROk \/ (r = RCfgMismatch /\ d' = d /\ h' = h).
Proof.
  unfold ser_cfg, chk_cfg, write_cfg, and_then.
  destruct (negb (c_version (h_cfg h) =? d_cfg_vf d)); [intro H; injection H as <- <- <-; auto|].
  destruct (option_eqb cfg_eqb (Some (h_cfg h)) (h_hash h)); intro H; injection H as <- _ _; auto.
Qed.

Lemma promote_unchanged d h r d' h' : promote d h = (r, d', h') -> r <> RBool true -> d' = d.
Proof.
  unfold promote. intros H N. destruct (has_submitter h); [congruence|].
  destruct (ser_cfg d (h_with_cfg h (cfg_with_submitter (h_cfg h) (Some (h_host h))))) as [[r1 d1] h1] eqn:E.
  destruct (ser_cfg_res _ _ _ _ _ E) as [->|[-> [-> ->]]].
  - injection H as <- _ _. exfalso; apply N; reflexivity.
  - injection H as _ <- _. reflexivity.
Qed.

Theorem promote_refused : forall s, sinv s -> role_inv s ->
  forall k hk, nth_error (s_handles s) k = Some hk -> h_promoted hk = true ->
  (forall host j, s_wedged s = false ->
     step s (Load host true j) =
     (RLoaded (length (s_handles s)) false,
      mkS (s_disk s) false (s_handles s ++ [if j then h_with_js (fresh_handle host (s_disk s)) (Some (d_js (s_disk s)))
                                            else fresh_handle host (s_disk s)]))) /\
  (forall i, fst (step s (Do i HPromote)) <> RBool true /\ s_disk (snd (step s (Do i HPromote))) = s_disk s).
Proof.
  intros s [Hc Hl] [H1 _] k hk Hk Hp. pose proof (H1 k hk Hk Hp) as Hsub. split.
  - intros host j Hw. rewrite step_load_eq, Hw. unfold load_act, promote, has_submitter, fresh_handle; simpl.
    rewrite Hsub. simpl. destruct j; reflexivity.
  - intro i. simpl. destruct (nth_error (s_handles s) i) as [h|] eqn:En; [|split; [discriminate|reflexivity]].
    simpl. destruct (s_wedged s); [split; [discriminate|reflexivity]|].
    destruct (promote (s_disk s) h) as [[r d'] h'] eqn:E. simpl.
    pose proof (act_post HPromote _ _ _ _ _ Hc (Forall_nth _ _ _ _ Hl En) E) as [_ [_ [_ [_ [_ [_ [F _]]]]]]].
    assert (N : r <> RBool true).
    { intros ->. simpl in F. destruct F as [F _]. congruence. }
    split; [exact N|]. eapply promote_unchanged; eauto.
Qed.

(* a handle that is not promoted and whose host differs from the submitter's cannot demote: the
   code itself (am_i_submitter, a comparison of host names) enforces the protocol across hosts *)
Theorem cross_host_demote_rejected : forall s i h, sinv s ->
  nth_error (s_handles s) i = Some h ->
  c_submitter (d_cfg (s_disk s)) <> Some (h_host h) ->
  fst (step s (Do i HDemote)) <> ROk /\ s_disk (snd (step s (Do i HDemote))) = s_disk s.
Proof.
  intros s i h [Hc Hl] Hn Hne. rewrite (step_do_eq _ _ _ _ Hn). cbn [locked andb].
  destruct (s_wedged s); [split; [discriminate|reflexivity]|].
  destruct (act HDemote (s_disk s) h) as [[r d'] h'] eqn:E.
  pose proof (act_post HDemote _ _ _ _ _ Hc (Forall_nth _ _ _ _ Hl Hn) E) as [_ [_ [_ [_ [_ [_ [F [_ I]]]]]]]].
  assert (N : r <> ROk). { intros ->. simpl in F. destruct F as [F _]. congruence. }
  simpl. split; [exact N|].
  simpl in E. destruct (am_i_submitter h).
  - destruct (ser_cfg (s_disk s) (h_with_cfg h (cfg_with_submitter (h_cfg h) None))) as [[r1 d1] h1] eqn:E1.
    destruct (ser_cfg_res _ _ _ _ _ E1) as [->|[-> [-> ->]]].
    + injection E as <- _ _. exfalso; apply N; reflexivity.
    + injection E as _ <- _. reflexivity.
  - injection E as _ <- _. reflexivity.
Qed.

(* ---------- successful promotions and demotions alternate ---------- *)
Definition sub_set (s : state) : bool :=
  match c_submitter (d_cfg (s_disk s)) with Some _ => true | None => false end.
Definition ev_promote (e : op * result) : bool :=
  match e with
  | (Load _ _ _, RLoaded _ true) => true
  | (Do _ HPromote, RBool true) => true
  | _ => false
  end.
Definition ev_demote (e : op * result) : bool :=
  match e with (Do _ HDemote, ROk) => true | _ => false end.

Fixpoint alternates (held : bool) (tr : list (op * result)) : bool :=
  match tr with
  | [] => true
  | e :: r => if ev_promote e then negb held && alternates true r
              else if ev_demote e then held && alternates false r
              else alternates held r
  end.

Lemma step_sub s o : sinv s ->
  let r := fst (step s o) in let s' := snd (step s o) in
  (ev_promote (o, r) = true -> sub_set s = false /\ sub_set s' = true) /\
  (ev_demote (o, r) = true -> sub_set s = true /\ sub_set s' = false) /\
  (ev_promote (o, r) = false -> ev_demote (o, r) = false -> sub_set s' = sub_set s).
Proof.
  intros [Hc Hl]. cbv zeta. unfold sub_set. destruct o as [host p j | i o |].
  - rewrite step_load_eq. destruct (s_wedged s); [simpl; splits; auto; discriminate|].
    destruct (load_act p (s_disk s) (fresh_handle host (s_disk s))) as [[r d1] h1] eqn:E.
    pose proof (load_act_post _ _ _ _ _ _ Hc (fresh_hinv host _ Hc) E) as [_ [_ [_ [_ [_ [_ [F [G I]]]]]]]].
    destruct (is_exn r) eqn:Ex.
    + rewrite (I eq_refl). destruct r; simpl in *; try discriminate; splits; auto; discriminate.
    + cbn [fst snd s_disk]. assert (Hp : h_promoted (if j then h_with_js h1 (Some (d_js d1)) else h1) = h_promoted h1)
        by (destruct j; reflexivity). rewrite Hp, G. simpl in *.
      destruct r; try destruct b; simpl in *; try discriminate;
        try (destruct F as [-> ->]); try rewrite F; splits; auto; try discriminate.
  - destruct (nth_error (s_handles s) i) as [h|] eqn:En.
    2:{ simpl. rewrite En. simpl. destruct o; splits; auto; discriminate. }
    rewrite (step_do_eq _ _ _ _ En).
    destruct (locked o && s_wedged s). { simpl. destruct o; splits; auto; discriminate. }
    destruct (act o (s_disk s) h) as [[r d'] h'] eqn:E. cbn [fst snd s_disk].
    pose proof (act_post _ _ _ _ _ _ Hc (Forall_nth _ _ _ _ Hl En) E) as [_ [_ [_ [_ [_ [_ [F _]]]]]]].
    destruct o; simpl in F; try (rewrite F; simpl; splits; auto; discriminate);
      destruct r; try destruct b; simpl in F; try (destruct F as [-> ->]); try rewrite F; simpl;
      splits; auto; discriminate.
  - simpl. splits; auto; discriminate.
Qed.

Lemma alternates_cons held e r : alternates held (e :: r) =
  if ev_promote e then negb held && alternates true r
  else if ev_demote e then held && alternates false r else alternates held r.
Proof. reflexivity. Qed.

Lemma trace_cons s o ops : trace s (o :: ops) = (o, fst (step s o)) :: trace (snd (step s o)) ops.
Proof. simpl. destruct (step s o); reflexivity. Qed.

Theorem alternation : forall ops s, sinv s -> alternates (sub_set s) (trace s ops) = true.
Proof.
  induction ops as [|o ops IH]; intros s Hs; [reflexivity|].
  rewrite trace_cons, alternates_cons.
  pose proof (step_sub s o Hs) as [A [B C]]. pose proof (step_sinv s o Hs) as Hs'.
  destruct (ev_promote (o, fst (step s o))) eqn:Ep.
  - destruct (A eq_refl) as [-> X]. pose proof (IH _ Hs') as Y. rewrite X in Y. simpl. exact Y.
  - destruct (ev_demote (o, fst (step s o))) eqn:Ed.
    + destruct (B eq_refl) as [-> X]. pose proof (IH _ Hs') as Y. rewrite X in Y. simpl. exact Y.
    + rewrite <- (C eq_refl eq_refl). apply IH; auto.
Qed.

Lemma create_sub_set host : sub_set (create host) = true.
Proof. reflexivity. Qed.

(* ---------- the CLI call sites keep the protocol ---------- *)
Lemma neutral_step p e : neutral e = true -> local_step p e = Some p.
Proof. destruct e as [b|o r]; simpl; try discriminate. destruct o; simpl; try discriminate; auto. Qed.

Lemma demote_exit_ok evs : accepts (PDemote p_exit) evs = true -> local_ok true evs = true.
Proof.
  destruct evs as [|e r]; simpl; auto. destruct e as [b|o x]; try discriminate.
  destruct o; try discriminate. destruct r; [|discriminate]. intros _. destruct x; reflexivity.
Qed.

Lemma any_demote_ok evs : accepts (PAny (PDemote p_exit)) evs = true -> local_ok true evs = true.
Proof.
  induction evs as [|e r IH]; auto. intro H.
  change (accepts (PAny (PDemote p_exit)) (e :: r))
    with ((neutral e && accepts (PAny (PDemote p_exit)) r) || accepts (PDemote p_exit) (e :: r)) in H.
  apply orb_prop in H. destruct H as [H|H].
  - apply andb_prop in H. destruct H as [N H]. simpl. rewrite (neutral_step _ _ N). auto.
  - apply demote_exit_ok; auto.
Qed.

Lemma any_done_ok p evs : accepts (PAny PDone) evs = true -> local_ok p evs = true.
Proof.
  induction evs as [|e r IH]; auto. intro H.
  change (accepts (PAny PDone) (e :: r)) with ((neutral e && accepts (PAny PDone) r) || false) in H.
  rewrite orb_false_r in H. apply andb_prop in H. destruct H as [N H]. simpl. rewrite (neutral_step _ _ N). auto.
Qed.

Lemma done_ok p evs : accepts PDone evs = true -> local_ok p evs = true.
Proof. destruct evs; simpl; auto; discriminate. Qed.

Ltac loaded_prog :=
  let evs := fresh "evs" in let H := fresh "H" in
  intros evs H; destruct evs as [|[b|o x] r]; simpl in *; auto; try discriminate;
  destruct b; simpl in *;
  repeat match goal with
         | H : (_ || _) = true |- _ => apply orb_prop in H; destruct H as [H|H]
         end;
  auto using demote_exit_ok, any_demote_ok, any_done_ok, done_ok.

Theorem try_submit_ok : forall evs, accepts prog_try_submit evs = true -> local_ok false evs = true.
Proof. loaded_prog. Qed.
Theorem cancel_ok : forall evs, accepts prog_cancel evs = true -> local_ok false evs = true.
Proof. loaded_prog. Qed.
Theorem resubmit_ok : forall evs, accepts prog_resubmit evs = true -> local_ok false evs = true.
Proof. loaded_prog. Qed.
Theorem complete_hpc_ok : forall evs, accepts prog_complete_hpc evs = true -> local_ok false evs = true.
Proof. loaded_prog. Qed.
Theorem reader_ok : forall evs, accepts prog_reader evs = true -> local_ok false evs = true.
Proof. loaded_prog. Qed.
Theorem run_submit_ok : forall evs, accepts prog_run_submit evs = true -> local_ok true evs = true.
Proof. exact any_demote_ok. Qed.

Theorem cli_programs_ok : forall p, In p cli_programs ->
  forall evs, accepts p evs = true -> local_ok false evs = true.
Proof.
  intros p Hin. simpl in Hin.
  destruct Hin as [<-|[<-|[<-|[<-|[<-|[]]]]]];
    auto using try_submit_ok, cancel_ok, resubmit_ok, complete_hpc_ok, reader_ok.
Qed.

(* the old resubmit_jobs (D5) does not: not promoted, submission incomplete, demote *)
Lemma resubmit_old_refuted : exists evs, accepts prog_resubmit_old evs = true /\ local_ok false evs = false.
Proof. exists [LLoaded false; LOp HDemote ROk]. split; reflexivity. Qed.

(* --- from the local bookkeeping to the global protocol predicate --- *)
Lemma bit_of_upd_eq l d w i h h' : nth_error l i = Some h -> bit_of (mkS d w (upd l i h')) i = h_promoted h'.
Proof. intro H. unfold bit_of; simpl. rewrite (nth_error_upd_eq _ _ _ _ H). reflexivity. Qed.

Lemma local_step_prom p o r b : r <> RNoHandle -> local_step p (LOp o r) = Some b -> b = prom_trans o r p.
Proof.
  intros N H. destruct o; simpl in *; try (inversion H; reflexivity).
  - destruct r; try destruct b0; simpl in *; inversion H; reflexivity.
  - destruct r; simpl in *; try congruence; destruct p; inversion H; reflexivity.
Qed.

Lemma act_not_nohandle o d h : fst (fst (act o d h)) <> RNoHandle.
Proof.
  assert (S : forall d h, fst (fst (ser_cfg d h)) <> RNoHandle).
  { intros d0 h0. destruct (ser_cfg d0 h0) as [[r d'] h'] eqn:E.
    destruct (ser_cfg_res _ _ _ _ _ E) as [->|[-> _]]; simpl; discriminate. }
  assert (J : forall d h, fst (fst (ser_js d h)) <> RNoHandle).
  { intros d0 h0. unfold ser_js, chk_js, write_js, and_then. destruct (h_js h0) eqn:Ej; simpl; [|discriminate].
    destruct (negb _); simpl; [discriminate|]. rewrite Ej. simpl. discriminate. }
  destruct o; simpl.
  - unfold promote. destruct (has_submitter h); simpl; [discriminate|].
    specialize (S d (h_with_cfg h (cfg_with_submitter (h_cfg h) (Some (h_host h))))).
    destruct (ser_cfg _ _) as [[r d'] h']. simpl in *. destruct r; simpl; congruence.
  - destruct (am_i_submitter h); simpl; [|discriminate].
    specialize (S d (h_with_cfg h (cfg_with_submitter (h_cfg h) None))).
    destruct (ser_cfg _ _) as [[r d'] h']. simpl in *. destruct r; simpl; congruence.
  - destruct (c_complete (h_cfg h)); simpl; [discriminate|apply S].
  - apply S.
  - apply S.
  - apply J.
  - destruct (h_js h); simpl; [|discriminate]. unfold and_then at 1. unfold chk_cfg. simpl.
    destruct (negb _); simpl; [discriminate|]. unfold and_then at 1. unfold chk_js. simpl.
    destruct (negb _); simpl; [discriminate|].
    match goal with |- context [ser_cfg ?a ?b] => specialize (S a b); destruct (ser_cfg a b) as [[r d'] h'] end.
    simpl in *. unfold and_then. destruct r; simpl; try congruence; try apply J.
  - destruct (h_js h); simpl; [|discriminate]. destruct (remove_first id (j_ids j)); simpl; [apply J|discriminate].
  - discriminate.
  - destruct (c_complete (h_cfg h)); simpl; [|discriminate]. destruct (h_js h); simpl; [|discriminate].
    unfold and_then at 1. unfold chk_cfg. simpl.
    destruct (negb _); simpl; [discriminate|]. unfold and_then at 1. unfold chk_js. simpl.
    destruct (h_js _); simpl; [|discriminate].
    destruct (negb _); simpl; [discriminate|].
    match goal with |- context [ser_cfg ?a ?b] => specialize (S a b); destruct (ser_cfg a b) as [[r d'] h'] end.
    simpl in *. unfold and_then. destruct r; simpl; try congruence; try apply J.
Qed.

Lemma act_not_blocked o d h : fst (fst (act o d h)) <> RBlocked.
Proof.
  assert (S : forall d h, fst (fst (ser_cfg d h)) <> RBlocked).
  { intros d0 h0. destruct (ser_cfg d0 h0) as [[r d'] h'] eqn:E.
    destruct (ser_cfg_res _ _ _ _ _ E) as [->|[-> _]]; simpl; discriminate. }
  assert (J : forall d h, fst (fst (ser_js d h)) <> RBlocked).
  { intros d0 h0. unfold ser_js, chk_js, write_js, and_then. destruct (h_js h0) eqn:Ej; simpl; [|discriminate].
    destruct (negb _); simpl; [discriminate|]. rewrite Ej. simpl. discriminate. }
  destruct o; simpl.
  - unfold promote. destruct (has_submitter h); simpl; [discriminate|].
    specialize (S d (h_with_cfg h (cfg_with_submitter (h_cfg h) (Some (h_host h))))).
    destruct (ser_cfg _ _) as [[r d'] h']. simpl in *. destruct r; simpl; congruence.
  - destruct (am_i_submitter h); simpl; [|discriminate].
    specialize (S d (h_with_cfg h (cfg_with_submitter (h_cfg h) None))).
    destruct (ser_cfg _ _) as [[r d'] h']. simpl in *. destruct r; simpl; congruence.
  - destruct (c_complete (h_cfg h)); simpl; [discriminate|apply S].
  - apply S.
  - apply S.
  - apply J.
  - destruct (h_js h); simpl; [|discriminate]. unfold and_then at 1. unfold chk_cfg. simpl.
    destruct (negb _); simpl; [discriminate|]. unfold and_then at 1. unfold chk_js. simpl.
    destruct (negb _); simpl; [discriminate|].
    match goal with |- context [ser_cfg ?a ?b] => specialize (S a b); destruct (ser_cfg a b) as [[r d'] h'] end.
    simpl in *. unfold and_then. destruct r; simpl; try congruence; try apply J.
  - destruct (h_js h); simpl; [|discriminate]. destruct (remove_first id (j_ids j)); simpl; [apply J|discriminate].
  - discriminate.
  - destruct (c_complete (h_cfg h)); simpl; [|discriminate]. destruct (h_js h); simpl; [|discriminate].
    unfold and_then at 1. unfold chk_cfg. simpl.
    destruct (negb _); simpl; [discriminate|]. unfold and_then at 1. unfold chk_js. simpl.
    destruct (h_js _); simpl; [|discriminate].
    destruct (negb _); simpl; [discriminate|].
    match goal with |- context [ser_cfg ?a ?b] => specialize (S a b); destruct (ser_cfg a b) as [[r d'] h'] end.
    simpl in *. unfold and_then. destruct r; simpl; try congruence; try apply J.
Qed.

Lemma bit_step s o : sinv s ->
  let r := fst (step s o) in let s' := snd (step s o) in
  forall i,
  (owner (o, r) = Some i -> forall b, local_step (bit_of s i) (to_local (o, r)) = Some b -> bit_of s' i = b) /\
  (owner (o, r) <> Some i -> bit_of s' i = bit_of s i).
Proof.
  intros [Hc Hl]. cbv zeta. destruct o as [host p j | k o |]; intro i.
  - rewrite step_load_eq. destruct (s_wedged s); [simpl; split; [discriminate|auto]|].
    destruct (load_act p (s_disk s) (fresh_handle host (s_disk s))) as [[r d1] h1] eqn:E.
    destruct (is_exn r) eqn:Ex.
    + cbn [fst snd]. destruct r; simpl in Ex; try discriminate; (split; [discriminate|auto]).
    + cbn [fst snd owner to_local]. split.
      * intros X b Hb. inversion X; subst i. simpl in Hb. inversion Hb; subst b.
        unfold bit_of; simpl. rewrite nth_error_app2, Nat.sub_diag; auto.
      * intro X. unfold bit_of; simpl.
        destruct (Nat.lt_ge_cases i (length (s_handles s))) as [L|L].
        -- rewrite nth_error_app1; auto.
        -- assert (i <> length (s_handles s)) by congruence.
           replace (nth_error (s_handles s ++ _) i) with (@None handle).
           ++ replace (nth_error (s_handles s) i) with (@None handle); auto.
              symmetry; apply nth_error_None; auto.
           ++ symmetry; apply nth_error_None. rewrite app_length; simpl. lia.
  - destruct (nth_error (s_handles s) k) as [h|] eqn:En.
    2:{ simpl. rewrite En. simpl. split; auto. intros X b Hb. inversion X; subst i.
        destruct o; simpl in Hb; inversion Hb; reflexivity. }
    rewrite (step_do_eq _ _ _ _ En).
    destruct (locked o && s_wedged s).
    { cbn [fst snd owner to_local]. split; auto. intros X b Hb. inversion X; subst i.
      destruct o; simpl in Hb; try (inversion Hb; reflexivity).
      destruct (bit_of s k); inversion Hb; reflexivity. }
    pose proof (act_not_nohandle o (s_disk s) h) as NH.
    destruct (act o (s_disk s) h) as [[r d'] h'] eqn:E. cbn [fst snd owner to_local] in *.
    pose proof (act_post _ _ _ _ _ _ Hc (Forall_nth _ _ _ _ Hl En) E) as [_ [_ [_ [_ [_ [_ [_ [G _]]]]]]]].
    split.
    + intros X b Hb. inversion X; subst i. rewrite (bit_of_upd_eq _ _ _ _ _ _ En), G.
      rewrite (local_step_prom _ _ _ _ NH Hb). unfold bit_of. rewrite En. reflexivity.
    + intro X. assert (k <> i) by congruence. unfold bit_of; simpl. rewrite nth_error_upd_neq; auto.
  - simpl. split; [discriminate|auto].
Qed.

Lemma demote_not_nohandle s i h : nth_error (s_handles s) i = Some h -> fst (step s (Do i HDemote)) <> RNoHandle.
Proof.
  intro En. rewrite (step_do_eq _ _ _ _ En). destruct (locked HDemote && s_wedged s); [discriminate|].
  pose proof (act_not_nohandle HDemote (s_disk s) h). destruct (act HDemote (s_disk s) h) as [[r d'] h']. exact H.
Qed.

Theorem protocol_from_local : forall ops s, sinv s ->
  (forall i, local_ok (bit_of s i) (events_of i (trace s ops)) = true) ->
  protocol_ok s ops = true.
Proof.
  induction ops as [|o ops IH]; intros s Hs Hloc; simpl; auto.
  pose proof (bit_step s o Hs) as Hb. cbv zeta in Hb.
  assert (Htr : forall i, events_of i (trace s (o :: ops)) =
                 match owner (o, fst (step s o)) with
                 | Some k => if Nat.eqb k i then to_local (o, fst (step s o)) :: events_of i (trace (snd (step s o)) ops)
                             else events_of i (trace (snd (step s o)) ops)
                 | None => events_of i (trace (snd (step s o)) ops)
                 end).
  { intro i. simpl. destruct (step s o) as [r s']. reflexivity. }
  apply andb_true_intro. split.
  - destruct o as [| i ho |]; simpl; auto. destruct ho; auto.
    destruct (nth_error (s_handles s) i) as [h|] eqn:En; auto.
    specialize (Hloc i). rewrite Htr in Hloc. cbn [owner] in Hloc. rewrite Nat.eqb_refl in Hloc.
    cbn [to_local local_ok] in Hloc.
    pose proof (demote_not_nohandle s i h En) as NH.
    unfold bit_of in Hloc. rewrite En in Hloc.
    destruct (h_promoted h); auto.
    destruct (fst (step s (Do i HDemote))); simpl in Hloc; congruence.
  - apply IH; [apply step_sinv; auto|]. intro i. specialize (Hloc i). rewrite Htr in Hloc.
    destruct (Hb i) as [B1 B2].
    destruct (owner (o, fst (step s o))) as [k|] eqn:Eo.
    + destruct (Nat.eqb k i) eqn:Ek.
      * apply Nat.eqb_eq in Ek. subst k. cbn [local_ok] in Hloc.
        destruct (local_step (bit_of s i) (to_local (o, fst (step s o)))) as [b|] eqn:El; [|discriminate].
        rewrite (B1 eq_refl b eq_refl). exact Hloc.
      * apply Nat.eqb_neq in Ek. rewrite B2; [exact Hloc|congruence].
    + rewrite B2; [exact Hloc|congruence].
Qed.

(* every handle's life is a run of one of the CLI programs => the protocol hypothesis holds *)
Theorem callsites_protocol : forall host ops,
  accepts prog_run_submit (events_of 0%nat (trace (create host) ops)) = true ->
  (forall i, i <> 0%nat -> exists p, In p cli_programs /\ accepts p (events_of i (trace (create host) ops)) = true) ->
  protocol_ok (create host) ops = true.
Proof.
  intros host ops H0 Hi. apply protocol_from_local; [apply create_sinv|].
  intro i. destruct i as [|i].
  - replace (bit_of (create host) 0%nat) with true by reflexivity. apply run_submit_ok; exact H0.
  - destruct (Hi (S i)) as [p [Hin Hacc]]; [discriminate|].
    replace (bit_of (create host) (S i)) with false by (unfold bit_of; simpl; destruct i; reflexivity). eapply cli_programs_ok; eauto.
Qed.

(* ---------- statements over all reachable states (any sequence after Cluster.create) ---------- *)
Lemma reach_sinv host ops : sinv (run (create host) ops).
Proof. apply run_sinv, create_sinv. Qed.

Theorem single_holder : forall host ops,
  protocol_ok (create host) ops = true -> role_inv (run (create host) ops).
Proof. intros host ops Hp. apply run_role; auto using create_sinv, create_role. Qed.

Theorem no_lost_update_reach : forall host ops i o h,
  let s := run (create host) ops in
  nth_error (s_handles s) i = Some h ->
  let d := s_disk s in
  let s' := snd (step s (Do i o)) in
  let d' := s_disk s' in
  consistent d' /\
  (cfg_changed d d' = true ->
     c_version (h_cfg h) = d_cfg_vf d /\ d_cfg_vf d' = d_cfg_vf d + 1 /\
     exists h', nth_error (s_handles s') i = Some h' /\ d_cfg d' = h_cfg h') /\
  (js_changed d d' = true ->
     (exists j, h_js h = Some j /\ j_version j = d_js_vf d) /\ d_js_vf d' = d_js_vf d + 1 /\
     exists h', nth_error (s_handles s') i = Some h' /\ h_js h' = Some (d_js d')).
Proof. intros host ops i o h s Hn. apply no_lost_update_step; auto. apply reach_sinv. Qed.

Theorem versions_count_writes_reach : forall host ops,
  let s0 := create host in
  d_cfg_vf (s_disk (run s0 ops)) = 1 + count_cfg_writes s0 ops /\
  d_js_vf (s_disk (run s0 ops)) = 1 + count_js_writes s0 ops /\
  c_version (d_cfg (s_disk (run s0 ops))) = d_cfg_vf (s_disk (run s0 ops)) /\
  j_version (d_js (s_disk (run s0 ops))) = d_js_vf (s_disk (run s0 ops)).
Proof.
  intros host ops s0. destruct (versions_count_writes ops s0 (create_sinv host)) as [A [B [C D]]].
  repeat split; auto.
Qed.

(* an operation that raised (or timed out on the lock marker) left all four files unchanged *)
Definition failed (r : result) : bool := is_exn r || match r with RBlocked => true | _ => false end.

Theorem failed_unchanged : forall host ops o,
  let s := run (create host) ops in
  failed (fst (step s o)) = true -> s_disk (snd (step s o)) = s_disk s.
Proof.
  intros host ops o s. pose proof (reach_sinv host ops) as [Hc Hl]. fold s in Hc, Hl.
  destruct o as [h0 p j | i o |].
  - rewrite step_load_eq. destruct (s_wedged s); [reflexivity|].
    destruct (load_act p (s_disk s) (fresh_handle h0 (s_disk s))) as [[r d1] h1] eqn:E.
    pose proof (load_act_post _ _ _ _ _ _ Hc (fresh_hinv h0 _ Hc) E) as [_ [_ [_ [_ [_ [_ [_ [_ I]]]]]]]].
    destruct (is_exn r) eqn:Ex; simpl; [intros _; apply I; reflexivity|discriminate].
  - destruct (nth_error (s_handles s) i) as [h|] eqn:En; [|simpl; rewrite En; reflexivity].
    rewrite (step_do_eq _ _ _ _ En). destruct (locked o && s_wedged s); [reflexivity|].
    destruct (act o (s_disk s) h) as [[r d'] h'] eqn:E. cbn [fst snd s_disk].
    pose proof (act_post _ _ _ _ _ _ Hc (Forall_nth _ _ _ _ Hl En) E) as [_ [_ [_ [_ [_ [_ [F [_ I]]]]]]]].
    unfold failed. intro R. apply orb_prop in R. destruct R as [R|R]; [apply I; exact R|].
    exfalso. pose proof (act_not_nohandle o (s_disk s) h) as NH. rewrite E in NH. simpl in NH.
    destruct r; try discriminate.
    (* act never answers RBlocked *)
    revert E. clear. intro E. apply (f_equal (fun x => fst (fst x))) in E. simpl in E.
    pose proof (act_not_blocked o (s_disk s) h). congruence.
  - reflexivity.
Qed.

Theorem promote_refused_reach : forall host ops,
  protocol_ok (create host) ops = true ->
  let s := run (create host) ops in
  forall k hk, nth_error (s_handles s) k = Some hk -> h_promoted hk = true ->
  (forall h0 j, s_wedged s = false -> fst (step s (Load h0 true j)) = RLoaded (length (s_handles s)) false) /\
  (forall h0 j, s_disk (snd (step s (Load h0 true j))) = s_disk s) /\
  (forall i, fst (step s (Do i HPromote)) <> RBool true /\ s_disk (snd (step s (Do i HPromote))) = s_disk s).
Proof.
  intros host ops Hp s k hk Hk Hpr.
  destruct (run_role ops _ (create_sinv host) (create_role host) Hp) as [Hs Hr]. fold s in Hs, Hr.
  destruct (promote_refused s Hs Hr k hk Hk Hpr) as [A B]. split; [|split; [|exact B]].
  - intros h0 j Hw. rewrite (A h0 j Hw). reflexivity.
  - intros h0 j. destruct (s_wedged s) eqn:Hw.
    + rewrite step_load_eq, Hw. reflexivity.
    + rewrite (A h0 j eq_refl). reflexivity.
Qed.

Theorem cross_host_demote_reach : forall host ops i h,
  let s := run (create host) ops in
  nth_error (s_handles s) i = Some h ->
  c_submitter (d_cfg (s_disk s)) <> Some (h_host h) ->
  fst (step s (Do i HDemote)) <> ROk /\ s_disk (snd (step s (Do i HDemote))) = s_disk s.
Proof. intros host ops i h s. apply cross_host_demote_rejected. apply reach_sinv. Qed.

Theorem alternation_reach : forall host ops, alternates true (trace (create host) ops) = true.
Proof. intros host ops. apply (alternation ops (create host) (create_sinv host)). Qed.

Theorem single_holder_cli : forall host ops,
  accepts prog_run_submit (events_of 0%nat (trace (create host) ops)) = true ->
  (forall i, i <> 0%nat -> exists p, In p cli_programs /\ accepts p (events_of i (trace (create host) ops)) = true) ->
  role_inv (run (create host) ops).
Proof. intros host ops H0 Hi. apply single_holder. apply callsites_protocol; auto. Qed.

(* ---------- History: _update_job_status before the fix "reject a stale job-status copy before the
   cluster config is written": compare-write-compare-write ---------- *)
Definition update_old (k b : N) (ids : list N) (d : disk) (h : handle) : result * disk * handle :=
  match h_js h with
  | None => (RAttrError, d, h)
  | Some j =>
    and_then (ser_cfg d (mkH (h_host h) (cfg_with_submitted (h_cfg h) (c_submitted (h_cfg h) + k)) (h_hash h)
                             (Some (mkJs (j_version j) b ids)) (h_promoted h))) ser_js
  end.

Definition hist_disk : disk := mkDisk (mkCfg 2 None false false 0) 2 (mkJs 2 2 [11]) 2.
Definition hist_handle : handle := mkH 1 (mkCfg 2 None false false 0) None (Some (mkJs 1 1 [])) false.

(* the old code wrote the config and then raised JobStatusVersionMismatch ... *)
Example update_old_partial_write :
  js_stale hist_disk hist_handle /\
  fst (fst (update_old 1 7 [99] hist_disk hist_handle)) = RJsMismatch /\
  snd (fst (update_old 1 7 [99] hist_disk hist_handle)) <> hist_disk.
Proof.
  split; [exists (mkJs 1 1 []); split; [reflexivity|discriminate]|]. split; [reflexivity|]. vm_compute. discriminate.
Qed.
(* ... the repaired code rejects the same call with every file unchanged *)
Example update_now_rejects :
  fst (act (HUpdate 1 7 [99]) hist_disk hist_handle) = (RJsMismatch, hist_disk).
Proof. reflexivity. Qed.
