(* Proofs about the Cluster model (Cluster.v): version discipline and the submitter role.
   Statements of the property theorems are in Props/C10.v. *)
From Coq Require Import List NArith Bool Arith Lia.
From Jade Require Import Base Cluster.
Import ListNotations.
Open Scope N_scope.

(* ---------- boolean equalities ---------- *)
Lemma cfg_eqb_eq a b : cfg_eqb a b = true -> a = b.
Proof.
  destruct a as [v s c x n], b as [v' s' c' x' n']; unfold cfg_eqb; simpl; intro H.
  repeat (apply andb_prop in H; destruct H as [H ?]).
  apply N.eqb_eq in H. apply Bool.eqb_prop in H1, H2. apply N.eqb_eq in H0.
  assert (s = s') by (destruct s, s'; simpl in *; try discriminate; try reflexivity; apply N.eqb_eq in H3; congruence).
  congruence.
Qed.

(* ---------- invariants ---------- *)
Definition consistent (d : disk) : Prop :=
  c_version (d_cfg d) = d_cfg_vf d /\ j_version (d_js d) = d_js_vf d.

(* a handle's copies never run ahead of the version files; the text it wrote last carries the
   version of its copy and, if that is the current version, IS the file content *)
Definition hinv0 (d : disk) (h : handle) : Prop :=
  c_version (h_cfg h) <= d_cfg_vf d /\
  (forall c, h_hash h = Some c -> c_version c = c_version (h_cfg h) /\ (c_version c = d_cfg_vf d -> c = d_cfg d)) /\
  (forall j, h_js h = Some j -> j_version j <= d_js_vf d).

(* a copy with the current version has the current submitter field *)
Definition sub_agree (d : disk) (h : handle) : Prop :=
  c_version (h_cfg h) = d_cfg_vf d -> c_submitter (h_cfg h) = c_submitter (d_cfg d).

Definition hinv (d : disk) (h : handle) : Prop := hinv0 d h /\ sub_agree d h.

(* how one action may change the files: each pair (object, version file) is either untouched or
   replaced by an object carrying the next version *)
Definition cfg_same (d d' : disk) : Prop := d_cfg d' = d_cfg d /\ d_cfg_vf d' = d_cfg_vf d.
Definition js_same (d d' : disk) : Prop := d_js d' = d_js d /\ d_js_vf d' = d_js_vf d.
Definition cfg_next (d d' : disk) : Prop := d_cfg_vf d' = d_cfg_vf d + 1 /\ c_version (d_cfg d') = d_cfg_vf d'.
Definition js_next (d d' : disk) : Prop := d_js_vf d' = d_js_vf d + 1 /\ j_version (d_js d') = d_js_vf d'.
Definition dstep_ok (d d' : disk) : Prop := (cfg_same d d' \/ cfg_next d d') /\ (js_same d d' \/ js_next d d').

Lemma dstep_ok_refl d : dstep_ok d d.
Proof. unfold dstep_ok, cfg_same, js_same; auto. Qed.

(* frame: handles that did not act keep their invariant *)
Lemma hinv_frame d d' h : consistent d -> hinv d h -> dstep_ok d d' -> hinv d' h.
Proof.
  intros [Hc Hj] [[Hv [Hh Hjs]] Hs] [Hcfg Hjs'].
  unfold hinv, hinv0, sub_agree, cfg_same, cfg_next, js_same, js_next in *.
  destruct Hcfg as [[E1 E2]|[E1 E2]], Hjs' as [[F1 F2]|[F1 F2]]; rewrite ?E1, ?E2, ?F1, ?F2;
    (split; [split; [lia|split]|]);
    try (intros c Hc'; destruct (Hh c Hc') as [A B]; split; [exact A|intro; try (apply B; assumption); exfalso; lia]);
    try (intros j Hj'; specialize (Hjs j Hj'); lia);
    try (intro; try (apply Hs; assumption); exfalso; lia).
Qed.

Lemma N_opt_eqb_eq (a b : option N) : option_eqb N.eqb a b = true -> a = b.
Proof. destruct a, b; simpl; intro H; try discriminate; auto. apply N.eqb_eq in H. congruence. Qed.

Lemma am_i_submitter_eq h : am_i_submitter h = true -> c_submitter (h_cfg h) = Some (h_host h).
Proof. apply N_opt_eqb_eq. Qed.

Lemma hinv_hinv0 d h : hinv d h -> hinv0 d h.
Proof. intros [H _]; exact H. Qed.

(* memory-only change of the config copy that keeps its version *)
Lemma hinv0_mut d h c : hinv0 d h -> c_version c = c_version (h_cfg h) -> hinv0 d (h_with_cfg h c).
Proof.
  intros [Hv [Hh Hj]] E. unfold hinv0, h_with_cfg; simpl. rewrite E. auto.
Qed.

Lemma ser_cfg_spec d h r d' h' : consistent d -> hinv0 d h -> ser_cfg d h = (r, d', h') ->
  (r = RCfgMismatch /\ d' = d /\ h' = h /\ c_version (h_cfg h) <> d_cfg_vf d /\ hinv d h)
  \/ (r = ROk /\ c_version (h_cfg h) = d_cfg_vf d /\ consistent d' /\ hinv d' h' /\ js_same d d' /\
      (cfg_same d d' \/ cfg_next d d') /\ d_cfg d' = h_cfg h' /\
      c_submitter (h_cfg h') = c_submitter (h_cfg h) /\
      h_host h' = h_host h /\ h_js h' = h_js h /\ h_promoted h' = h_promoted h).
Proof.
  intros [Hc Hj] [Hv [Hh Hjs]] H. unfold ser_cfg, chk_cfg, and_then in H.
  destruct (c_version (h_cfg h) =? d_cfg_vf d) eqn:E; simpl in H.
  - apply N.eqb_eq in E. right. unfold write_cfg in H.
    destruct (option_eqb cfg_eqb (Some (h_cfg h)) (h_hash h)) eqn:Q.
    + injection H as Hr Hd Hh'; subst r d' h'.
      destruct (h_hash h) as [c|] eqn:Hq; simpl in Q; [|discriminate].
      apply cfg_eqb_eq in Q. destruct (Hh c eq_refl) as [A B].
      assert (c = d_cfg d) by (apply B; congruence).
      repeat split; auto; try (left; split; reflexivity); try congruence.
      all: try (intros c0 Hc0; rewrite Hq in Hc0; inversion Hc0; subst c0; split; [congruence|auto]).
      all: try (intro; congruence).
    + injection H as Hr Hd Hh'; subst r d' h'. simpl.
      repeat split; simpl; auto; try lia.
      all: try (intros c Hc'; inversion Hc'; subst; simpl; auto).
      all: try (right; split; simpl; lia).
      all: try (simpl in H; inversion H; subst; simpl; auto; lia).
  - apply N.eqb_neq in E. left. injection H as Hr Hd Hh'; subst r d' h'.
    do 4 (split; [solve [reflexivity|assumption]|]).
    split; [split; [assumption|split; assumption] | intro; contradiction].
Qed.

Lemma ser_js_spec d h r d' h' : consistent d -> hinv d h -> ser_js d h = (r, d', h') ->
  (d' = d /\ h' = h /\ ((r = RAttrError /\ h_js h = None) \/
                         (r = RJsMismatch /\ exists j, h_js h = Some j /\ j_version j <> d_js_vf d)))
  \/ (r = ROk /\ (exists j, h_js h = Some j /\ j_version j = d_js_vf d) /\ consistent d' /\ hinv d' h' /\
      cfg_same d d' /\ js_next d d' /\ h_js h' = Some (d_js d') /\ h_cfg h' = h_cfg h /\
      h_host h' = h_host h /\ h_promoted h' = h_promoted h /\ h_hash h' = h_hash h).
Proof.
  intros [Hc Hj] [[Hv [Hh Hjs]] Hs] H. unfold ser_js, chk_js, and_then in H.
  destruct (h_js h) as [j|] eqn:Ej.
  - destruct (j_version j =? d_js_vf d) eqn:E; simpl in H.
    + apply N.eqb_eq in E. right. unfold write_js in H. rewrite Ej in H. injection H as Hr Hd Hh'; subst r d' h'.
      unfold hinv, hinv0, sub_agree, consistent, cfg_same, js_next; simpl.
      repeat split; auto; try lia; try (exists j; auto).
      all: try (apply (Hh c H)).
      all: try (intros j0 X; inversion X; subst; simpl; lia).
    + apply N.eqb_neq in E. left. injection H as Hr Hd Hh'; subst r d' h'. repeat split; auto. right. split; auto. exists j; auto.
  - left. injection H as Hr Hd Hh'; subst r d' h'. repeat split; auto.
Qed.
Definition prom_trans (o : hop) (r : result) (p : bool) : bool :=
  match o, r with HPromote, RBool true => true | HDemote, ROk => false | _, _ => p end.
Definition sub_trans (o : hop) (host : N) (r : result) (s s' : option N) : Prop :=
  match o, r with
  | HPromote, RBool true => s = None /\ s' = Some host
  | HDemote, ROk => s = Some host /\ s' = None
  | _, _ => s' = s
  end.

(* everything the proofs need to know about one action of one handle *)
Definition apost (o : hop) (d : disk) (h : handle) (r : result) (d' : disk) (h' : handle) : Prop :=
  consistent d' /\ dstep_ok d d' /\ hinv d' h' /\ h_host h' = h_host h /\
  (cfg_same d d' \/ (c_version (h_cfg h) = d_cfg_vf d /\ d_cfg d' = h_cfg h')) /\
  (js_same d d' \/ (exists j, h_js h = Some j /\ j_version j = d_js_vf d /\ h_js h' = Some (d_js d'))) /\
  sub_trans o (h_host h) r (c_submitter (d_cfg d)) (c_submitter (d_cfg d')) /\
  h_promoted h' = prom_trans o r (h_promoted h) /\
  (is_exn r = true -> d' = d).

Ltac splits := repeat match goal with |- _ /\ _ => split end.

Lemma cfg_same_refl d : cfg_same d d. Proof. split; reflexivity. Qed.
Lemma js_same_refl d : js_same d d. Proof. split; reflexivity. Qed.
#[local] Hint Resolve cfg_same_refl js_same_refl dstep_ok_refl : core.

(* an action that fails (or does nothing) before touching anything *)
Lemma apost_nop o d h r h' : consistent d -> hinv d h' -> h_host h' = h_host h ->
  h_promoted h' = h_promoted h ->
  ~ (o = HPromote /\ r = RBool true) -> ~ (o = HDemote /\ r = ROk) ->
  apost o d h r d h'.
Proof.
  intros Hc Hi Hh Hp N1 N2. unfold apost. repeat split; auto; try apply Hc; try apply Hi.
  all: destruct o; simpl; auto; destruct r; simpl; auto; try (destruct b; auto); exfalso;
      solve [apply N1; auto | apply N2; auto].
Qed.

Lemma mut_ser_cfg d h c r d' h' : consistent d -> hinv d h ->
  c_version c = c_version (h_cfg h) -> c_submitter c = c_submitter (h_cfg h) ->
  ser_cfg d (h_with_cfg h c) = (r, d', h') ->
  consistent d' /\ dstep_ok d d' /\ hinv d' h' /\ h_host h' = h_host h /\
  (cfg_same d d' \/ (c_version (h_cfg h) = d_cfg_vf d /\ d_cfg d' = h_cfg h')) /\
  js_same d d' /\ c_submitter (d_cfg d') = c_submitter (d_cfg d) /\
  h_promoted h' = h_promoted h /\ h_js h' = h_js h /\ (is_exn r = true -> d' = d) /\
  ((r = ROk /\ c_version (h_cfg h) = d_cfg_vf d) \/ (r = RCfgMismatch /\ c_version (h_cfg h) <> d_cfg_vf d)).
Proof.
  intros Hc [Hi0 Hs] Ev Es H.
  destruct (ser_cfg_spec _ _ _ _ _ Hc (hinv0_mut _ _ _ Hi0 Ev) H)
    as [[-> [-> [-> [Hne Hi]]]] | [-> [Hv [Hc' [Hi' [Hjs [Hcfg [Hd [Hsub [Hh [Hj Hp]]]]]]]]]]]; simpl in *.
  - splits; auto.
    right. split; congruence.
  - splits; auto.
    + destruct Hjs as [A B]. split; [exact Hcfg | left; split; assumption].
    + destruct Hcfg as [Hcfg|Hcfg]; [left; exact Hcfg|right; split; congruence].
    + rewrite Hd, Hsub, Es. apply Hs. congruence.
    + intro; discriminate.
    + left. split; congruence.
Qed.

Lemma hinv_promoted d h b : hinv d h -> hinv d (h_with_promoted h b).
Proof. intros [[A [B C]] D]. split; [split; [|split]|]; simpl; auto. Qed.

Lemma hinv_js_mut d h j : hinv d h -> j_version j <= d_js_vf d -> hinv d (h_with_js h (Some j)).
Proof.
  intros [[A [B C]] D] E. split; [split; [|split]|]; simpl; auto.
  intros j0 X. inversion X; subst. exact E.
Qed.

Lemma hinv_cfg_mut d h c : hinv d h -> c_version c = c_version (h_cfg h) ->
  c_submitter c = c_submitter (h_cfg h) -> hinv d (h_with_cfg h c).
Proof.
  intros [A D] E F. split; [apply hinv0_mut; auto|]. unfold sub_agree in *; simpl. rewrite E, F. exact D.
Qed.

Lemma h_with_cfg_id h : h_with_cfg h (h_cfg h) = h.
Proof. destruct h; reflexivity. Qed.

Lemma set_sub_ser d h s r d' h' : consistent d -> hinv d h ->
  ser_cfg d (h_with_cfg h (cfg_with_submitter (h_cfg h) s)) = (r, d', h') ->
  (r = RCfgMismatch /\ d' = d /\ hinv d h' /\ h_host h' = h_host h /\ h_promoted h' = h_promoted h)
  \/ (r = ROk /\ c_version (h_cfg h) = d_cfg_vf d /\ consistent d' /\ hinv d' h' /\ js_same d d' /\
      (cfg_same d d' \/ cfg_next d d') /\ d_cfg d' = h_cfg h' /\ c_submitter (d_cfg d') = s /\
      c_submitter (d_cfg d) = c_submitter (h_cfg h) /\ h_host h' = h_host h /\
      h_promoted h' = h_promoted h).
Proof.
  intros Hc [Hi0 Hs] H.
  destruct (ser_cfg_spec _ _ _ _ _ Hc (hinv0_mut _ _ (cfg_with_submitter (h_cfg h) s) Hi0 eq_refl) H)
    as [[-> [-> [-> [Hne Hi]]]] | [-> [Hv [Hc' [Hi' [Hjs [Hcfg [Hd [Hsub [Hh [Hj Hp]]]]]]]]]]]; simpl in *.
  - left. splits; auto.
  - right. splits; auto.
    + rewrite Hd, Hsub. reflexivity.
    + symmetry. apply Hs. exact Hv.
Qed.

Lemma act_post o d h r d' h' : consistent d -> hinv d h -> act o d h = (r, d', h') -> apost o d h r d' h'.
Proof.
  intros Hc Hi H. destruct o; simpl in H.
  - (* HPromote *)
    unfold promote in H. destruct (has_submitter h) eqn:Hs.
    + injection H as <- <- <-. apply apost_nop; auto; intros [_ X]; discriminate.
    + destruct (ser_cfg d (h_with_cfg h (cfg_with_submitter (h_cfg h) (Some (h_host h))))) as [[r1 d1] h1] eqn:E.
      destruct (set_sub_ser _ _ _ _ _ _ Hc Hi E)
        as [[-> [-> [Hi1 [Hh Hp]]]] | [-> [Hv [Hc' [Hi' [Hjs [Hcfg [Hd [Hsub [Hds [Hh Hp]]]]]]]]]]].
      * injection H as <- <- <-. apply apost_nop; auto; intros [_ X]; discriminate.
      * injection H as <- <- <-. unfold apost. splits; simpl; auto.
      all: try solve [split; [exact Hcfg | left; exact Hjs]].
      all: try solve [apply hinv_promoted; exact Hi'].
      all: try solve [right; split; [exact Hv | exact Hd]].
      all: try solve [left; exact Hjs].
      all: try solve [split; [rewrite Hds; unfold has_submitter in Hs; destruct (c_submitter (h_cfg h)); [discriminate|reflexivity] | exact Hsub]].
      all: try solve [intro; discriminate].
  - (* HDemote *)
    destruct (am_i_submitter h) eqn:Ha.
    + destruct (ser_cfg d (h_with_cfg h (cfg_with_submitter (h_cfg h) None))) as [[r1 d1] h1] eqn:E.
      destruct (set_sub_ser _ _ _ _ _ _ Hc Hi E)
        as [[-> [-> [Hi1 [Hh Hp]]]] | [-> [Hv [Hc' [Hi' [Hjs [Hcfg [Hd [Hsub [Hds [Hh Hp]]]]]]]]]]].
      * injection H as <- <- <-. apply apost_nop; auto; intros [_ X]; discriminate.
      * injection H as <- <- <-. unfold apost. splits; simpl; auto.
      all: try solve [split; [exact Hcfg | left; exact Hjs]].
      all: try solve [apply hinv_promoted; exact Hi'].
      all: try solve [right; split; [exact Hv | exact Hd]].
      all: try solve [left; exact Hjs].
      all: try solve [split; [rewrite Hds; apply am_i_submitter_eq; exact Ha | exact Hsub]].
      all: try solve [intro; discriminate].
    + injection H as <- <- <-. apply apost_nop; auto; intros [_ X]; discriminate.
  - (* HMarkComplete *)
    destruct (c_complete (h_cfg h)).
    + injection H as <- <- <-. apply apost_nop; auto; intros [X _]; discriminate.
    + apply mut_ser_cfg in H; auto.
      destruct H as [A [B [C [D [E [F [G [I [J [K L]]]]]]]]]]. unfold apost. splits; auto; try solve [left; exact F]; try solve [simpl; congruence].
  - (* HMarkCanceled *)
    apply mut_ser_cfg in H; auto.
    destruct H as [A [B [C [D [E [F [G [I [J [K L]]]]]]]]]]. unfold apost. splits; auto; try solve [left; exact F]; try solve [simpl; congruence].
  - (* HSerialize *)
    rewrite <- (h_with_cfg_id h) in H at 1. apply mut_ser_cfg in H; auto.
    destruct H as [A [B [C [D [E [F [G [I [J [K L]]]]]]]]]]. unfold apost. splits; auto; try solve [left; exact F]; try solve [simpl; congruence].
  - (* HSerializeJobs *)
    destruct (ser_js_spec _ _ _ _ _ Hc Hi H) as [[-> [-> X]] | [-> [[j [Ej Ev]] [Hc' [Hi' [Hcfg [Hjs [Hj' [Hcf [Hh [Hp Hq]]]]]]]]]]].
    + apply apost_nop; auto; intros [Y _]; discriminate.
    + unfold apost. splits; simpl; auto.
    all: try solve [split; [left; exact Hcfg | right; exact Hjs]].
    all: try solve [left; exact Hcfg].
    all: try solve [right; exists j; auto].
    all: try solve [destruct Hcfg as [Q _]; rewrite Q; reflexivity].
    all: try solve [intro; discriminate].
  - (* HUpdate *)
    destruct (h_js h) as [j|] eqn:Ej.
    2:{ injection H as <- <- <-. apply apost_nop; auto; intros [X _]; discriminate. }
    set (j1 := mkJs (j_version j) b ids) in *.
    set (c1 := cfg_with_submitted (h_cfg h) (c_submitted (h_cfg h) + k)) in *.
    assert (Hj1 : j_version j <= d_js_vf d) by (destruct Hi as [[_ [_ X]] _]; apply X; exact Ej).
    assert (Hi0 : hinv d (h_with_js h (Some j1))) by (apply hinv_js_mut; auto).
    assert (Hi1 : hinv d (h_with_cfg (h_with_js h (Some j1)) c1)) by (apply hinv_cfg_mut; auto).
    change (mkH (h_host h) c1 (h_hash h) (Some j1) (h_promoted h)) with (h_with_cfg (h_with_js h (Some j1)) c1) in H.
    unfold and_then at 1 in H. unfold chk_cfg in H. simpl in H.
    destruct (c_version (h_cfg h) =? d_cfg_vf d) eqn:Ev; simpl in H.
    2:{ injection H as <- <- <-. apply apost_nop; auto; intros [X _]; discriminate. }
    unfold and_then at 1 in H. unfold chk_js in H. simpl in H.
    destruct (j_version j =? d_js_vf d) eqn:Evj; simpl in H.
    2:{ injection H as <- <- <-. apply apost_nop; auto; intros [X _]; discriminate. }
    apply N.eqb_eq in Ev, Evj.
    destruct (ser_cfg d (h_with_cfg (h_with_js h (Some j1)) c1)) as [[r1 d1] h1] eqn:E1.
    apply mut_ser_cfg in E1; auto.
    destruct E1 as [A [B [C [D [E [F [G [I [J [K L]]]]]]]]]]. simpl in *.
    destruct L as [[-> _] | [_ X]]; [|contradiction].
    unfold and_then in H.
    destruct (ser_js_spec _ _ _ _ _ A C H) as [[-> [-> X]] | [-> [[j2 [Ej2 Ev2]] [Hc' [Hi' [Hcfg [Hjs [Hj' [Hcf [Hh [Hp Hq]]]]]]]]]]].
    + exfalso. rewrite J in X. destruct X as [[_ X]|[_ [j2 [X Y]]]]; [discriminate|].
      inversion X; subst j2. apply Y. simpl. destruct F as [_ F]. rewrite F. exact Evj.
    + unfold apost. splits; auto.
    all: try solve [destruct Hcfg as [Q1 Q2]; destruct F as [F1 F2]; destruct B as [B _]; destruct Hjs as [S1 S2]; split;
                    [destruct B as [[B1 B2]|[B1 B2]]; [left; split; congruence|right; split; congruence] | right; split; congruence]].
    all: try solve [congruence].
    all: try solve [destruct Hcfg as [Q1 Q2]; destruct E as [[E1 E2]|[E1 E2]]; [left; split; congruence|right; split; congruence]].
    all: try solve [right; exists j; splits; auto].
    all: try solve [simpl; destruct Hcfg as [Q1 Q2]; rewrite Q1; exact G].
    all: try solve [simpl; congruence].
    all: try solve [intro; discriminate].
  - (* HCompleteHpc *)
    destruct (h_js h) as [j|] eqn:Ej.
    2:{ injection H as <- <- <-. apply apost_nop; auto; intros [X _]; discriminate. }
    destruct (remove_first id (j_ids j)) as [ids'|].
    2:{ injection H as <- <- <-. apply apost_nop; auto; intros [X _]; discriminate. }
    assert (Hj1 : j_version j <= d_js_vf d) by (destruct Hi as [[_ [_ X]] _]; apply X; exact Ej).
    assert (Hi0 : hinv d (h_with_js h (Some (mkJs (j_version j) (j_batch j) ids')))) by (apply hinv_js_mut; auto).
    destruct (ser_js_spec _ _ _ _ _ Hc Hi0 H) as [[-> [-> X]] | [-> [[j2 [Ej2 Ev2]] [Hc' [Hi' [Hcfg [Hjs [Hj' [Hcf [Hh [Hp Hq]]]]]]]]]]].
    + apply apost_nop; auto; intros [Y _]; discriminate.
    + simpl in *. inversion Ej2; subst j2. simpl in Ev2. unfold apost. splits; simpl; auto.
    all: try solve [split; [left; exact Hcfg | right; exact Hjs]].
    all: try solve [left; exact Hcfg].
    all: try solve [right; exists j; auto].
    all: try solve [destruct Hcfg as [Q _]; rewrite Q; reflexivity].
    all: try solve [intro; discriminate].
  - (* HReloadJobs *)
    injection H as <- <- <-. apply apost_nop; auto; try (intros [X _]; discriminate).
    apply hinv_js_mut; auto. destruct Hc as [_ X]. rewrite X. apply N.le_refl.
  - (* HPrepMutate *)
    destruct (c_complete (h_cfg h)).
    + destruct (h_js h); injection H as <- <- <-; (apply apost_nop; auto; try (intros [X _]; discriminate));
        apply hinv_cfg_mut; auto.
    + injection H as <- <- <-. apply apost_nop; auto; intros [X _]; discriminate.
  - (* HCheckCfgNL *)
    unfold chk_cfg in H. destruct (negb _); injection H as <- <- <-; apply apost_nop; auto; intros [X _]; discriminate.
  - (* HCheckJsNL *)
    unfold chk_js in H. destruct (h_js h); [destruct (negb _)|]; injection H as <- <- <-; apply apost_nop; auto; intros [X _]; discriminate.
  - (* HSerializeNL *)
    rewrite <- (h_with_cfg_id h) in H at 1. apply mut_ser_cfg in H; auto.
    destruct H as [A [B [C [D [E [F [G [I [J [K L]]]]]]]]]]. unfold apost. splits; auto; try solve [left; exact F]; try solve [simpl; congruence].
  - (* HSerializeJobsNL *)
    destruct (ser_js_spec _ _ _ _ _ Hc Hi H) as [[-> [-> X]] | [-> [[j [Ej Ev]] [Hc' [Hi' [Hcfg [Hjs [Hj' [Hcf [Hh [Hp Hq]]]]]]]]]]].
    + apply apost_nop; auto; intros [Y _]; discriminate.
    + unfold apost. splits; simpl; auto.
    all: try solve [split; [left; exact Hcfg | right; exact Hjs]].
    all: try solve [left; exact Hcfg].
    all: try solve [right; exists j; auto].
    all: try solve [destruct Hcfg as [Q _]; rewrite Q; reflexivity].
    all: try solve [intro; discriminate].
Qed.

(* ---------- lists of handles ---------- *)
Lemma upd_length {A} (l : list A) i x : length (upd l i x) = length l.
Proof. revert i; induction l; intros [|i]; simpl; auto. Qed.

Lemma nth_error_upd_eq {A} (l : list A) i x y : nth_error l i = Some y -> nth_error (upd l i x) i = Some x.
Proof. revert i; induction l; intros [|i]; simpl; intros; try discriminate; auto. Qed.

Lemma nth_error_upd_neq {A} (l : list A) i k x : i <> k -> nth_error (upd l i x) k = nth_error l k.
Proof.
  revert i k; induction l; intros [|i] [|k]; simpl; intros; auto; try congruence.
Qed.

Lemma Forall_upd {A} (P : A -> Prop) l i x : Forall P l -> P x -> Forall P (upd l i x).
Proof.
  revert i; induction l; intros [|i] Hl Hx; simpl; auto; inversion Hl; subst; constructor; auto.
Qed.

Lemma Forall_nth {A} (P : A -> Prop) l i x : Forall P l -> nth_error l i = Some x -> P x.
Proof. intros Hl Hn. rewrite Forall_forall in Hl. apply Hl. eapply nth_error_In; eauto. Qed.

Lemma nth_error_snoc {A} (l : list A) x k y : nth_error (l ++ [x]) k = Some y ->
  (k < length l /\ nth_error l k = Some y)%nat \/ (k = length l /\ y = x).
Proof.
  intro H. destruct (Nat.lt_ge_cases k (length l)) as [L|L].
  - left. split; auto. rewrite nth_error_app1 in H; auto.
  - right. rewrite nth_error_app2 in H; auto.
    destruct (k - length l)%nat eqn:E; simpl in H.
    + inversion H; subst. split; auto. apply Nat.le_antisymm; auto. apply Nat.sub_0_le; auto.
    + destruct n; discriminate.
Qed.

(* ---------- the state invariant ---------- *)
Definition sinv (s : state) : Prop := consistent (s_disk s) /\ Forall (hinv (s_disk s)) (s_handles s).

Definition fresh_handle (host : N) (d : disk) : handle := mkH host (d_cfg d) None None false.

Lemma fresh_hinv host d : consistent d -> hinv d (fresh_handle host d).
Proof.
  intros [Hc Hj]. split; [split; [|split]|]; simpl.
  - rewrite Hc. apply N.le_refl.
  - intros c X; discriminate.
  - intros j X; discriminate.
  - intro; reflexivity.
Qed.

(* what Cluster._deserialize does with the fresh handle before the jobs are read *)
Definition load_act (p : bool) (d : disk) (h0 : handle) : result * disk * handle :=
  if p then promote d h0 else (RBool false, d, h0).

Lemma load_act_post p d h0 r d1 h1 : consistent d -> hinv d h0 -> load_act p d h0 = (r, d1, h1) ->
  apost HPromote d h0 r d1 h1.
Proof.
  intros Hc Hi H. destruct p; simpl in H.
  - apply (act_post HPromote); auto.
  - injection H as <- <- <-. apply apost_nop; auto; intros [_ X]; discriminate.
Qed.

Lemma Forall_frame d d' l : consistent d -> dstep_ok d d' -> Forall (hinv d) l -> Forall (hinv d') l.
Proof.
  intros Hc Hd Hl. rewrite Forall_forall in *. intros h Hin. eapply hinv_frame; eauto.
Qed.

Lemma step_load_eq s host p j :
  step s (Load host p j) =
  if s_wedged s then (RBlocked, s)
  else let '(r, d1, h1) := load_act p (s_disk s) (fresh_handle host (s_disk s)) in
       if is_exn r then (r, mkS d1 true (s_handles s))
       else let h2 := if j then h_with_js h1 (Some (d_js d1)) else h1 in
            (RLoaded (length (s_handles s)) (h_promoted h2), mkS d1 false (s_handles s ++ [h2])).
Proof. reflexivity. Qed.

Lemma step_sinv s o : sinv s -> sinv (snd (step s o)).
Proof.
  intros [Hc Hl]. destruct o as [host p j | i o |].
  - rewrite step_load_eq. destruct (s_wedged s); [split; auto|].
    destruct (load_act p (s_disk s) (fresh_handle host (s_disk s))) as [[r d1] h1] eqn:E.
    pose proof (load_act_post _ _ _ _ _ _ Hc (fresh_hinv host _ Hc) E) as [A [B [C _]]].
    destruct (is_exn r); simpl.
    + split; auto. simpl. apply (Forall_frame (s_disk s)); auto.
    + split; auto. simpl. apply Forall_app. split; [apply (Forall_frame (s_disk s)); auto|].
      constructor; [|constructor]. destruct j; auto.
      apply hinv_js_mut; auto. destruct A as [_ X]. rewrite X. apply N.le_refl.
  - simpl. destruct (nth_error (s_handles s) i) as [h|] eqn:En; [|split; auto].
    destruct (locked o && s_wedged s); [split; auto|].
    destruct (act o (s_disk s) h) as [[r d'] h'] eqn:E. simpl.
    pose proof (act_post _ _ _ _ _ _ Hc (Forall_nth _ _ _ _ Hl En) E) as [A [B [C _]]].
    split; auto. simpl. apply Forall_upd; auto. apply (Forall_frame (s_disk s)); auto.
  - simpl. split; auto.
Qed.

Lemma run_sinv ops : forall s, sinv s -> sinv (run s ops).
Proof. induction ops; simpl; intros; auto. apply IHops. apply step_sinv; auto. Qed.

Lemma create_sinv host : sinv (create host).
Proof.
  unfold create, sinv; simpl. split; [split; reflexivity|].
  constructor; [|constructor]. split; [split; [|split]|]; simpl.
  - apply N.le_refl.
  - intros c X; inversion X; subst; simpl; auto.
  - intros j X; inversion X; subst; simpl. apply N.le_refl.
  - intro; reflexivity.
Qed.

(* ---------- the submitter role ---------- *)
Definition role_inv (s : state) : Prop :=
  let sub := c_submitter (d_cfg (s_disk s)) in
  (forall i h, nth_error (s_handles s) i = Some h -> h_promoted h = true -> sub = Some (h_host h)) /\
  (forall i j hi hj, nth_error (s_handles s) i = Some hi -> nth_error (s_handles s) j = Some hj ->
                     h_promoted hi = true -> h_promoted hj = true -> i = j) /\
  (forall x, sub = Some x -> exists i h, nth_error (s_handles s) i = Some h /\ h_promoted h = true /\ h_host h = x).

Lemma trans_cases o r : (o = HPromote /\ r = RBool true) \/ (o = HDemote /\ r = ROk) \/
  (forall host s s' p, (sub_trans o host r s s' -> s' = s) /\ prom_trans o r p = p).
Proof.
  destruct o; try (right; right; intros; split; [intro X; exact X|reflexivity]).
  - destruct r; try (right; right; intros; split; [intro X; exact X|reflexivity]).
    destruct b; [left; auto|right; right; intros; split; [intro X; exact X|reflexivity]].
  - destruct r; try (right; right; intros; split; [intro X; exact X|reflexivity]).
    right; left; auto.
Qed.

Lemma nth_upd_cases {A} (l : list A) i k x y z : nth_error l i = Some z -> nth_error (upd l i x) k = Some y ->
  (k = i /\ y = x) \/ (k <> i /\ nth_error l k = Some y).
Proof.
  intros Hi Hk. destruct (Nat.eq_dec k i) as [->|N].
  - left. rewrite (nth_error_upd_eq _ _ _ _ Hi) in Hk. inversion Hk; auto.
  - right. rewrite nth_error_upd_neq in Hk; auto.
Qed.

Lemma role_step_do d w l d' w' i h h' o r :
  role_inv (mkS d w l) -> nth_error l i = Some h -> h_host h' = h_host h ->
  sub_trans o (h_host h) r (c_submitter (d_cfg d)) (c_submitter (d_cfg d')) ->
  h_promoted h' = prom_trans o r (h_promoted h) ->
  (o = HDemote -> h_promoted h = true) ->
  role_inv (mkS d' w' (upd l i h')).
Proof.
  unfold role_inv; simpl. intros [H1 [H2 H3]] Hn Hh Hs Hp Hg.
  destruct (trans_cases o r) as [[-> ->] | [[-> ->] | Hother]]; simpl in Hs, Hp.
  - (* successful promotion *)
    destruct Hs as [Hs Hs'].
    assert (Hnone : forall k hk, nth_error l k = Some hk -> h_promoted hk = true -> False).
    { intros k hk A B. specialize (H1 k hk A B). congruence. }
    split; [|split].
    + intros k hk A B. destruct (nth_upd_cases _ _ _ _ _ _ Hn A) as [[-> ->]|[N A']].
      * congruence.
      * exfalso; eauto.
    + intros k1 k2 a b A1 A2 B1 B2.
      destruct (nth_upd_cases _ _ _ _ _ _ Hn A1) as [[-> ->]|[N1 A1']]; [|exfalso; eauto].
      destruct (nth_upd_cases _ _ _ _ _ _ Hn A2) as [[-> ->]|[N2 A2']]; [reflexivity|exfalso; eauto].
    + intros x X. exists i, h'. split; [eapply nth_error_upd_eq; eauto|]. split; [auto|congruence].
  - (* successful demotion *)
    destruct Hs as [Hs Hs']. specialize (Hg eq_refl).
    assert (Hnone : forall k hk, nth_error (upd l i h') k = Some hk -> h_promoted hk = true -> False).
    { intros k hk A B. destruct (nth_upd_cases _ _ _ _ _ _ Hn A) as [[-> ->]|[N A']].
      - congruence.
      - apply N. eapply H2; eauto. }
    split; [|split].
    + intros k hk A B. exfalso; eauto.
    + intros k1 k2 a b A1 A2 B1 B2. exfalso; eauto.
    + intros x X. congruence.
  - (* anything else: role and disk field untouched *)
    destruct (Hother (h_host h) (c_submitter (d_cfg d)) (c_submitter (d_cfg d')) (h_promoted h)) as [Q1 Q2].
    specialize (Q1 Hs). rewrite Q2 in Hp. rewrite Q1.
    assert (Hold : forall k hk, nth_error (upd l i h') k = Some hk -> h_promoted hk = true ->
                   exists hk', nth_error l k = Some hk' /\ h_promoted hk' = true /\ h_host hk' = h_host hk).
    { intros k hk A B. destruct (nth_upd_cases _ _ _ _ _ _ Hn A) as [[-> ->]|[N A']].
      - exists h. repeat split; auto; congruence.
      - exists hk. auto. }
    split; [|split].
    + intros k hk A B. destruct (Hold k hk A B) as [hk' [X [Y Z]]]. rewrite <- Z. eauto.
    + intros k1 k2 a b A1 A2 B1 B2.
      destruct (Hold k1 a A1 B1) as [a' [X1 [Y1 _]]]. destruct (Hold k2 b A2 B2) as [b' [X2 [Y2 _]]]. eauto.
    + intros x X. destruct (H3 x X) as [k [hk [A [B C]]]].
      destruct (Nat.eq_dec k i) as [->|N].
      * exists i, h'. split; [eapply nth_error_upd_eq; eauto|]. split; congruence.
      * exists k, hk. split; [rewrite nth_error_upd_neq; auto|]. auto.
Qed.

Lemma role_append d w l h0 : role_inv (mkS d w l) -> h_promoted h0 = false -> role_inv (mkS d w (l ++ [h0])).
Proof.
  unfold role_inv; simpl. intros [H1 [H2 H3]] Hp.
  assert (Hold : forall k hk, nth_error (l ++ [h0]) k = Some hk -> h_promoted hk = true -> nth_error l k = Some hk).
  { intros k hk A B. destruct (nth_error_snoc _ _ _ _ A) as [[_ X]|[_ ->]]; [auto|congruence]. }
  split; [|split].
  - intros k hk A B. eauto.
  - intros k1 k2 a b A1 A2 B1 B2. eauto.
  - intros x X. destruct (H3 x X) as [k [hk [A [B C]]]]. exists k, hk. split; auto.
    rewrite nth_error_app1; auto. apply nth_error_Some. congruence.
Qed.

Lemma upd_snoc {A} (l : list A) x y : upd (l ++ [x]) (length l) y = l ++ [y].
Proof. induction l; simpl; auto. rewrite IHl. reflexivity. Qed.

Lemma role_wedge d w w' l : role_inv (mkS d w l) -> role_inv (mkS d w' l).
Proof. auto. Qed.

Lemma role_same_sub d d' w w' l : c_submitter (d_cfg d') = c_submitter (d_cfg d) ->
  role_inv (mkS d w l) -> role_inv (mkS d' w' l).
Proof. unfold role_inv; simpl. intros ->. auto. Qed.

Lemma step_role s o : sinv s -> role_inv s -> demote_guard s o = true -> role_inv (snd (step s o)).
Proof.
  intros [Hc Hl] Hr Hg. destruct s as [d w l]; simpl in *. destruct o as [host p j | i o |].
  - rewrite step_load_eq; simpl. destruct w; [exact Hr|].
    destruct (load_act p d (fresh_handle host d)) as [[r d1] h1] eqn:E.
    pose proof (load_act_post _ _ _ _ _ _ Hc (fresh_hinv host _ Hc) E) as [A [B [C [D [_ [_ [F [G I]]]]]]]].
    simpl in *. destruct (is_exn r) eqn:Ex; simpl.
    + rewrite (I eq_refl). exact Hr.
    + assert (R0 : role_inv (mkS d false (l ++ [fresh_handle host d]))) by (apply role_append; auto).
      assert (Hn : nth_error (l ++ [fresh_handle host d]) (length l) = Some (fresh_handle host d))
        by (rewrite nth_error_app2, Nat.sub_diag; auto).
      rewrite <- (upd_snoc l (fresh_handle host d)).
      eapply (role_step_do _ _ _ _ _ _ _ _ HPromote r R0 Hn); simpl; auto.
      * destruct j; simpl; auto.
      * destruct j; simpl; auto.
      * intro; discriminate.
  - simpl. destruct (nth_error l i) as [h|] eqn:En; [|exact Hr].
    destruct (locked o && w); [exact Hr|].
    destruct (act o d h) as [[r d'] h'] eqn:E. simpl.
    pose proof (act_post _ _ _ _ _ _ Hc (Forall_nth _ _ _ _ Hl En) E) as [A [B [C [D [_ [_ [F [G I]]]]]]]].
    eapply role_step_do; eauto. intros ->. simpl in Hg. rewrite En in Hg. exact Hg.
  - exact Hr.
Qed.

Lemma run_role ops : forall s, sinv s -> role_inv s -> protocol_ok s ops = true ->
  sinv (run s ops) /\ role_inv (run s ops).
Proof.
  induction ops as [|o ops IH]; simpl; intros s Hs Hr Hp; auto.
  apply andb_prop in Hp. destruct Hp as [Hg Hp].
  apply IH; auto using step_sinv, step_role.
Qed.

Lemma create_role host : role_inv (create host).
Proof.
  unfold create, role_inv; simpl. split; [|split].
  - intros [|[|i]] h X Y; simpl in X; try discriminate. inversion X; subst; reflexivity.
  - intros [|[|i]] [|[|j]] a b X1 X2; simpl in *; try discriminate; auto.
  - intros x X. inversion X; subst. exists 0%nat. eexists. split; [reflexivity|]. split; reflexivity.
Qed.

Theorem single_holder : forall host ops,
  protocol_ok (create host) ops = true -> role_inv (run (create host) ops).
Proof.
  intros host ops Hp. apply run_role; auto using create_sinv, create_role.
Qed.
