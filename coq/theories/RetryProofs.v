From Coq Require Import String List ZArith NArith Bool Arith Lia.
From Jade Require Import Base Retry.
Import ListNotations.

(* attempt j does not end the loop *)
Definition continues (capture : bool) (errs : list string) (o : outcome) : Prop :=
  o_ret o <> 0%Z /\ (capture && should_exit_early (o_stderr o) errs) = false.

Lemma retry_go_spec capture errs outs : forall fuel k m o,
  retry_go capture errs outs fuel k = (m, o) ->
  k < m <= k + fuel + 1 /\ o = outs (m - 1) /\
  (o_ret o = 0%Z \/ (capture && should_exit_early (o_stderr o) errs) = true \/ m = k + fuel + 1) /\
  (forall j, k <= j < m - 1 -> continues capture errs (outs j)).
Proof.
  induction fuel as [|f IH]; intros k m o H; cbn [retry_go] in H.
  - inversion H; subst. replace (S k - 1) with k by lia.
    split; [lia|]. split; [reflexivity|]. split; [right; right; lia|]. intros j Hj. lia.
  - destruct (o_ret (outs k) =? 0)%Z eqn:E0.
    + inversion H; subst. replace (S k - 1) with k by lia. apply Z.eqb_eq in E0.
      split; [lia|]. split; [reflexivity|]. split; [left; exact E0|]. intros j Hj; lia.
    + destruct (capture && should_exit_early (o_stderr (outs k)) errs) eqn:E1.
      * inversion H; subst. replace (S k - 1) with k by lia.
        split; [lia|]. split; [reflexivity|]. split; [right; left; exact E1|]. intros j Hj; lia.
      * apply IH in H. destruct H as [H1 [H2 [H3 H4]]].
        split; [lia|]. split; [exact H2|]. split.
        { destruct H3 as [H3|[H3|H3]]; [left; exact H3|right; left; exact H3|right; right; lia]. }
        intros j Hj. destruct (Nat.eq_dec j k) as [->|Hne].
        -- split; [apply Z.eqb_neq; exact E0|exact E1].
        -- apply H4. lia.
Qed.

(* full characterisation of what run_command does *)
Lemma run_command_spec n capture errs outs m o :
  run_command n capture errs outs = (m, o) ->
  1 <= m <= n + 1 /\ o = outs (m - 1) /\
  (o_ret o = 0%Z \/ (capture && should_exit_early (o_stderr o) errs) = true \/ m = n + 1) /\
  (forall j, j < m - 1 -> continues capture errs (outs j)).
Proof.
  unfold run_command. intros H. apply retry_go_spec in H. destruct H as [H1 [H2 [H3 H4]]].
  split; [lia|]. split; [exact H2|]. split.
  - destruct H3 as [H3|[H3|H3]]; [auto|auto|right; right; lia].
  - intros j Hj. apply H4; lia.
Qed.

Lemma retry_go_stops capture errs outs : forall fuel k i,
  k <= i <= k + fuel ->
  (forall j, k <= j < i -> continues capture errs (outs j)) ->
  (i = k + fuel \/ o_ret (outs i) = 0%Z \/ (capture && should_exit_early (o_stderr (outs i)) errs) = true) ->
  retry_go capture errs outs fuel k = (S i, outs i).
Proof.
  induction fuel as [|f IH]; intros k i Hi Hc Hs; cbn [retry_go].
  - assert (i = k) by lia. subst. reflexivity.
  - destruct (Nat.eq_dec i k) as [->|Hne].
    + destruct Hs as [Hs|[Hs|Hs]]; [lia| |].
      * rewrite Hs. reflexivity.
      * destruct (o_ret (outs k) =? 0)%Z; [reflexivity|]. rewrite Hs. reflexivity.
    + destruct (Hc k) as [Hr He]; [lia|]. apply Z.eqb_neq in Hr. rewrite Hr, He.
      apply IH; [lia| |].
      * intros j Hj. apply Hc. lia.
      * destruct Hs as [Hs|Hs]; [left; lia|right; exact Hs].
Qed.

(* stops at the first success: exactly i+1 executions *)
Lemma run_command_first_success n capture errs outs i :
  i <= n -> o_ret (outs i) = 0%Z ->
  (forall j, j < i -> continues capture errs (outs j)) ->
  run_command n capture errs outs = (S i, outs i).
Proof.
  intros Hi Hs Hc. unfold run_command. apply retry_go_stops; [lia| |auto].
  intros j Hj. apply Hc. lia.
Qed.

(* stops at the first listed permanent error when output is captured *)
Lemma run_command_permanent_error n errs outs i :
  i <= n -> should_exit_early (o_stderr (outs i)) errs = true ->
  (forall j, j < i -> continues true errs (outs j)) ->
  run_command n true errs outs = (S i, outs i).
Proof.
  intros Hi Hs Hc. unfold run_command. apply retry_go_stops; [lia| |].
  - intros j Hj. apply Hc. lia.
  - right; right. cbn. exact Hs.
Qed.

(* otherwise exactly num_retries + 1 executions, result of the last one *)
Lemma run_command_exhausts n capture errs outs :
  (forall j, j < n -> continues capture errs (outs j)) ->
  run_command n capture errs outs = (S n, outs n).
Proof.
  intros Hc. unfold run_command. apply retry_go_stops; [lia| |left; lia].
  intros j Hj. apply Hc. lia.
Qed.

Lemma run_command_api_rejects n errs outs e :
  run_command_api n false (e :: errs) outs = RcInvalidParameter.
Proof. reflexivity. Qed.
