(* Proofs about Cancel.v (C04). *)
From Coq Require Import String List ZArith NArith Bool Arith Lia.
From Jade Require Import Base Cancel.
From Jade.Gen Require Import ResultGen.
Import ListNotations.
Open Scope bool_scope.
Open Scope list_scope.

(* ------------------------------------------------------------------------------------------ *)
(* facts about the generated constants (re-checked against /repo on every run)                  *)
Lemma sub_is_failure_spec rc : sub_is_failure rc = negb (Z.eqb rc 0).
Proof. reflexivity. Qed.
Lemma node_is_failure_spec rc : node_is_failure rc = negb (Z.eqb rc 0).
Proof. reflexivity. Qed.
Lemma sub_cancel_row_canceled n : is_canceled (r_rc (sub_cancel_row n)) (r_status (sub_cancel_row n)) = true.
Proof. reflexivity. Qed.
Lemma node_cancel_row_canceled n : is_canceled (r_rc (node_cancel_row n)) (r_status (node_cancel_row n)) = true.
Proof. reflexivity. Qed.
Lemma sub_cancel_rc_failure : sub_is_failure sub_cancel_rc = true /\ node_is_failure sub_cancel_rc = true /\ sub_cancel_rc <> 0%Z.
Proof. repeat split; try reflexivity; discriminate. Qed.
Lemma node_cancel_rc_failure : sub_is_failure node_cancel_rc = true /\ node_is_failure node_cancel_rc = true /\ node_cancel_rc <> 0%Z.
Proof. repeat split; try reflexivity; discriminate. Qed.
Lemma finish_row_not_canceled n rc : is_canceled (r_rc (finish_row n rc)) (r_status (finish_row n rc)) = false.
Proof. unfold is_canceled, finish_row; cbn [r_rc r_status]. destruct (Z.eqb rc 0); reflexivity. Qed.

Lemma row_outcome_finish n rc : row_outcome (finish_row n rc) = Finished rc.
Proof. unfold row_outcome. rewrite finish_row_not_canceled. reflexivity. Qed.
Lemma row_outcome_sub_cancel n : row_outcome (sub_cancel_row n) = Canceled.
Proof. reflexivity. Qed.
Lemma row_outcome_node_cancel n : row_outcome (node_cancel_row n) = Canceled.
Proof. reflexivity. Qed.

(* the rows JADE writes: a finish row with the process' exit status, or one of the two canceled records *)
Inductive jade_row : row -> Prop :=
| JR_finish n rc : jade_row (finish_row n rc)
| JR_sub_cancel n : jade_row (sub_cancel_row n)
| JR_node_cancel n : jade_row (node_cancel_row n).

Definition b2n (b : bool) : nat := if b then 1 else 0.
Lemma classification_exact r :
  jade_row r ->
  b2n (is_successful (r_rc r) (r_status r)) + b2n (is_failed (r_rc r) (r_status r)) + b2n (is_canceled (r_rc r) (r_status r)) = 1.
Proof.
  intros H. destruct H as [n rc|n|n]; try reflexivity.
  unfold is_successful, is_failed, is_canceled, finish_row; cbn [r_rc r_status].
  destruct (Z.eqb rc 0); reflexivity.
Qed.
Lemma classification_matches_outcome r :
  jade_row r ->
  (is_canceled (r_rc r) (r_status r) = true <-> row_outcome r = Canceled) /\
  (is_failed (r_rc r) (r_status r) = true <-> exists rc, row_outcome r = Finished rc /\ rc <> 0%Z) /\
  (is_successful (r_rc r) (r_status r) = true <-> row_outcome r = Finished 0).
Proof.
  intros H. destruct H as [n rc|n|n].
  - rewrite row_outcome_finish.
    unfold is_successful, is_failed, is_canceled, finish_row; cbn [r_rc r_status].
    destruct (Z.eqb_spec rc 0) as [E|E]; cbn; repeat split; intros H; try discriminate; try reflexivity.
    + destruct H as [x [H1 H2]]. inversion H1; subst. congruence.
    + subst; reflexivity.
    + exists rc. split; [reflexivity|exact E].
    + inversion H. congruence.
  - repeat split; intros H; try reflexivity; try discriminate. destruct H as [x [H1 _]]; discriminate.
  - repeat split; intros H; try reflexivity; try discriminate. destruct H as [x [H1 _]]; discriminate.
Qed.

(* ------------------------------------------------------------------------------------------ *)
(* reference                                                                                    *)
Lemma existsb_ext_in {A} (f g : A -> bool) l : (forall x, In x l -> f x = g x) -> existsb f l = existsb g l.
Proof.
  induction l as [|a l IH]; cbn; intros H; [reflexivity|].
  rewrite (H a (or_introl eq_refl)), IH; [reflexivity|]. intros x Hx. apply H. right. exact Hx.
Qed.

Lemma find_job_some sc n j : find_job sc n = Some j -> In j sc /\ jname j = n.
Proof.
  induction sc as [|a sc IH]; cbn; [discriminate|].
  destruct (N.eqb_spec (jname a) n) as [E|E]; intros H.
  - inversion H; subst. split; [left; reflexivity|reflexivity].
  - destruct (IH H) as [H1 H2]. split; [right; exact H1|exact H2].
Qed.
Lemma find_job_in sc j : In j sc -> exists j', find_job sc (jname j) = Some j'.
Proof.
  induction sc as [|a sc IH]; cbn; [intros []|]. intros [->|H].
  - rewrite N.eqb_refl. eauto.
  - destruct (N.eqb (jname a) (jname j)); eauto.
Qed.

(* acyclic dependency graph, given by a topological numbering bounded by the number of jobs *)
Definition topo_numbering (sc : scenario) (rank : N -> nat) : Prop :=
  forall j, In j sc -> rank (jname j) < length sc /\ forall d, In d (jdeps j) -> rank d < rank (jname j).
Definition acyclic (sc : scenario) : Prop := exists rank, topo_numbering sc rank.

Lemma ref_fuel_stable sc rank : topo_numbering sc rank ->
  forall f1 f2 n, rank n < f1 -> rank n < f2 -> ref_fuel f1 sc n = ref_fuel f2 sc n.
Proof.
  intros T. induction f1 as [|f1 IH]; intros f2 n H1 H2; [lia|].
  destruct f2 as [|f2]; [lia|]. cbn.
  destruct (find_job sc n) as [j|] eqn:F; [|reflexivity].
  destruct (find_job_some _ _ _ F) as [Hin Hn]. subst n.
  destruct (T j Hin) as [_ Hd].
  rewrite (existsb_ext_in (fun d => bad (ref_fuel f1 sc d)) (fun d => bad (ref_fuel f2 sc d))); [reflexivity|].
  intros d Hdin. specialize (Hd d Hdin). rewrite (IH f2 d); [reflexivity|lia|lia].
Qed.

Theorem reference_step sc : acyclic sc -> forall n j, find_job sc n = Some j ->
  reference sc n = if jflag j && existsb (fun d => bad (reference sc d)) (jdeps j) then Canceled else Finished (jrc j).
Proof.
  intros [rank T] n j F. unfold reference.
  destruct (find_job_some _ _ _ F) as [Hin Hn]. subst n.
  destruct (T j Hin) as [Hlt Hd].
  destruct (length sc) as [|L] eqn:EL; [lia|].
  cbn [ref_fuel]. rewrite F.
  rewrite (existsb_ext_in (fun d => bad (ref_fuel L sc d)) (fun d => bad (ref_fuel (S L) sc d))); [reflexivity|].
  intros d Hdin. specialize (Hd d Hdin). rewrite (ref_fuel_stable sc rank T L (S L) d); [reflexivity|lia|lia].
Qed.

Corollary reference_canceled_iff sc : acyclic sc -> forall n j, find_job sc n = Some j ->
  (reference sc n = Canceled <-> jflag j = true /\ exists d, In d (jdeps j) /\ bad (reference sc d) = true).
Proof.
  intros A n j F. rewrite (reference_step sc A n j F).
  destruct (jflag j); cbn [andb].
  - destruct (existsb _ _) eqn:E.
    + apply existsb_exists in E. split; [intros _; split; [reflexivity|exact E]|reflexivity].
    + split; [discriminate|]. intros [_ [d [H1 H2]]].
      assert (X : existsb (fun d => bad (reference sc d)) (jdeps j) = true) by (apply existsb_exists; eauto). congruence.
  - split; [discriminate|]. intros [H _]; discriminate.
Qed.
Corollary reference_unflagged sc : acyclic sc -> forall n j, find_job sc n = Some j -> jflag j = false ->
  reference sc n = Finished (jrc j).
Proof. intros A n j F H. rewrite (reference_step sc A n j F), H. reflexivity. Qed.

(* ------------------------------------------------------------------------------------------ *)
(* (a) submitter level: termination                                                             *)
Definition waiting (j : cjob) : bool := jstate_eqb (c_state j) NOT_SUBMITTED.
Definition n_waiting (jobs : list cjob) : nat := length (filter waiting jobs).

Lemma meets_spec a b : meets a b = true <-> exists x, In x a /\ In x b.
Proof.
  unfold meets. rewrite existsb_exists. split; intros [x [H1 H2]]; exists x; split; auto; apply memN_In; auto.
Qed.

Lemma uc_job_canceled failed newly j j' : uc_job failed newly j = (j', true) ->
  c_state j = NOT_SUBMITTED /\ c_blocked j <> [] /\ c_flag j = true /\ meets (c_blocked j) failed = true /\
  j' = {| c_name := c_name j; c_blocked := []; c_flag := c_flag j; c_state := DONE |}.
Proof.
  unfold uc_job. destruct (c_state j); destruct (c_blocked j) as [|b bl] eqn:B; try (intros H; inversion H; fail).
  destruct (c_flag j); cbn [andb]; [|intros H; inversion H].
  destruct (meets (b :: bl) failed) eqn:M; intros H; inversion H; subst.
  repeat split; auto; discriminate.
Qed.
Lemma uc_job_kept failed newly j j' : uc_job failed newly j = (j', false) ->
  c_name j' = c_name j /\ c_flag j' = c_flag j /\ c_state j' = c_state j /\
  ((c_state j = NOT_SUBMITTED /\ c_blocked j <> [] /\ (c_flag j && meets (c_blocked j) failed = false)
    /\ c_blocked j' = diffN (c_blocked j) newly) \/
   ((c_state j <> NOT_SUBMITTED \/ c_blocked j = []) /\ j' = j)).
Proof.
  unfold uc_job. destruct (c_state j) eqn:S; destruct (c_blocked j) as [|b bl] eqn:B;
    try (intros H; inversion H; subst; repeat split; auto; right; split; auto; (left; congruence) || (right; reflexivity); fail).
  destruct (c_flag j && meets (b :: bl) failed) eqn:M; intros H; inversion H; subst; cbn.
  repeat split; auto. left. repeat split; auto. discriminate.
Qed.
Lemma uc_job_name failed newly j : c_name (fst (uc_job failed newly j)) = c_name j.
Proof.
  unfold uc_job. destruct (c_state j); destruct (c_blocked j); try reflexivity.
  destruct (c_flag j && meets (n :: l) failed); reflexivity.
Qed.

Lemma uc_iter_waiting feed pending st : let (st', canc) := uc_iter feed pending st in
  n_waiting (u_jobs st') + length canc = n_waiting (u_jobs st).
Proof.
  unfold uc_iter. cbn [u_jobs]. unfold n_waiting.
  set (failed := failed_of (feed ++ pending)). set (newly := u_newly st ++ names_of (feed ++ pending)).
  induction (u_jobs st) as [|j jobs IH]; [reflexivity|].
  cbn [map filter].
  destruct (uc_job failed newly j) as [j' b] eqn:E. cbn [fst snd].
  destruct b.
  - destruct (uc_job_canceled _ _ _ _ E) as [S [_ [_ [_ ->]]]].
    assert (W1 : waiting {| c_name := c_name j; c_blocked := []; c_flag := c_flag j; c_state := DONE |} = false) by reflexivity.
    assert (W2 : waiting j = true) by (unfold waiting; rewrite S; reflexivity).
    rewrite W1, W2. cbn [map length fst]. lia.
  - destruct (uc_job_kept _ _ _ _ E) as [_ [_ [S _]]].
    assert (W : waiting j' = waiting j) by (unfold waiting; rewrite S; reflexivity).
    rewrite W. destruct (waiting j); cbn [length]; lia.
Qed.

Lemma uc_loop_terminates : forall fuel feeds pending st, n_waiting (u_jobs st) < fuel ->
  uc_loop fuel feeds pending st <> None.
Proof.
  induction fuel as [|f IH]; intros feeds pending st H; [lia|].
  cbn [uc_loop]. pose proof (uc_iter_waiting (hd [] feeds) pending st) as W.
  destruct (uc_iter (hd [] feeds) pending st) as [st' canc]. destruct canc as [|c canc]; [discriminate|].
  apply IH. cbn [length] in W. lia.
Qed.

Lemma n_waiting_le jobs : n_waiting jobs <= length jobs.
Proof. unfold n_waiting. induction jobs as [|a l IH]; cbn; [lia|]. destruct (waiting a); cbn; lia. Qed.

Theorem update_completed_terminates feeds jobs : update_completed feeds jobs <> None.
Proof. unfold update_completed. apply uc_loop_terminates. cbn [u_init u_jobs]. pose proof (n_waiting_le jobs). lia. Qed.
