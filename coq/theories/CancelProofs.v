(* Proofs about Cancel.v (C04). *)
From Coq Require Import String List ZArith NArith Bool Arith Lia.
From Jade Require Import Base Cancel.
From Jade.Gen Require Import ResultGen.
Import ListNotations.
Open Scope bool_scope.
Open Scope list_scope.

(* ------------------------------------------------------------------------------------------ *)
(* facts about the generated constants (re-checked against /repo on every run)                  *)
Lemma sub_is_failure_spec rc : sub_is_failure rc = negb (Z.eqb rc 0).
Proof. unfold sub_is_failure. rewrite ?(Z.eqb_sym 0 rc). reflexivity. Qed.
Lemma node_is_failure_spec rc : node_is_failure rc = negb (Z.eqb rc 0).
Proof. unfold node_is_failure. rewrite ?(Z.eqb_sym 0 rc). reflexivity. Qed.
Lemma sub_cancel_row_canceled n : is_canceled (r_rc (sub_cancel_row n)) (r_status (sub_cancel_row n)) = true.
Proof. reflexivity. Qed.
Lemma node_cancel_row_canceled n : is_canceled (r_rc (node_cancel_row n)) (r_status (node_cancel_row n)) = true.
Proof. reflexivity. Qed.
Lemma sub_cancel_rc_failure : sub_is_failure sub_cancel_rc = true /\ node_is_failure sub_cancel_rc = true /\ sub_cancel_rc <> 0%Z.
Proof. repeat split; try reflexivity; discriminate. Qed.
Lemma node_cancel_rc_failure : sub_is_failure node_cancel_rc = true /\ node_is_failure node_cancel_rc = true /\ node_cancel_rc <> 0%Z.
Proof. repeat split; try reflexivity; discriminate. Qed.
Lemma finish_row_not_canceled n rc : is_canceled (r_rc (finish_row n rc)) (r_status (finish_row n rc)) = false.
Proof. unfold is_canceled, finish_row; cbn [r_rc r_status]. destruct (Z.eqb rc 0); reflexivity. Qed.

Lemma row_outcome_finish n rc : row_outcome (finish_row n rc) = Finished rc.
Proof. unfold row_outcome. rewrite finish_row_not_canceled. reflexivity. Qed.
Lemma row_outcome_sub_cancel n : row_outcome (sub_cancel_row n) = Canceled.
Proof. reflexivity. Qed.
Lemma row_outcome_node_cancel n : row_outcome (node_cancel_row n) = Canceled.
Proof. reflexivity. Qed.

(* the rows JADE writes: a finish row with the process' exit status, or one of the two canceled records *)
Inductive jade_row : row -> Prop :=
| JR_finish n rc : jade_row (finish_row n rc)
| JR_sub_cancel n : jade_row (sub_cancel_row n)
| JR_node_cancel n : jade_row (node_cancel_row n).

Definition b2n (b : bool) : nat := if b then 1 else 0.
Lemma classification_exact r :
  jade_row r ->
  b2n (is_successful (r_rc r) (r_status r)) + b2n (is_failed (r_rc r) (r_status r)) + b2n (is_canceled (r_rc r) (r_status r)) = 1.
Proof.
  intros H. destruct H as [n rc|n|n]; try reflexivity.
  unfold is_successful, is_failed, is_canceled, finish_row; cbn [r_rc r_status].
  destruct (Z.eqb rc 0); reflexivity.
Qed.
Lemma classification_matches_outcome r :
  jade_row r ->
  (is_canceled (r_rc r) (r_status r) = true <-> row_outcome r = Canceled) /\
  (is_failed (r_rc r) (r_status r) = true <-> exists rc, row_outcome r = Finished rc /\ rc <> 0%Z) /\
  (is_successful (r_rc r) (r_status r) = true <-> row_outcome r = Finished 0).
Proof.
  intros H. destruct H as [n rc|n|n].
  - rewrite row_outcome_finish.
    unfold is_successful, is_failed, is_canceled, finish_row; cbn [r_rc r_status].
    destruct (Z.eqb_spec rc 0) as [E|E]; cbn; repeat split; intros H; try discriminate; try reflexivity.
    + destruct H as [x [H1 H2]]. inversion H1; subst. congruence.
    + subst; reflexivity.
    + exists rc. split; [reflexivity|exact E].
    + inversion H. congruence.
  - repeat split; intros H; try reflexivity; try discriminate. destruct H as [x [H1 _]]; discriminate.
  - repeat split; intros H; try reflexivity; try discriminate. destruct H as [x [H1 _]]; discriminate.
Qed.

(* ------------------------------------------------------------------------------------------ *)
(* reference                                                                                    *)
Lemma existsb_ext_in {A} (f g : A -> bool) l : (forall x, In x l -> f x = g x) -> existsb f l = existsb g l.
Proof.
  induction l as [|a l IH]; cbn; intros H; [reflexivity|].
  rewrite (H a (or_introl eq_refl)), IH; [reflexivity|]. intros x Hx. apply H. right. exact Hx.
Qed.

Lemma find_job_some sc n j : find_job sc n = Some j -> In j sc /\ jname j = n.
Proof.
  induction sc as [|a sc IH]; cbn; [discriminate|].
  destruct (N.eqb_spec (jname a) n) as [E|E]; intros H.
  - inversion H; subst. split; [left; reflexivity|reflexivity].
  - destruct (IH H) as [H1 H2]. split; [right; exact H1|exact H2].
Qed.
Lemma find_job_in sc j : In j sc -> exists j', find_job sc (jname j) = Some j'.
Proof.
  induction sc as [|a sc IH]; cbn; [intros []|]. intros [->|H].
  - rewrite N.eqb_refl. eauto.
  - destruct (N.eqb (jname a) (jname j)); eauto.
Qed.

(* acyclic dependency graph, given by a topological numbering bounded by the number of jobs *)
Definition topo_numbering (sc : scenario) (rank : N -> nat) : Prop :=
  forall j, In j sc -> rank (jname j) < length sc /\ forall d, In d (jdeps j) -> rank d < rank (jname j).
Definition acyclic (sc : scenario) : Prop := exists rank, topo_numbering sc rank.

Lemma ref_fuel_stable sc rank : topo_numbering sc rank ->
  forall f1 f2 n, rank n < f1 -> rank n < f2 -> ref_fuel f1 sc n = ref_fuel f2 sc n.
Proof.
  intros T. induction f1 as [|f1 IH]; intros f2 n H1 H2; [lia|].
  destruct f2 as [|f2]; [lia|]. cbn.
  destruct (find_job sc n) as [j|] eqn:F; [|reflexivity].
  destruct (find_job_some _ _ _ F) as [Hin Hn]. subst n.
  destruct (T j Hin) as [_ Hd].
  rewrite (existsb_ext_in (fun d => bad (ref_fuel f1 sc d)) (fun d => bad (ref_fuel f2 sc d))); [reflexivity|].
  intros d Hdin. specialize (Hd d Hdin). rewrite (IH f2 d); [reflexivity|lia|lia].
Qed.

Theorem reference_step sc : acyclic sc -> forall n j, find_job sc n = Some j ->
  reference sc n = if jflag j && existsb (fun d => bad (reference sc d)) (jdeps j) then Canceled else Finished (jrc j).
Proof.
  intros [rank T] n j F. unfold reference.
  destruct (find_job_some _ _ _ F) as [Hin Hn]. subst n.
  destruct (T j Hin) as [Hlt Hd].
  destruct (length sc) as [|L] eqn:EL; [lia|].
  cbn [ref_fuel]. rewrite F.
  rewrite (existsb_ext_in (fun d => bad (ref_fuel L sc d)) (fun d => bad (ref_fuel (S L) sc d))); [reflexivity|].
  intros d Hdin. specialize (Hd d Hdin). rewrite (ref_fuel_stable sc rank T L (S L) d); [reflexivity|lia|lia].
Qed.

Corollary reference_canceled_iff sc : acyclic sc -> forall n j, find_job sc n = Some j ->
  (reference sc n = Canceled <-> jflag j = true /\ exists d, In d (jdeps j) /\ bad (reference sc d) = true).
Proof.
  intros A n j F. rewrite (reference_step sc A n j F).
  destruct (jflag j); cbn [andb].
  - destruct (existsb _ _) eqn:E.
    + apply existsb_exists in E. split; [intros _; split; [reflexivity|exact E]|reflexivity].
    + split; [discriminate|]. intros [_ [d [H1 H2]]].
      assert (X : existsb (fun d => bad (reference sc d)) (jdeps j) = true) by (apply existsb_exists; eauto). congruence.
  - split; [discriminate|]. intros [H _]; discriminate.
Qed.
Corollary reference_unflagged sc : acyclic sc -> forall n j, find_job sc n = Some j -> jflag j = false ->
  reference sc n = Finished (jrc j).
Proof. intros A n j F H. rewrite (reference_step sc A n j F), H. reflexivity. Qed.

(* ------------------------------------------------------------------------------------------ *)
(* (a) submitter level: termination                                                             *)
Definition n_waiting (jobs : list cjob) : nat := length (filter is_waiting jobs).

Lemma meets_spec a b : meets a b = true <-> exists x, In x a /\ In x b.
Proof.
  unfold meets. rewrite existsb_exists. split; intros [x [H1 H2]]; exists x; split; auto; apply memN_In; auto.
Qed.

Lemma uc_job_canceled failed newly j j' : uc_job failed newly j = (j', true) ->
  c_state j = NOT_SUBMITTED /\ c_blocked j <> [] /\ c_flag j = true /\ meets (c_blocked j) failed = true /\
  j' = {| c_name := c_name j; c_blocked := []; c_flag := c_flag j; c_state := DONE |}.
Proof.
  unfold uc_job. destruct (c_state j); destruct (c_blocked j) as [|b bl] eqn:B; try (intros H; inversion H; fail).
  destruct (c_flag j); cbn [andb]; [|intros H; inversion H].
  destruct (meets (b :: bl) failed) eqn:M; intros H; inversion H; subst.
  repeat split; auto; discriminate.
Qed.
Lemma uc_job_kept failed newly j j' : uc_job failed newly j = (j', false) ->
  c_name j' = c_name j /\ c_flag j' = c_flag j /\ c_state j' = c_state j /\
  ((c_state j = NOT_SUBMITTED /\ c_blocked j <> [] /\ (c_flag j && meets (c_blocked j) failed = false)
    /\ c_blocked j' = diffN (c_blocked j) newly) \/
   ((c_state j <> NOT_SUBMITTED \/ c_blocked j = []) /\ j' = j)).
Proof.
  unfold uc_job. destruct (c_state j) eqn:S; destruct (c_blocked j) as [|b bl] eqn:B;
    try (intros H; inversion H; subst; repeat split; auto; right; split; auto; (left; congruence) || (right; reflexivity); fail).
  destruct (c_flag j && meets (b :: bl) failed) eqn:M; intros H; inversion H; subst; cbn.
  repeat split; auto. left. repeat split; auto. discriminate.
Qed.
Lemma uc_job_name failed newly j : c_name (fst (uc_job failed newly j)) = c_name j.
Proof.
  unfold uc_job. destruct (c_state j); destruct (c_blocked j); try reflexivity.
  destruct (c_flag j && meets (n :: l) failed); reflexivity.
Qed.

Lemma uc_iter_waiting feed pending st : let (st', canc) := uc_iter feed pending st in
  n_waiting (u_jobs st') + length canc = n_waiting (u_jobs st).
Proof.
  unfold uc_iter. cbn [u_jobs]. unfold n_waiting.
  set (failed := failed_of (feed ++ pending)). set (newly := u_newly st ++ names_of (feed ++ pending)).
  induction (u_jobs st) as [|j jobs IH]; [reflexivity|].
  cbn [map filter].
  destruct (uc_job failed newly j) as [j' b] eqn:E. cbn [fst snd].
  destruct b.
  - destruct (uc_job_canceled _ _ _ _ E) as [S [_ [_ [_ ->]]]].
    assert (W1 : is_waiting {| c_name := c_name j; c_blocked := []; c_flag := c_flag j; c_state := DONE |} = false) by reflexivity.
    assert (W2 : is_waiting j = true) by (unfold is_waiting; rewrite S; reflexivity).
    rewrite W1, W2. cbn [map length fst]. lia.
  - destruct (uc_job_kept _ _ _ _ E) as [_ [_ [S _]]].
    assert (W : is_waiting j' = is_waiting j) by (unfold is_waiting; rewrite S; reflexivity).
    rewrite W. destruct (is_waiting j); cbn [length]; lia.
Qed.

Lemma uc_loop_terminates : forall fuel feeds pending st, n_waiting (u_jobs st) < fuel ->
  uc_loop fuel feeds pending st <> None.
Proof.
  induction fuel as [|f IH]; intros feeds pending st H; [lia|].
  cbn [uc_loop]. pose proof (uc_iter_waiting (hd [] feeds) pending st) as W.
  destruct (uc_iter (hd [] feeds) pending st) as [st' canc]. destruct canc as [|c canc]; [discriminate|].
  apply IH. cbn [length] in W. lia.
Qed.

Lemma n_waiting_le jobs : n_waiting jobs <= length jobs.
Proof. unfold n_waiting. induction jobs as [|a l IH]; cbn; [lia|]. destruct (is_waiting a); cbn; lia. Qed.

Theorem update_completed_terminates feeds jobs : update_completed feeds jobs <> None.
Proof. unfold update_completed. apply uc_loop_terminates. cbn [u_init u_jobs]. pose proof (n_waiting_le jobs). lia. Qed.

(* ------------------------------------------------------------------------------------------ *)
(* the invariant behind c04_level_agnostic                                                      *)
Lemma find_job_nodup sc : NoDup (map jname sc) -> forall j, In j sc -> find_job sc (jname j) = Some j.
Proof.
  induction sc as [|a l IH]; cbn; intros ND j Hj; [destruct Hj|].
  inversion ND as [|x y Hn Hd]; subst. destruct Hj as [->|Hj]; [rewrite N.eqb_refl; reflexivity|].
  destruct (N.eqb_spec (jname a) (jname j)) as [E|E].
  - exfalso. apply Hn. rewrite E. apply in_map. exact Hj.
  - apply IH; assumption.
Qed.

Section Chain.
Variable sc : scenario.
Hypothesis Hacyclic : acyclic sc.

Definition has_row (rows : list row) (x : N) : Prop := exists r, In r rows /\ r_name r = x.
Definition rows_ok (rows : list row) : Prop := forall r, In r rows -> row_outcome r = reference sc (r_name r).
Definition run_ok (n : N) : Prop := exists j, find_job sc n = Some j /\ reference sc n = Finished (jrc j).

(* a job still waiting (at the submitter or queued on a node) with remaining blockers [rem] *)
Definition wait_ok (rows : list row) (name : N) (rem : list N) (flag : bool) : Prop :=
  exists j, find_job sc name = Some j /\ flag = jflag j /\ incl rem (jdeps j) /\
            forall d, In d (jdeps j) -> In d rem \/ (has_row rows d /\ (flag = true -> bad (reference sc d) = false)).

Lemma has_row_mono rows rows' x : incl rows rows' -> has_row rows x -> has_row rows' x.
Proof. intros I [r [H1 H2]]. exists r. split; auto. Qed.
Lemma wait_ok_mono rows rows' name rem flag : incl rows rows' -> wait_ok rows name rem flag -> wait_ok rows' name rem flag.
Proof.
  intros I [j [F [E [S H]]]]. exists j. repeat split; auto.
  intros d Hd. destruct (H d Hd) as [X|[X Y]]; [left; exact X|right; split; [eapply has_row_mono; eauto|exact Y]].
Qed.
Lemma wait_ok_cancel rows name rem x : wait_ok rows name rem true -> In x rem -> bad (reference sc x) = true ->
  reference sc name = Canceled.
Proof.
  intros [j [F [E [S _]]]] Hx B. apply (reference_canceled_iff sc Hacyclic name j F).
  split; [symmetry; exact E|]. exists x. split; [apply S; exact Hx|exact B].
Qed.
Lemma wait_ok_start rows name flag : wait_ok rows name [] flag -> run_ok name.
Proof.
  intros [j [F [E [_ H]]]]. exists j. split; [exact F|].
  rewrite (reference_step sc Hacyclic name j F).
  destruct (jflag j) eqn:Fl; [|reflexivity]. cbn [andb].
  destruct (existsb (fun d => bad (reference sc d)) (jdeps j)) eqn:X; [|reflexivity].
  apply existsb_exists in X. destruct X as [d [Hd Hb]].
  destruct (H d Hd) as [[]|[_ G]]. rewrite G in Hb; [discriminate|exact E].
Qed.
Lemma wait_ok_remove rows name rem flag R :
  wait_ok rows name rem flag ->
  (forall x, In x rem -> In x R -> has_row rows x /\ (flag = true -> bad (reference sc x) = false)) ->
  wait_ok rows name (diffN rem R) flag.
Proof.
  intros [j [F [E [S H]]]] HR. exists j. repeat split; auto.
  - intros x Hx. apply diffN_spec in Hx. apply S. tauto.
  - intros d Hd. destruct (H d Hd) as [X|X]; [|right; exact X].
    destruct (memN d R) eqn:M.
    + apply memN_In in M. right. apply HR; assumption.
    + apply memN_false in M. left. apply diffN_spec. tauto.
Qed.

Lemma bad_row_outcome r : Z.eqb (r_rc r) 0 = false -> bad (row_outcome r) = true.
Proof. intros H. unfold row_outcome. destruct (is_canceled _ _); cbn; [reflexivity|rewrite H; reflexivity]. Qed.
Lemma good_row_outcome r : Z.eqb (r_rc r) 0 = true -> bad (row_outcome r) = false.
Proof.
  intros H. apply Z.eqb_eq in H. unfold row_outcome. rewrite H.
  assert (E : is_canceled 0 (r_status r) = false) by (unfold is_canceled; cbn; rewrite ?andb_false_r; reflexivity).
  rewrite E. reflexivity.
Qed.

Lemma failed_of_spec rs x : In x (failed_of rs) <-> exists r, In r rs /\ r_name r = x /\ sub_is_failure (r_rc r) = true.
Proof.
  unfold failed_of. rewrite in_map_iff. split.
  - intros [r [E H]]. apply filter_In in H. exists r. tauto.
  - intros [r [H1 [H2 H3]]]. exists r. split; [exact H2|apply filter_In; tauto].
Qed.
Lemma names_of_spec rs x : In x (names_of rs) <-> exists r, In r rs /\ r_name r = x.
Proof. unfold names_of. rewrite in_map_iff. split; intros [r H]; exists r; tauto. Qed.

(* ---- submitter level ---- *)
Definition sub_inv (rows0 : list row) (st : ustate) (pending : list row) : Prop :=
  let G := rows0 ++ u_rows st in
  rows_ok G /\
  (forall j, In j (u_jobs st) -> is_waiting j = true -> wait_ok G (c_name j) (c_blocked j) (c_flag j)) /\
  (forall j, In j (u_jobs st) -> is_waiting j = true -> forall x, In x (c_blocked j) -> ~ In x (u_newly st)) /\
  incl pending G.

Lemma uc_iter_inv rows0 feed pending st :
  incl feed rows0 -> sub_inv rows0 st pending ->
  let (st', canc) := uc_iter feed pending st in sub_inv rows0 st' (map sub_cancel_row canc).
Proof.
  intros Hfeed [J1 [J2 [J3 J4]]].
  unfold uc_iter.
  set (results := feed ++ pending). set (newly := u_newly st ++ names_of results). set (failed := failed_of results).
  set (pr := map (uc_job failed newly) (u_jobs st)).
  set (canc := map (fun p => c_name (fst p)) (filter snd pr)).
  unfold sub_inv. cbn [u_jobs u_newly u_rows].
  set (G := rows0 ++ u_rows st) in *.
  assert (Hres : incl results G).
  { intros r Hr. apply in_app_or in Hr. destruct Hr as [Hr|Hr]; [apply in_or_app; left; apply Hfeed; exact Hr|apply J4; exact Hr]. }
  assert (HG : incl G (rows0 ++ u_rows st ++ map sub_cancel_row canc)).
  { intros r Hr. rewrite app_assoc. apply in_or_app. left. exact Hr. }
  assert (Hcanc : forall c, In c canc -> reference sc c = Canceled).
  { intros c Hc. unfold canc in Hc. apply in_map_iff in Hc. destruct Hc as [[j' b] [E Hp]]. cbn in E. subst c.
    apply filter_In in Hp. destruct Hp as [Hp Hb]. cbn in Hb. subst b.
    unfold pr in Hp. apply in_map_iff in Hp. destruct Hp as [j [E Hj]].
    destruct (uc_job_canceled _ _ _ _ E) as [S [_ [Fl [M ->]]]]. cbn [c_name].
    apply meets_spec in M. destruct M as [x [Hx Hf]].
    apply failed_of_spec in Hf. destruct Hf as [r [Hr [Hn Hfail]]].
    assert (W : is_waiting j = true) by (unfold is_waiting; rewrite S; reflexivity).
    pose proof (J2 j Hj W) as WO. rewrite Fl in WO.
    apply (wait_ok_cancel G (c_name j) (c_blocked j) x WO Hx).
    rewrite <- Hn, <- (J1 r (Hres r Hr)). apply bad_row_outcome.
    rewrite sub_is_failure_spec in Hfail. apply negb_true_iff in Hfail. exact Hfail. }
  repeat split.
  - intros r Hr. rewrite app_assoc in Hr. apply in_app_or in Hr. destruct Hr as [Hr|Hr]; [apply J1; exact Hr|].
    apply in_map_iff in Hr. destruct Hr as [c [<- Hc]]. rewrite row_outcome_sub_cancel. cbn [sub_cancel_row r_name].
    symmetry. apply Hcanc. exact Hc.
  - intros j' Hj' W'. apply in_map_iff in Hj'. destruct Hj' as [[j'' b] [E Hp]]. cbn in E. subst j''.
    unfold pr in Hp. apply in_map_iff in Hp. destruct Hp as [j [E Hj]].
    destruct b.
    { destruct (uc_job_canceled _ _ _ _ E) as [_ [_ [_ [_ ->]]]]. discriminate W'. }
    destruct (uc_job_kept _ _ _ _ E) as [Hn [Hfl [Hst Hcase]]].
    assert (W : is_waiting j = true) by (unfold is_waiting in *; rewrite <- Hst; exact W').
    pose proof (J2 j Hj W) as WO.
    rewrite Hn, Hfl.
    destruct Hcase as [[S [NE [NM Hb]]]|[_ ->]]; [|eapply wait_ok_mono; [exact HG|exact WO]].
    rewrite Hb. eapply wait_ok_mono; [exact HG|].
    apply wait_ok_remove; [exact WO|].
    intros x Hx Hnew. unfold newly in Hnew. apply in_app_or in Hnew. destruct Hnew as [Hnew|Hnew]; [exfalso; exact (J3 j Hj W x Hx Hnew)|].
    apply names_of_spec in Hnew. destruct Hnew as [r [Hr Hrn]].
    split; [exists r; split; [apply Hres; exact Hr|exact Hrn]|].
    intros Fl. rewrite Fl in NM. cbn [andb] in NM.
    rewrite <- Hrn, <- (J1 r (Hres r Hr)). apply good_row_outcome.
    destruct (Z.eqb (r_rc r) 0) eqn:Z0; [reflexivity|exfalso].
    assert (M : meets (c_blocked j) failed = true).
    { apply meets_spec. exists x. split; [exact Hx|]. apply failed_of_spec. exists r. repeat split; auto.
      rewrite sub_is_failure_spec, Z0. reflexivity. }
    congruence.
  - intros j' Hj' W' x Hx Hnew. apply in_map_iff in Hj'. destruct Hj' as [[j'' b] [E Hp]]. cbn in E. subst j''.
    unfold pr in Hp. apply in_map_iff in Hp. destruct Hp as [j [E Hj]].
    destruct b.
    { destruct (uc_job_canceled _ _ _ _ E) as [_ [_ [_ [_ ->]]]]. discriminate W'. }
    destruct (uc_job_kept _ _ _ _ E) as [Hn [Hfl [Hst Hcase]]].
    destruct Hcase as [[S [NE [NM Hb]]]|[Hc ->]].
    + rewrite Hb in Hx. apply diffN_spec in Hx. tauto.
    + destruct Hc as [Hc|Hc]; [unfold is_waiting in W'; destruct (c_state j); try discriminate; congruence|].
      rewrite Hc in Hx. destruct Hx.
  - intros r Hr. rewrite app_assoc. apply in_or_app. right. exact Hr.
Qed.

Lemma uc_loop_inv rows0 : forall fuel feeds pending st st',
  incl (concat feeds) rows0 -> sub_inv rows0 st pending ->
  uc_loop fuel feeds pending st = Some st' -> sub_inv rows0 st' [].
Proof.
  induction fuel as [|f IH]; intros feeds pending st st' Hf I H; [discriminate|].
  cbn [uc_loop] in H.
  assert (Hhd : incl (hd [] feeds) rows0).
  { destruct feeds as [|a l]; cbn; [intros x []|]. intros x Hx. apply Hf. cbn. apply in_or_app. left. exact Hx. }
  assert (Htl : incl (concat (tl feeds)) rows0).
  { destruct feeds as [|a l]; cbn; [intros x []|]. intros x Hx. apply Hf. cbn. apply in_or_app. right. exact Hx. }
  pose proof (uc_iter_inv rows0 (hd [] feeds) pending st Hhd I) as I'.
  destruct (uc_iter (hd [] feeds) pending st) as [st1 canc].
  destruct canc as [|c canc].
  - inversion H; subst. exact I'.
  - eapply IH; [exact Htl|exact I'|exact H].
Qed.
(* ---- node level ---- *)
Lemma in_lefts {A B C} (f : C -> A + B) l a : In a (lefts (map f l)) <-> exists c, In c l /\ f c = inl a.
Proof.
  induction l as [|c l IH]; cbn; [split; [intros []|intros [c [[] _]]]|].
  destruct (f c) as [a'|b'] eqn:E; cbn; rewrite IH; split.
  - intros [->|[c' [H1 H2]]]; [exists c; auto|exists c'; auto].
  - intros [c' [[->|H1] H2]]; [left; congruence|right; exists c'; auto].
  - intros [c' [H1 H2]]. exists c'; auto.
  - intros [c' [[->|H1] H2]]; [congruence|exists c'; auto].
Qed.
Lemma in_rights {A B C} (f : C -> A + B) l b : In b (rights (map f l)) <-> exists c, In c l /\ f c = inr b.
Proof.
  induction l as [|c l IH]; cbn; [split; [intros []|intros [c [[] _]]]|].
  destruct (f c) as [a'|b'] eqn:E; cbn; rewrite IH; split.
  - intros [c' [H1 H2]]. exists c'; auto.
  - intros [c' [[->|H1] H2]]; [congruence|exists c'; auto].
  - intros [->|[c' [H1 H2]]]; [exists c; auto|exists c'; auto].
  - intros [c' [[->|H1] H2]]; [left; congruence|right; exists c'; auto].
Qed.
Lemma lefts_rights_length {A B} (l : list (A + B)) : length (lefts l) + length (rights l) = length l.
Proof. induction l as [|[a|b] l IH]; cbn; lia. Qed.

Lemma cc_job_cases failed name q :
  (cc_job failed name q = inr (q_name q) /\ q_flag q = true /\ meets (q_blocking q) failed = true) \/
  (exists q', cc_job failed name q = inl q' /\ q_name q' = q_name q /\ q_flag q' = q_flag q /\
     (q' = q \/ ((q_flag q && meets (q_blocking q) failed = false) /\ In name (q_blocking q) /\
                 q_blocking q' = diffN (q_blocking q) [name]))).
Proof.
  unfold cc_job. destruct (q_blocking q) as [|b bl] eqn:B.
  - right. exists q. repeat split; auto.
  - destruct (q_flag q && meets (b :: bl) failed) eqn:M.
    + left. apply andb_true_iff in M. destruct M. repeat split; auto.
    + destruct (memN name (b :: bl)) eqn:Mem.
      * right. eexists. split; [reflexivity|]. cbn [q_name q_flag q_blocking]. repeat split; auto.
        right. repeat split; auto. apply memN_In. exact Mem.
      * right. exists q. repeat split; auto.
Qed.

Definition out_ok (G : list row) (o : ojob) : Prop :=
  match o with ORunning n => run_ok n | OCanceled n => has_row G n /\ bad (reference sc n) = true end.
Definition node_inv (rows0 : list row) (st : qstate) : Prop :=
  let G := rows0 ++ qs_rows st in
  rows_ok G /\
  (forall q, In q (qs_queued st) -> wait_ok G (q_name q) (q_blocking q) (q_flag q)) /\
  (forall o, In o (qs_out st) -> out_ok G o) /\
  (forall x, In x (qs_failed st) -> bad (reference sc x) = true).
(* a completed name may be taken off the blockers of queued jobs *)
Definition done_ok (rows0 : list row) (st : qstate) (name : N) : Prop :=
  has_row (rows0 ++ qs_rows st) name /\ (bad (reference sc name) = true -> In name (qs_failed st)).

Lemma out_ok_mono G G' o : incl G G' -> out_ok G o -> out_ok G' o.
Proof. intros I. destruct o; cbn; [auto|]. intros [H1 H2]. split; [eapply has_row_mono; eauto|exact H2]. Qed.

Lemma cc_name_inv rows0 st name : node_inv rows0 st -> done_ok rows0 st name ->
  node_inv rows0 (cc_name st name) /\ qs_failed (cc_name st name) = qs_failed st /\
  incl (qs_rows st) (qs_rows (cc_name st name)).
Proof.
  intros [K1 [K2 [K3 K4]]] [D1 D2]. unfold cc_name, node_inv. cbn [qs_out qs_queued qs_rows qs_failed].
  set (res := map (cc_job (qs_failed st) name) (qs_queued st)).
  set (G := rows0 ++ qs_rows st) in *.
  assert (HG : incl G (rows0 ++ qs_rows st ++ map node_cancel_row (rights res))).
  { intros r Hr. rewrite app_assoc. apply in_or_app. left. exact Hr. }
  assert (Hc : forall c, In c (rights res) -> reference sc c = Canceled).
  { intros c Hc. apply in_rights in Hc. destruct Hc as [q [Hq E]].
    destruct (cc_job_cases (qs_failed st) name q) as [[E' [Fl M]]|[q' [E' _]]]; [|congruence].
    rewrite E' in E. inversion E; subst c.
    apply meets_spec in M. destruct M as [x [Hx Hf]].
    pose proof (K2 q Hq) as WO. rewrite Fl in WO.
    exact (wait_ok_cancel G _ _ x WO Hx (K4 x Hf)). }
  split; [|split; [reflexivity|intros r Hr; apply in_or_app; left; exact Hr]].
  repeat split.
  - intros r Hr. rewrite app_assoc in Hr. apply in_app_or in Hr. destruct Hr as [Hr|Hr]; [apply K1; exact Hr|].
    apply in_map_iff in Hr. destruct Hr as [c [<- Hin]]. rewrite row_outcome_node_cancel. cbn [node_cancel_row r_name].
    symmetry. apply Hc. exact Hin.
  - intros q' Hq'. apply in_lefts in Hq'. destruct Hq' as [q [Hq E]].
    destruct (cc_job_cases (qs_failed st) name q) as [[E' _]|[q'' [E' [Hn [Hf Hcase]]]]]; [congruence|].
    rewrite E' in E. inversion E; subst q''. rewrite Hn, Hf.
    pose proof (K2 q Hq) as WO. eapply wait_ok_mono; [exact HG|].
    destruct Hcase as [->|[NM [Hin Hb]]]; [exact WO|].
    rewrite Hb. apply wait_ok_remove; [exact WO|].
    intros x Hx [<-|[]]. split; [exact D1|].
    intros Fl. rewrite Fl in NM. cbn [andb] in NM.
    destruct (bad (reference sc name)) eqn:Bd; [exfalso|reflexivity].
    assert (M : meets (q_blocking q) (qs_failed st) = true) by (apply meets_spec; exists name; split; auto).
    congruence.
  - intros o Ho. apply in_app_or in Ho. destruct Ho as [Ho|Ho].
    + apply filter_In in Ho. eapply out_ok_mono; [exact HG|]. apply K3. tauto.
    + apply in_map_iff in Ho. destruct Ho as [c [<- Hin]]. cbn. split.
      * exists (node_cancel_row c). split; [|reflexivity]. apply in_or_app. right. apply in_or_app. right.
        apply in_map. exact Hin.
      * rewrite (Hc c Hin). reflexivity.
  - exact K4.
Qed.

Lemma fold_cc_name_inv rows0 : forall names st, node_inv rows0 st -> (forall n, In n names -> done_ok rows0 st n) ->
  node_inv rows0 (fold_left cc_name names st).
Proof.
  induction names as [|n names IH]; intros st I D; [exact I|]. cbn [fold_left].
  destruct (cc_name_inv rows0 st n I (D n (or_introl eq_refl))) as [I' [Hf Hr]].
  apply IH; [exact I'|]. intros m Hm. destruct (D m (or_intror Hm)) as [D1 D2]. split.
  - destruct D1 as [r [H1 H2]]. exists r. split; [|exact H2]. apply in_app_or in H1. apply in_or_app.
    destruct H1 as [H1|H1]; [left; exact H1|right; apply Hr; exact H1].
  - rewrite Hf. exact D2.
Qed.

Lemma assocN_in {A} n (l : list (N * A)) v : assocN n l = Some v -> In (n, v) l.
Proof.
  induction l as [|[k x] l IH]; cbn; [discriminate|]. destruct (N.eqb_spec n k) as [->|E]; intros H.
  - inversion H; subst. left; reflexivity.
  - right. apply IH. exact H.
Qed.
Lemma cc_poll_spec obs out n rc b : In (n, rc, b) (cc_poll obs out) <->
  (In (ORunning n) out /\ assocN n obs = Some rc /\ b = true) \/ (In (OCanceled n) out /\ rc = node_cancel_rc /\ b = false).
Proof.
  unfold cc_poll. rewrite in_flat_map. split.
  - intros [o [Ho H]]. destruct o as [m|m].
    + destruct (assocN m obs) as [rc'|] eqn:E; [|destruct H]. destruct H as [H|[]]. inversion H; subst. left. auto.
    + destruct H as [H|[]]. inversion H; subst. right. auto.
  - intros [[H1 [H2 ->]]|[H1 [-> ->]]].
    + exists (ORunning n). split; [exact H1|]. rewrite H2. left; reflexivity.
    + exists (OCanceled n). split; [exact H1|]. left; reflexivity.
Qed.

Definition obs_ok (obs : list (N * Z)) : Prop := forall n rc, In (n, rc) obs -> forall j, find_job sc n = Some j -> jrc j = rc.

Lemma cc_iter_inv rows0 obs st : obs_ok obs -> node_inv rows0 st -> node_inv rows0 (cc_iter obs st).
Proof.
  intros Ho [K1 [K2 [K3 K4]]]. unfold cc_iter.
  set (polled := cc_poll obs (qs_out st)).
  set (G := rows0 ++ qs_rows st) in *.
  set (newrows := map (fun p : N * Z * bool => finish_row (fst (fst p)) (snd (fst p))) (filter snd polled)).
  assert (HG : incl G (rows0 ++ qs_rows st ++ newrows)).
  { intros r Hr. rewrite app_assoc. apply in_or_app. left. exact Hr. }
  assert (Hrun : forall n rc, In (ORunning n) (qs_out st) -> assocN n obs = Some rc -> reference sc n = Finished rc).
  { intros n rc Hin Ha. destruct (K3 _ Hin) as [j [F R]]. rewrite R. f_equal. apply (Ho n rc (assocN_in _ _ _ Ha) j F). }
  apply fold_cc_name_inv.
  - unfold node_inv. cbn [qs_out qs_queued qs_rows qs_failed]. fold G. repeat split.
    + intros r Hr. rewrite app_assoc in Hr. apply in_app_or in Hr. destruct Hr as [Hr|Hr]; [apply K1; exact Hr|].
      apply in_map_iff in Hr. destruct Hr as [[[n rc] b] [<- Hp]]. apply filter_In in Hp. destruct Hp as [Hp Hb]. cbn in Hb. subst b.
      cbn [fst snd]. rewrite row_outcome_finish. cbn [finish_row r_name].
      apply cc_poll_spec in Hp. destruct Hp as [[H1 [H2 _]]|[_ [_ H3]]]; [|discriminate]. symmetry. eapply Hrun; eauto.
    + intros q Hq. eapply wait_ok_mono; [exact HG|]. apply K2. exact Hq.
    + intros o Hin. eapply out_ok_mono; [exact HG|]. apply K3. exact Hin.
    + intros x Hx. apply in_app_or in Hx. destruct Hx as [Hx|Hx]; [apply K4; exact Hx|].
      apply in_map_iff in Hx. destruct Hx as [[[n rc] b] [E Hp]]. cbn in E. subst x. apply filter_In in Hp. destruct Hp as [Hp Hf]. cbn in Hf.
      apply cc_poll_spec in Hp. destruct Hp as [[H1 [H2 _]]|[H1 _]].
      * rewrite (Hrun n rc H1 H2). cbn. rewrite node_is_failure_spec in Hf. exact Hf.
      * destruct (K3 _ H1) as [_ B]. exact B.
  - intros n Hn. apply in_map_iff in Hn. destruct Hn as [[[n' rc] b] [E Hp]]. cbn in E. subst n'.
    unfold done_ok. cbn [qs_rows qs_failed]. fold newrows.
    pose proof Hp as Hp'. apply cc_poll_spec in Hp'. destruct Hp' as [[H1 [H2 ->]]|[H1 [-> ->]]].
    + split.
      * exists (finish_row n rc). split; [|reflexivity]. apply in_or_app. right. apply in_or_app. right.
        unfold newrows. apply in_map_iff. exists (n, rc, true). split; [reflexivity|]. apply filter_In. split; [exact Hp|reflexivity].
      * intros B. rewrite (Hrun n rc H1 H2) in B. cbn in B. apply in_or_app. right.
        apply in_map_iff. exists (n, rc, true). split; [reflexivity|]. apply filter_In. split; [exact Hp|].
        cbn. rewrite node_is_failure_spec. exact B.
    + destruct (K3 _ H1) as [HR B]. split.
      * eapply has_row_mono; [exact HG|exact HR].
      * intros _. apply in_or_app. right. apply in_map_iff. exists (n, node_cancel_rc, false). split; [reflexivity|].
        apply filter_In. split; [exact Hp|]. cbn. apply node_cancel_rc_failure.
Qed.

Lemma cc_loop_inv rows0 : forall fuel fin st st', (forall obs, In obs fin -> obs_ok obs) -> node_inv rows0 st ->
  cc_loop fuel fin st = Some st' -> node_inv rows0 st'.
Proof.
  induction fuel as [|f IH]; intros fin st st' Ho I H; [discriminate|].
  cbn [cc_loop] in H.
  assert (Hhd : obs_ok (hd [] fin)).
  { destruct fin as [|a l]; cbn; [intros n rc []|]. apply Ho. left; reflexivity. }
  assert (Htl : forall obs, In obs (tl fin) -> obs_ok obs).
  { destruct fin as [|a l]; cbn; [intros obs []|]. intros obs Hin. apply Ho. right; exact Hin. }
  pose proof (cc_iter_inv rows0 (hd [] fin) st Hhd I) as I'.
  destruct (Nat.ltb _ _); [eapply IH; eauto|]. inversion H; subst. exact I'.
Qed.
(* ---- both levels: the system invariant ---- *)
Definition sys_inv (s : sys) : Prop :=
  rows_ok (s_rows s) /\
  (forall j, In j (s_cluster s) -> is_waiting j = true -> wait_ok (s_rows s) (c_name j) (c_blocked j) (c_flag j)) /\
  (forall p, In p (s_queued s) -> wait_ok (s_rows s) (q_name (snd p)) (q_blocking (snd p)) (q_flag (snd p))) /\
  (forall p, In p (s_running s) -> run_ok (snd p)) /\
  (forall n, In n (s_launched s) -> run_ok n).

Lemma row_eqb_eq a b : row_eqb a b = true -> a = b.
Proof.
  unfold row_eqb. intros H. apply andb_true_iff in H. destruct H as [H H3]. apply andb_true_iff in H. destruct H as [H1 H2].
  apply N.eqb_eq in H1. apply Z.eqb_eq in H2. apply String.eqb_eq in H3. destruct a, b; cbn in *; congruence.
Qed.

Lemma sys_step_inv s ev s' : sys_inv s -> sys_step sc s ev = Some s' -> sys_inv s'.
Proof.
  intros [I1 [I2 [I3 [I4 I5]]]] H. destruct ev as [feeds|b names|b n|b fin]; cbn [sys_step] in H.
  - (* submitter round *)
    destruct (forallb _ (concat feeds)) eqn:Gd; [|discriminate].
    destruct (update_completed feeds (s_cluster s)) as [u|] eqn:U; [|discriminate]. inversion H; subst s'; clear H.
    assert (Hf : incl (concat feeds) (s_rows s)).
    { intros r Hr. rewrite forallb_forall in Gd. specialize (Gd r Hr). apply existsb_exists in Gd.
      destruct Gd as [r' [Hin E]]. apply row_eqb_eq in E. subst r'. exact Hin. }
    assert (I0 : sub_inv (s_rows s) (u_init (s_cluster s)) []).
    { unfold sub_inv, u_init. cbn [u_rows u_jobs u_newly]. rewrite app_nil_r. repeat split; auto.
      intros r []. }
    destruct (uc_loop_inv (s_rows s) _ _ _ _ _ Hf I0 U) as [J1 [J2 _]].
    unfold sys_inv. cbn [s_rows s_cluster s_queued s_running s_launched]. repeat split; auto.
    intros p Hp. eapply wait_ok_mono; [|apply I3; exact Hp]. intros r Hr. apply in_or_app. left. exact Hr.
  - (* batch *)
    inversion H; subst s'; clear H. unfold sys_inv. cbn [s_rows s_cluster s_queued s_running s_launched]. repeat split; auto.
    + intros j' Hj' W. apply in_map_iff in Hj'. destruct Hj' as [j [E Hj]].
      destruct (batched names j); subst j'; [discriminate W|]. apply I2; assumption.
    + intros p Hp. apply in_app_or in Hp. destruct Hp as [Hp|Hp]; [apply I3; exact Hp|].
      apply in_map_iff in Hp. destruct Hp as [j [<- Hj]]. apply filter_In in Hj. destruct Hj as [Hj Bt].
      cbn [snd q_name q_blocking q_flag]. apply I2; [exact Hj|]. unfold batched in Bt. apply andb_true_iff in Bt. tauto.
  - (* start *)
    destruct (existsb (startable b n) (s_queued s)) eqn:Ex; [|discriminate]. inversion H; subst s'; clear H.
    apply existsb_exists in Ex. destruct Ex as [p [Hp St]].
    assert (R : run_ok n).
    { unfold startable in St. apply andb_true_iff in St. destruct St as [St Hb]. apply andb_true_iff in St. destruct St as [_ Hn].
      apply N.eqb_eq in Hn. pose proof (I3 p Hp) as WO. rewrite Hn in WO.
      destruct (q_blocking (snd p)); [|discriminate]. eapply wait_ok_start. exact WO. }
    unfold sys_inv. cbn [s_rows s_cluster s_queued s_running s_launched]. repeat split; auto.
    + intros q Hq. apply filter_In in Hq. apply I3. tauto.
    + intros q Hq. apply in_app_or in Hq. destruct Hq as [Hq|[<-|[]]]; [apply I4; exact Hq|exact R].
    + intros m Hm. apply in_app_or in Hm. destruct Hm as [Hm|[<-|[]]]; [apply I5; exact Hm|exact R].
  - (* node poll *)
    destruct (forallb (rc_matches sc) (concat fin)) eqn:Gd; [|discriminate].
    destruct (check_completions fin _ _) as [q|] eqn:C; [|discriminate]. inversion H; subst s'; clear H.
    assert (Ho : forall obs, In obs fin -> obs_ok obs).
    { intros obs Hobs m rc Hin j F. rewrite forallb_forall in Gd.
      assert (X : In (m, rc) (concat fin)) by (apply in_concat; exists obs; split; assumption).
      specialize (Gd _ X). unfold rc_matches in Gd. cbn [fst snd] in Gd. rewrite F in Gd. apply Z.eqb_eq. exact Gd. }
    assert (I0 : node_inv (s_rows s) (q_init (map (fun p => ORunning (snd p)) (filter (on_node b) (s_running s)))
                                            (map snd (filter (on_node b) (s_queued s))))).
    { unfold node_inv, q_init. cbn [qs_rows qs_out qs_queued qs_failed]. rewrite app_nil_r. repeat split; auto.
      - intros x Hx. apply in_map_iff in Hx. destruct Hx as [p [<- Hp]]. apply filter_In in Hp. apply I3. tauto.
      - intros o Hin. apply in_map_iff in Hin. destruct Hin as [p [<- Hp]]. apply filter_In in Hp. cbn. apply I4. tauto. }
    destruct (cc_loop_inv (s_rows s) _ _ _ _ Ho I0 C) as [K1 [K2 [K3 _]]].
    assert (HG : incl (s_rows s) (s_rows s ++ qs_rows q)) by (intros r Hr; apply in_or_app; left; exact Hr).
    unfold sys_inv. cbn [s_rows s_cluster s_queued s_running s_launched]. repeat split; auto.
    + intros j Hj W. eapply wait_ok_mono; [exact HG|]. apply I2; assumption.
    + intros p Hp. apply in_app_or in Hp. destruct Hp as [Hp|Hp].
      * apply filter_In in Hp. eapply wait_ok_mono; [exact HG|]. apply I3. tauto.
      * apply in_map_iff in Hp. destruct Hp as [x [<- Hx]]. cbn [snd]. apply K2. exact Hx.
    + intros p Hp. apply in_app_or in Hp. destruct Hp as [Hp|Hp].
      * apply filter_In in Hp. apply I4. tauto.
      * apply in_map_iff in Hp. destruct Hp as [x [<- Hx]]. cbn [snd]. unfold running_names in Hx.
        apply in_flat_map in Hx. destruct Hx as [o [Hin Hx]]. destruct o as [m|m]; [|destruct Hx].
        destruct Hx as [<-|[]]. exact (K3 _ Hin).
Qed.

Lemma sys_run_inv : forall evs s s', sys_inv s -> sys_run sc s evs = Some s' -> sys_inv s'.
Proof.
  induction evs as [|e evs IH]; intros s s' I H; cbn in H; [inversion H; subst; exact I|].
  destruct (sys_step sc s e) as [s1|] eqn:E; [|discriminate]. eapply IH; [|exact H]. eapply sys_step_inv; eauto.
Qed.

Lemma sys_init_inv : NoDup (map jname sc) -> sys_inv (sys_init sc).
Proof.
  intros ND. unfold sys_inv, sys_init. cbn [s_rows s_cluster s_queued s_running s_launched]. repeat split.
  - intros r [].
  - intros j' Hj' _. apply in_map_iff in Hj'. destruct Hj' as [j [<- Hj]]. cbn [c_name c_blocked c_flag].
    exists j. repeat split; [apply find_job_nodup; assumption|apply incl_refl|]. intros d Hd. left. exact Hd.
  - intros p [].
  - intros p [].
  - intros n [].
Qed.
End Chain.

Theorem level_agnostic sc : acyclic sc -> NoDup (map jname sc) ->
  forall evs s, sys_run sc (sys_init sc) evs = Some s ->
  (forall r, In r (s_rows s) -> row_outcome r = reference sc (r_name r)) /\
  (forall n, In n (s_launched s) -> exists j, find_job sc n = Some j /\ reference sc n = Finished (jrc j)) /\
  (forall r, In r (s_rows s) -> row_outcome r = Canceled -> ~ In (r_name r) (s_launched s)).
Proof.
  intros A ND evs s H.
  destruct (sys_run_inv sc A evs _ _ (sys_init_inv sc ND) H) as [I1 [_ [_ [_ I5]]]].
  split; [exact I1|]. split; [exact I5|].
  intros r Hr Hc Hl. destruct (I5 _ Hl) as [j [_ R]]. rewrite <- (I1 r Hr), Hc in R. discriminate.
Qed.

(* ------------------------------------------------------------------------------------------ *)
(* (a) submitter level: exactly which waiting jobs the fix-point cancels                        *)

(* closed form over the ghost log [(failed_1, newly_1); ...; (failed_K, newly_K)]:
   a waiting flagged job with blockers b is canceled iff for some iteration k its then-remaining
   blockers  b \ newly_1 \ ... \ newly_(k-1)  meet failed_k *)
Fixpoint cancels (b : list N) (log : list (list N * list N)) : bool :=
  match log with
  | [] => false
  | (failed, newly) :: rest => meets b failed || cancels (diffN b newly) rest
  end.
Definition remaining (b : list N) (log : list (list N * list N)) : list N :=
  fold_left (fun b e => diffN b (snd e)) log b.

Fixpoint job_run (log : list (list N * list N)) (j : cjob) : cjob * bool :=
  match log with
  | [] => (j, false)
  | (failed, newly) :: rest =>
    match uc_job failed newly j with
    | (j', true) => (j', true)
    | (j', false) => job_run rest j'
    end
  end.

Lemma job_run_not_waiting log j : is_waiting j = false -> job_run log j = (j, false).
Proof.
  induction log as [|[f n] log IH]; intros W; [reflexivity|]. cbn [job_run].
  assert (E : uc_job f n j = (j, false)).
  { unfold uc_job. unfold is_waiting in W. destruct (c_state j); try discriminate; reflexivity. }
  rewrite E. apply IH. exact W.
Qed.
Lemma cancels_nil log : cancels [] log = false.
Proof. induction log as [|[f n] log IH]; [reflexivity|]. cbn. exact IH. Qed.
Lemma remaining_nil log : remaining [] log = [].
Proof. induction log as [|[f n] log IH]; [reflexivity|]. exact IH. Qed.

Lemma job_run_spec log : forall j, is_waiting j = true ->
  snd (job_run log j) = c_flag j && cancels (c_blocked j) log /\
  c_name (fst (job_run log j)) = c_name j /\ c_flag (fst (job_run log j)) = c_flag j /\
  (snd (job_run log j) = true -> c_state (fst (job_run log j)) = DONE /\ c_blocked (fst (job_run log j)) = []) /\
  (snd (job_run log j) = false -> c_state (fst (job_run log j)) = NOT_SUBMITTED /\
                                  c_blocked (fst (job_run log j)) = remaining (c_blocked j) log).
Proof.
  induction log as [|[f n] log IH]; intros j W.
  - cbn. rewrite andb_false_r. repeat split; auto; try discriminate.
    unfold is_waiting in W. destruct (c_state j); try discriminate; reflexivity.
  - cbn [job_run cancels remaining fold_left snd]. fold (remaining (diffN (c_blocked j) n) log).
    destruct (uc_job f n j) as [j' b] eqn:E. destruct b.
    + destruct (uc_job_canceled _ _ _ _ E) as [_ [_ [Fl [M ->]]]]. cbn. rewrite Fl, M. cbn.
      repeat split; auto; discriminate.
    + destruct (uc_job_kept _ _ _ _ E) as [Hn [Hf [Hs Hc]]].
      assert (W' : is_waiting j' = true) by (unfold is_waiting in *; rewrite Hs; exact W).
      destruct (IH j' W') as [A [B [C [D F]]]]. rewrite B, C, Hn, Hf.
      destruct Hc as [[S [NE [NM Hb]]]|[[S|S] ->]].
      * split.
        { rewrite A, Hf, Hb. destruct (c_flag j); cbn [andb] in *; [rewrite NM; reflexivity|reflexivity]. }
        split; [reflexivity|]. split; [reflexivity|]. split; [exact D|].
        intros X. destruct (F X) as [F1 F2]. rewrite F1, F2, Hb. split; reflexivity.
      * unfold is_waiting in W. destruct (c_state j); try discriminate; congruence.
      * split.
        { rewrite A. rewrite S. cbn [diffN filter]. rewrite cancels_nil. cbn. rewrite !andb_false_r. reflexivity. }
        split; [reflexivity|]. split; [reflexivity|]. split; [exact D|].
        intros X. destruct (F X) as [F1 F2]. rewrite F1, F2, S. split; reflexivity.
Qed.

Lemma uc_loop_log : forall fuel feeds pending st u, uc_loop fuel feeds pending st = Some u ->
  exists log, u_log u = u_log st ++ log /\
    u_jobs u = map (fun j => fst (job_run log j)) (u_jobs st) /\
    (forall c, In c (u_canceled u) <-> In c (u_canceled st) \/ exists j, In j (u_jobs st) /\ c_name j = c /\ snd (job_run log j) = true) /\
    (u_rows st = map sub_cancel_row (u_canceled st) -> u_rows u = map sub_cancel_row (u_canceled u)).
Proof.
  induction fuel as [|fu IH]; intros feeds pending st u H; [discriminate|].
  cbn [uc_loop] in H. destruct (uc_iter (hd [] feeds) pending st) as [st1 canc] eqn:It.
  unfold uc_iter in It.
  set (failed := failed_of (hd [] feeds ++ pending)) in *. set (newly := u_newly st ++ names_of (hd [] feeds ++ pending)) in *.
  inversion It as [[E1 E2]]. clear It.
  assert (Hc : forall c, In c canc <-> exists j, In j (u_jobs st) /\ c_name j = c /\ snd (uc_job failed newly j) = true).
  { intros c. rewrite <- E2. rewrite in_map_iff. split.
    - intros [[j' b] [<- Hp]]. apply filter_In in Hp. destruct Hp as [Hp Hb]. apply in_map_iff in Hp.
      destruct Hp as [j [E Hj]]. exists j. split; [exact Hj|]. rewrite E. cbn in *. split; [|exact Hb].
      pose proof (uc_job_name failed newly j) as X. rewrite E in X. cbn in X. symmetry. exact X.
    - intros [j [Hj [Hn Hs]]]. exists (uc_job failed newly j). split; [rewrite uc_job_name; exact Hn|].
      apply filter_In. split; [apply in_map; exact Hj|exact Hs]. }
  destruct canc as [|c0 canc].
  - inversion H; subst u; clear H. exists [(failed, newly)]. rewrite <- E1. cbn [u_log u_jobs u_canceled u_rows].
    rewrite E2. split; [reflexivity|]. split; [|split].
    + rewrite map_map. apply map_ext. intros j. cbn [job_run]. destruct (uc_job failed newly j) as [j' b]; destruct b; reflexivity.
    + intros c. rewrite app_nil_r. split; [intros X; left; exact X|]. intros [X|[j [Hj [Hn Hs]]]]; [exact X|].
      exfalso. cbn [job_run] in Hs. destruct (uc_job failed newly j) as [j' b] eqn:E; destruct b; cbn in Hs; [|discriminate].
      assert (X : In c []) by (apply Hc; exists j; rewrite E; auto). destruct X.
    + intros X. cbn. rewrite !app_nil_r. exact X.
  - destruct (IH _ _ _ _ H) as [log [L1 [L2 [L3 L4]]]]. exists ((failed, newly) :: log).
    rewrite <- E1 in L1, L2, L3, L4. cbn [u_log u_jobs u_canceled u_rows] in *.
    split; [rewrite L1, <- app_assoc; reflexivity|]. split; [|split].
    + rewrite L2, !map_map. apply map_ext. intros j. cbn [job_run].
      destruct (uc_job failed newly j) as [j' b] eqn:E; destruct b; cbn [fst]; [|reflexivity].
      destruct (uc_job_canceled _ _ _ _ E) as [_ [_ [_ [_ ->]]]]. rewrite job_run_not_waiting; reflexivity.
    + intros c. rewrite L3. rewrite in_app_iff. rewrite E2. rewrite (Hc c). split.
      * intros [[X|[j [Hj [Hn Hs]]]]|[j1 [Hj1 [Hn Hs]]]]; [left; exact X| |].
        -- right. exists j. repeat split; auto. cbn [job_run]. destruct (uc_job failed newly j) as [j' b]; cbn in Hs; subst b. reflexivity.
        -- apply in_map_iff in Hj1. destruct Hj1 as [[j1' b1] [E Hp]]. cbn in E. subst j1'.
           apply in_map_iff in Hp. destruct Hp as [j [E' Hj]]. right. exists j. split; [exact Hj|].
           pose proof (uc_job_name failed newly j) as X. rewrite E' in X. cbn in X.
           split; [congruence|]. cbn [job_run]. rewrite E'. destruct b1; [reflexivity|exact Hs].
      * intros [X|[j [Hj [Hn Hs]]]]; [left; left; exact X|].
        cbn [job_run] in Hs. destruct (uc_job failed newly j) as [j' b] eqn:E'; destruct b.
        -- left. right. exists j. rewrite E'. auto.
        -- right. exists j'. split; [apply in_map_iff; exists (j', false); split; [reflexivity|apply in_map_iff; exists j; auto]|]. split; [|exact Hs].
           pose proof (uc_job_name failed newly j) as X. rewrite E' in X. cbn in X. congruence.
    + intros X. apply L4. rewrite E2. rewrite X, map_app. reflexivity.
Qed.

Theorem update_completed_cancels_iff feeds jobs u : update_completed feeds jobs = Some u -> NoDup (map c_name jobs) ->
  (forall j, In j jobs ->
     (In (c_name j) (u_canceled u) <-> is_waiting j = true /\ c_flag j = true /\ cancels (c_blocked j) (u_log u) = true)) /\
  u_rows u = map sub_cancel_row (u_canceled u) /\
  (forall j, In j jobs -> exists j', In j' (u_jobs u) /\ c_name j' = c_name j /\ c_flag j' = c_flag j /\
     (In (c_name j) (u_canceled u) -> c_state j' = DONE /\ c_blocked j' = []) /\
     (~ In (c_name j) (u_canceled u) -> c_state j' = c_state j /\
        c_blocked j' = if is_waiting j then remaining (c_blocked j) (u_log u) else c_blocked j)).
Proof.
  intros H ND. unfold update_completed in H. destruct (uc_loop_log _ _ _ _ _ H) as [log [L1 [L2 [L3 L4]]]].
  cbn [u_init u_log u_jobs u_canceled u_rows] in *.
  assert (Hrun : forall j, In j jobs -> (In (c_name j) (u_canceled u) <-> snd (job_run log j) = true)).
  { intros j Hj. rewrite L3. split.
    - intros [[]|[j2 [Hj2 [Hn Hs]]]]. assert (j2 = j); [|subst; exact Hs].
      clear - ND Hj Hj2 Hn. induction jobs as [|a l IH]; [destruct Hj|]. cbn in ND. inversion ND as [|x y Hni Hnd]; subst.
      destruct Hj as [->|Hj]; destruct Hj2 as [->|Hj2]; auto.
      + exfalso. apply Hni. rewrite <- Hn. apply in_map. exact Hj2.
      + exfalso. apply Hni. rewrite Hn. apply in_map. exact Hj.
    - intros Hs. right. exists j. auto. }
  cbn [app] in L1. rewrite L1.
  split; [|split; [apply L4; reflexivity|]].
  - intros j Hj. rewrite (Hrun j Hj). destruct (is_waiting j) eqn:W.
    + destruct (job_run_spec log j W) as [A _]. rewrite A, andb_true_iff. tauto.
    + rewrite job_run_not_waiting by exact W. cbn. split; [discriminate|intros [X _]; discriminate].
  - intros j Hj. exists (fst (job_run log j)). split; [rewrite L2; apply in_map_iff; exists j; auto|].
    destruct (is_waiting j) eqn:W.
    + destruct (job_run_spec log j W) as [A [B [C [D F]]]].
      split; [exact B|]. split; [exact C|]. split.
      * intros X. apply (Hrun j Hj) in X. exact (D X).
      * intros X. destruct (snd (job_run log j)) eqn:S; [exfalso; apply X; apply (Hrun j Hj); exact S|].
        destruct (F eq_refl) as [F1 F2]. unfold is_waiting in W. destruct (c_state j); try discriminate. split; [exact F1|exact F2].
    + rewrite job_run_not_waiting by exact W. cbn [fst].
      split; [reflexivity|]. split; [reflexivity|]. split.
      * intros X. apply (Hrun j Hj) in X. rewrite job_run_not_waiting in X by exact W. discriminate.
      * intros _. split; reflexivity.
Qed.

(* ------------------------------------------------------------------------------------------ *)
(* (b) node level: termination and the exact rule of one scan of the queued jobs                *)
Lemma cc_loop_terminates : forall fuel fin st, length (qs_queued st) < fuel -> cc_loop fuel fin st <> None.
Proof.
  induction fuel as [|f IH]; intros fin st H; [lia|]. cbn [cc_loop].
  destruct (Nat.ltb_spec (length (qs_queued (cc_iter (hd [] fin) st))) (length (qs_queued st))) as [L|L]; [|discriminate].
  apply IH. lia.
Qed.
Theorem check_completions_terminates fin out queued : check_completions fin out queued <> None.
Proof. unfold check_completions. apply cc_loop_terminates. cbn. lia. Qed.

Lemma remaining_spec log : forall b x, In x (remaining b log) <-> In x b /\ forall e, In e log -> ~ In x (snd e).
Proof.
  induction log as [|e log IH]; intros b x; cbn [remaining fold_left].
  - split; [intros H; split; [exact H|intros e []]|tauto].
  - fold (remaining (diffN b (snd e)) log). rewrite IH, diffN_spec. split.
    + intros [[H1 H2] H3]. split; [exact H1|]. intros e' [<-|H]; [exact H2|apply H3; exact H].
    + intros [H1 H2]. split; [split; [exact H1|apply H2; left; reflexivity]|]. intros e' H. apply H2. right. exact H.
Qed.

(* one scan of the queued jobs for one completed name: a queued job is canceled iff it is flagged, still
   blocked, and one of its blockers is in failed_jobs; a job that stays loses exactly [name] *)
Theorem check_completions_cancels_iff failed name q :
  (cc_job failed name q = inr (q_name q) <-> q_blocking q <> [] /\ q_flag q = true /\ meets (q_blocking q) failed = true) /\
  (forall n, cc_job failed name q = inr n -> n = q_name q) /\
  (forall q', cc_job failed name q = inl q' ->
     q_name q' = q_name q /\ q_flag q' = q_flag q /\ forall x, In x (q_blocking q') <-> In x (q_blocking q) /\ x <> name).
Proof.
  unfold cc_job. destruct (q_blocking q) as [|b bl] eqn:B.
  - split; [split; [discriminate|intros [X _]; congruence]|]. split; [discriminate|].
    intros q' E. inversion E; subst q'. rewrite B. split; [reflexivity|]. split; [reflexivity|].
    intros x. split; [intros []|intros [[] _]].
  - destruct (q_flag q && meets (b :: bl) failed) eqn:M.
    + apply andb_true_iff in M. destruct M as [M1 M2]. split; [split; [intros _; repeat split; auto; discriminate|reflexivity]|].
      split; [|discriminate]. intros n E. inversion E. reflexivity.
    + split; [split; [destruct (memN name (b :: bl)); discriminate|]|].
      * intros [_ [X Y]]. rewrite X, Y in M. discriminate.
      * split; [destruct (memN name (b :: bl)); discriminate|].
        intros q' E. destruct (memN name (b :: bl)) eqn:Mem; injection E as <-; cbn [q_name q_flag q_blocking].
        -- split; [reflexivity|]. split; [reflexivity|]. intros x.
           assert (D : In x (diffN (b :: bl) [name]) <-> In x (b :: bl) /\ x <> name).
           { rewrite diffN_spec. split.
             - intros [H1 H2]. split; [exact H1|]. intros ->. apply H2. left; reflexivity.
             - intros [H1 H2]. split; [exact H1|]. intros [X|[]]. congruence. }
           exact D.
        -- rewrite B. split; [reflexivity|]. split; [reflexivity|]. intros x. apply memN_false in Mem. split.
           ++ intros H. split; [exact H|]. intros ->. exact (Mem H).
           ++ intros [H1 _]. exact H1.
Qed.

Lemma cancel_records : forall n,
  is_canceled (r_rc (sub_cancel_row n)) (r_status (sub_cancel_row n)) = true /\
  is_canceled (r_rc (node_cancel_row n)) (r_status (node_cancel_row n)) = true /\
  r_rc (sub_cancel_row n) <> 0%Z /\ r_rc (node_cancel_row n) <> 0%Z /\
  sub_is_failure (r_rc (sub_cancel_row n)) = true /\ sub_is_failure (r_rc (node_cancel_row n)) = true /\
  node_is_failure (r_rc (node_cancel_row n)) = true.
Proof.
  intros n. pose proof sub_cancel_rc_failure. pose proof node_cancel_rc_failure.
  repeat split; try apply sub_cancel_row_canceled; try apply node_cancel_row_canceled; cbn; tauto.
Qed.

Lemma cancel_exact : forall sc, acyclic sc -> NoDup (map jname sc) ->
  forall evs s, sys_run sc (sys_init sc) evs = Some s ->
  forall r j, In r (s_rows s) -> find_job sc (r_name r) = Some j ->
  (row_outcome r = Canceled <-> jflag j = true /\ exists d, In d (jdeps j) /\ bad (reference sc d) = true) /\
  (jflag j = false -> row_outcome r = Finished (jrc j)).
Proof.
  intros sc A ND evs s H r j Hr F. destruct (level_agnostic sc A ND evs s H) as [R _]. rewrite (R r Hr). split.
  - exact (reference_canceled_iff sc A _ j F).
  - exact (reference_unflagged sc A _ j F).
Qed.

(* canceled => some blocker is in the failed set accumulated over all iterations (the converse needs every
   name to be reported at most once: a name removed as completed in iteration i and reported failed only in a
   later iteration k > i cancels nothing - see the correspondence case with duplicate rows) *)
Definition all_failed (log : list (list N * list N)) : list N := concat (map fst log).
Lemma cancels_sound log : forall b, cancels b log = true -> meets b (all_failed log) = true.
Proof.
  induction log as [|[f n] log IH]; intros b H; [discriminate|]. cbn [cancels] in H. unfold all_failed. cbn [map concat fst].
  apply orb_true_iff in H. apply meets_spec. destruct H as [H|H].
  - apply meets_spec in H. destruct H as [x [H1 H2]]. exists x. split; [exact H1|apply in_or_app; left; exact H2].
  - apply IH in H. apply meets_spec in H. destruct H as [x [H1 H2]]. apply diffN_spec in H1. exists x.
    split; [tauto|apply in_or_app; right; exact H2].
Qed.
Lemma cancels_refuted_converse :
  exists b log, meets b (all_failed log) = true /\ cancels b log = false.
Proof. exists [1%N], [([], [1%N]); ([1%N], [1%N])]. split; reflexivity. Qed.
