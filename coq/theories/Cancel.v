(* C04 - failure cancellation.  Executable models (no proofs here) of

   (a) HpcSubmitter._update_completed_jobs + _cancel_job   (jade/hpc/hpc_submitter.py)
   (b) JobQueue._check_completions                         (jade/jobs/job_queue.py)
   (c) the result records written on completion / cancellation (AsyncCliCommand._complete/.cancel)
   and the specification function [reference].

   Constants and predicates that are declarative in the source (return code and status of the
   canceled records, the failure tests `return_code != 0`, Result.is_successful/is_failed/
   is_canceled) come from Gen/ResultGen.v, regenerated from /repo on every run.

   Aliasing / state threading (DESIGN 2.2):
   * the cluster Job objects are mutated in place by _update_completed_jobs (state, blocked_by):
     [u_jobs] is threaded through the loop, listing order = Cluster.iter_jobs order;
   * `iter_jobs(state=NOT_SUBMITTED)` is a generator that tests job.state lazily; _cancel_job only
     changes the state of the job being visited, so one pass of the `for` loop is a [map];
   * _cancel_job appends the canceled row to processed_results.csv (NOT to a node file), so
     process_results() never hands it back: it reaches the next iteration only through
     `new_results` ([pending]);
   * `failed_jobs` is a fresh set in every iteration of the submitter's loop while
     `newly_completed` accumulates; in JobQueue._check_completions `failed_jobs` accumulates over
     the iterations of one call;
   * Python sets are lists here; membership is all that is ever used ([diffN], [meets]). *)
From Coq Require Import String List ZArith NArith Bool Arith.
From Jade Require Import Base.
From Jade.Gen Require Import ResultGen.
Import ListNotations.
Open Scope bool_scope.
Open Scope list_scope.

(* ------------------------------------------------------------------------------------------ *)
(* scenario and reference outcome                                                               *)
Record job := { jname : N; jdeps : list N; jflag : bool; jrc : Z }.
Definition scenario := list job.
Inductive outcome := Finished (rc : Z) | Canceled.

Definition outcome_eqb (a b : outcome) : bool :=
  match a, b with
  | Finished x, Finished y => Z.eqb x y
  | Canceled, Canceled => true
  | _, _ => false
  end.

(* an outcome that cancels flagged dependents: non-zero exit, or canceled *)
Definition bad (o : outcome) : bool :=
  match o with Finished rc => negb (Z.eqb rc 0) | Canceled => true end.

Fixpoint find_job (sc : scenario) (n : N) : option job :=
  match sc with
  | [] => None
  | j :: r => if N.eqb (jname j) n then Some j else find_job r n
  end.

Fixpoint ref_fuel (fuel : nat) (sc : scenario) (n : N) : outcome :=
  match find_job sc n with
  | None => Finished 0
  | Some j =>
    match fuel with
    | O => Finished (jrc j)
    | S f => if jflag j && existsb (fun d => bad (ref_fuel f sc d)) (jdeps j)
             then Canceled else Finished (jrc j)
    end
  end.
Definition reference (sc : scenario) (n : N) : outcome := ref_fuel (length sc) sc n.

(* ------------------------------------------------------------------------------------------ *)
(* result rows                                                                                  *)
Record row := { r_name : N; r_rc : Z; r_status : string }.
Definition row_eqb (a b : row) : bool :=
  N.eqb (r_name a) (r_name b) && Z.eqb (r_rc a) (r_rc b) && String.eqb (r_status a) (r_status b).
Definition sub_cancel_row (n : N) : row := {| r_name := n; r_rc := sub_cancel_rc; r_status := sub_cancel_status |}.
Definition node_cancel_row (n : N) : row := {| r_name := n; r_rc := node_cancel_rc; r_status := node_cancel_status |}.
Definition finish_row (n : N) (rc : Z) : row := {| r_name := n; r_rc := rc; r_status := finish_status |}.

(* what a row says, read with the generated predicates *)
Definition row_outcome (r : row) : outcome :=
  if is_canceled (r_rc r) (r_status r) then Canceled else Finished (r_rc r).

Definition meets (a b : list N) : bool := existsb (fun x => memN x b) a.

(* ------------------------------------------------------------------------------------------ *)
(* (a) submitter level                                                                          *)
Inductive jstate := NOT_SUBMITTED | SUBMITTED | DONE.
Definition jstate_eqb (a b : jstate) : bool :=
  match a, b with
  | NOT_SUBMITTED, NOT_SUBMITTED | SUBMITTED, SUBMITTED | DONE, DONE => true
  | _, _ => false
  end.
Record cjob := { c_name : N; c_blocked : list N; c_flag : bool; c_state : jstate }.

Definition names_of (rs : list row) : list N := map r_name rs.
Definition failed_of (rs : list row) : list N :=
  map r_name (filter (fun r => sub_is_failure (r_rc r)) rs).

(* body of `for job in self._cluster.iter_jobs(state=JobState.NOT_SUBMITTED)`; true = canceled *)
Definition uc_job (failed newly : list N) (j : cjob) : cjob * bool :=
  match c_state j, c_blocked j with
  | NOT_SUBMITTED, _ :: _ =>
    if c_flag j && meets (c_blocked j) failed
    then ({| c_name := c_name j; c_blocked := []; c_flag := c_flag j; c_state := DONE |}, true)
    else ({| c_name := c_name j; c_blocked := diffN (c_blocked j) newly; c_flag := c_flag j;
             c_state := c_state j |}, false)
  | _, _ => (j, false)
  end.

Record ustate := {
  u_jobs : list cjob;
  u_newly : list N;                 (* newly_completed (a set) *)
  u_canceled : list N;              (* canceled_jobs, in order *)
  u_rows : list row;                (* rows appended to processed_results.csv by _cancel_job *)
  u_log : list (list N * list N)    (* ghost: (failed_jobs, newly_completed) of every iteration *)
}.

(* one iteration of `while need_to_rerun`: results = process_results() ++ new_results.
   Returns the new state and the names canceled in this iteration (their rows are new_results of
   the next iteration; need_to_rerun iff the list is non-empty). *)
Definition uc_iter (feed pending : list row) (st : ustate) : ustate * list N :=
  let results := feed ++ pending in
  let newly := u_newly st ++ names_of results in
  let failed := failed_of results in
  let pr := map (uc_job failed newly) (u_jobs st) in
  let canc := map (fun p => c_name (fst p)) (filter snd pr) in
  ({| u_jobs := map fst pr; u_newly := newly; u_canceled := u_canceled st ++ canc;
      u_rows := u_rows st ++ map sub_cancel_row canc;
      u_log := u_log st ++ [(failed, newly)] |}, canc).

(* `while need_to_rerun`.  feeds = what aggregator.process_results() returns in the 1st, 2nd, ...
   iteration (nodes may write results between iterations); pending = new_results. *)
Fixpoint uc_loop (fuel : nat) (feeds : list (list row)) (pending : list row) (st : ustate) : option ustate :=
  match fuel with
  | O => None
  | S f =>
    match uc_iter (hd [] feeds) pending st with
    | (st', []) => Some st'
    | (st', canc) => uc_loop f (tl feeds) (map sub_cancel_row canc) st'
    end
  end.

Definition u_init (jobs : list cjob) : ustate :=
  {| u_jobs := jobs; u_newly := []; u_canceled := []; u_rows := []; u_log := [] |}.
Definition update_completed (feeds : list (list row)) (jobs : list cjob) : option ustate :=
  uc_loop (S (length jobs)) feeds [] (u_init jobs).

(* ------------------------------------------------------------------------------------------ *)
(* (b) node level                                                                               *)
Record qjob := { q_name : N; q_blocking : list N; q_flag : bool }.
(* an entry of _outstanding_jobs: a launched job, or a canceled job parked there (is_complete() is
   True at once, return_code = node_cancel_rc) *)
Inductive ojob := ORunning (n : N) | OCanceled (n : N).
Definition o_name (o : ojob) : N := match o with ORunning n | OCanceled n => n end.

Record qstate := {
  qs_out : list ojob;        (* _outstanding_jobs (an OrderedDict), in order *)
  qs_queued : list qjob;     (* _queued_jobs *)
  qs_rows : list row;        (* rows appended to results_batch_N.csv during the call *)
  qs_failed : list N;        (* failed_jobs *)
  qs_completed : list N      (* ghost: names popped as completed, in order *)
}.

Fixpoint assocN {A} (k : N) (l : list (N * A)) : option A :=
  match l with [] => None | (k', v) :: r => if N.eqb k k' then Some v else assocN k r end.

(* body of `for i, job in enumerate(self._queued_jobs)` for one completed [name]; inl = stays queued *)
Definition cc_job (failed : list N) (name : N) (q : qjob) : qjob + N :=
  match q_blocking q with
  | [] => inl q
  | _ :: _ =>
    if q_flag q && meets (q_blocking q) failed then inr (q_name q)
    else if memN name (q_blocking q)
         then inl {| q_name := q_name q; q_blocking := diffN (q_blocking q) [name]; q_flag := q_flag q |}
         else inl q
  end.

Fixpoint lefts {A B} (l : list (A + B)) : list A :=
  match l with [] => [] | inl a :: r => a :: lefts r | inr _ :: r => lefts r end.
Fixpoint rights {A B} (l : list (A + B)) : list B :=
  match l with [] => [] | inl _ :: r => rights r | inr b :: r => b :: rights r end.

(* body of `for name in completed_jobs` *)
Definition cc_name (st : qstate) (name : N) : qstate :=
  let res := map (cc_job (qs_failed st) name) (qs_queued st) in
  let canc := rights res in
  {| qs_out := filter (fun o => negb (N.eqb (o_name o) name)) (qs_out st) ++ map OCanceled canc;
     qs_queued := lefts res;
     qs_rows := qs_rows st ++ map node_cancel_row canc;
     qs_failed := qs_failed st;
     qs_completed := qs_completed st ++ [name] |}.

(* first `for` of an iteration: which outstanding jobs report is_complete() (obs = the running
   jobs whose process has ended, with exit status), their rows (written by _complete inside
   is_complete()), and the additions to failed_jobs *)
Definition cc_poll (obs : list (N * Z)) (out : list ojob) : list (N * Z * bool) :=
  flat_map (fun o => match o with
                     | ORunning n => match assocN n obs with Some rc => [(n, rc, true)] | None => [] end
                     | OCanceled n => [(n, node_cancel_rc, false)]
                     end) out.

(* one iteration of the `while need_to_rerun` loop of _check_completions *)
Definition cc_iter (obs : list (N * Z)) (st : qstate) : qstate :=
  let polled := cc_poll obs (qs_out st) in
  let st1 := {| qs_out := qs_out st; qs_queued := qs_queued st;
                qs_rows := qs_rows st ++ map (fun p => finish_row (fst (fst p)) (snd (fst p))) (filter snd polled);
                qs_failed := qs_failed st ++ map (fun p => fst (fst p)) (filter (fun p => node_is_failure (snd (fst p))) polled);
                qs_completed := qs_completed st |} in
  fold_left cc_name (map (fun p => fst (fst p)) polled) st1.

Fixpoint cc_loop (fuel : nat) (fin : list (list (N * Z))) (st : qstate) : option qstate :=
  match fuel with
  | O => None
  | S f =>
    let st2 := cc_iter (hd [] fin) st in
    if Nat.ltb (length (qs_queued st2)) (length (qs_queued st))
    then cc_loop f (tl fin) st2     (* some queued job was canceled: need_to_rerun *)
    else Some st2
  end.

Definition q_init (out : list ojob) (queued : list qjob) : qstate :=
  {| qs_out := out; qs_queued := queued; qs_rows := []; qs_failed := []; qs_completed := [] |}.
Definition check_completions (fin : list (list (N * Z))) (out : list ojob) (queued : list qjob) : option qstate :=
  cc_loop (S (length queued)) fin (q_init out queued).

(* ------------------------------------------------------------------------------------------ *)
(* (d) the two levels together: a submission as a sequence of detection events                  *)
Record sys := {
  s_cluster : list cjob;             (* the submitter's job list (Cluster.job_status.jobs) *)
  s_queued : list (N * qjob);        (* (batch id, job queued on that batch's node) *)
  s_running : list (N * N);          (* (batch id, name): started, result not yet recorded *)
  s_rows : list row;                 (* every result row written so far, by anyone *)
  s_launched : list N                (* commands started *)
}.

Inductive event :=
| EvSubmitter (feeds : list (list row))       (* one _update_completed_jobs call; feeds: portions of written rows handed to it *)
| EvBatch (b : N) (names : list N)            (* the waiting jobs among [names] are handed to node b with their remaining blockers *)
| EvStart (b : N) (n : N)                     (* node b starts queued job n, which has no blockers left *)
| EvNode (b : N) (fin : list (list (N * Z))). (* one _check_completions call on node b; fin: observed process ends *)

Definition sys_init (sc : scenario) : sys :=
  {| s_cluster := map (fun j => {| c_name := jname j; c_blocked := jdeps j; c_flag := jflag j; c_state := NOT_SUBMITTED |}) sc;
     s_queued := []; s_running := []; s_rows := []; s_launched := [] |}.

Definition is_waiting (j : cjob) : bool := jstate_eqb (c_state j) NOT_SUBMITTED.
Definition batched (names : list N) (j : cjob) : bool := is_waiting j && memN (c_name j) names.
Definition on_node (b : N) {A} (p : N * A) : bool := N.eqb (fst p) b.
Definition startable (b n : N) (p : N * qjob) : bool :=
  N.eqb (fst p) b && N.eqb (q_name (snd p)) n && match q_blocking (snd p) with [] => true | _ => false end.
Definition rc_matches (sc : scenario) (p : N * Z) : bool :=
  match find_job sc (fst p) with Some j => Z.eqb (jrc j) (snd p) | None => false end.
Definition running_names (o : list ojob) : list N :=
  flat_map (fun x => match x with ORunning n => [n] | OCanceled _ => [] end) o.

Definition sys_step (sc : scenario) (s : sys) (ev : event) : option sys :=
  match ev with
  | EvSubmitter feeds =>
    if forallb (fun r => existsb (row_eqb r) (s_rows s)) (concat feeds) then
      match update_completed feeds (s_cluster s) with
      | Some u => Some {| s_cluster := u_jobs u; s_queued := s_queued s; s_running := s_running s;
                          s_rows := s_rows s ++ u_rows u; s_launched := s_launched s |}
      | None => None
      end
    else None
  | EvBatch b names =>
    Some {| s_cluster := map (fun j => if batched names j
                                       then {| c_name := c_name j; c_blocked := []; c_flag := c_flag j; c_state := SUBMITTED |}
                                       else j) (s_cluster s);
            s_queued := s_queued s ++ map (fun j => (b, {| q_name := c_name j; q_blocking := c_blocked j; q_flag := c_flag j |}))
                                          (filter (batched names) (s_cluster s));
            s_running := s_running s; s_rows := s_rows s; s_launched := s_launched s |}
  | EvStart b n =>
    if existsb (startable b n) (s_queued s) then
      Some {| s_cluster := s_cluster s; s_queued := filter (fun p => negb (startable b n p)) (s_queued s);
              s_running := s_running s ++ [(b, n)]; s_rows := s_rows s; s_launched := s_launched s ++ [n] |}
    else None
  | EvNode b fin =>
    if forallb (rc_matches sc) (concat fin) then
      match check_completions fin (map (fun p => ORunning (snd p)) (filter (on_node b) (s_running s)))
                              (map snd (filter (on_node b) (s_queued s))) with
      | Some q => Some {| s_cluster := s_cluster s;
                          s_queued := filter (fun p => negb (on_node b p)) (s_queued s) ++ map (pair b) (qs_queued q);
                          s_running := filter (fun p => negb (on_node b p)) (s_running s) ++ map (pair b) (running_names (qs_out q));
                          s_rows := s_rows s ++ qs_rows q; s_launched := s_launched s |}
      | None => None
      end
    else None
  end.

Fixpoint sys_run (sc : scenario) (s : sys) (evs : list event) : option sys :=
  match evs with
  | [] => Some s
  | e :: r => match sys_step sc s e with Some s' => sys_run sc s' r | None => None end
  end.

(* ------------------------------------------------------------------------------------------ *)
(* boolean equalities for the correspondence                                                    *)
Definition seteqN (a b : list N) : bool := subsetN a b && subsetN b a.
Definition cjob_eqb (a b : cjob) : bool :=
  N.eqb (c_name a) (c_name b) && seteqN (c_blocked a) (c_blocked b) && Bool.eqb (c_flag a) (c_flag b)
  && jstate_eqb (c_state a) (c_state b).
Definition qjob_eqb (a b : qjob) : bool :=
  N.eqb (q_name a) (q_name b) && seteqN (q_blocking a) (q_blocking b) && Bool.eqb (q_flag a) (q_flag b).
Definition ojob_eqb (a b : ojob) : bool :=
  match a, b with
  | ORunning x, ORunning y | OCanceled x, OCanceled y => N.eqb x y
  | _, _ => false
  end.
