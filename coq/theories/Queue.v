(* Model of jade/jobs/job_queue.py::JobQueue as it is used on a compute node
   (JobRunner._run_jobs -> JobQueue.run_jobs: submit every job, then process_queue until empty) and
   by a submitter round (HpcSubmitter.run: JobQueue(max_nodes, existing_jobs=persisted ids),
   process_queue(), then `if not queue.is_full(): queue.submit(batch)`).

   The jobs are seen through AsyncJobInterface only.  Per job: name, blocking set, the
   cancel_on_blocking_job_failure flag.  Everything the environment decides is an explicit INPUT of
   an operation, never an axiom:
     - `ans : list (option Z)`  the answers of the is_complete() calls made on *running* entries, in
        call order (Some rc = complete with return code rc, None = still running; a stream that is
        exhausted answers "still running").  A pass of _check_completions polls every outstanding
        entry once per iteration of its `while need_to_rerun` loop, so one process_queue may consume
        several answers for the same job.
     - `ok : bool` / `runs : list bool`  what job.run() returns (true = Status.GOOD); exhausted = GOOD.
   A job canceled by _check_completions is PARKED in _outstanding_jobs (the code does
   `self._outstanding_jobs[job.name] = job` after job.cancel()); its is_complete() is True and its
   return code is `cancel_rc` without asking the environment (AsyncCliCommand.cancel sets
   _is_complete = True, _return_code = 1).

   _outstanding_jobs is an OrderedDict keyed by name: `od_set` replaces in place or appends,
   `od_pop` deletes the key.  _queued_jobs is a list; a queued job is kept with the job as submitted
   (`qj_job`) and its current blocking set (`qj_block`; the Python object is mutated through
   remove_blocking_job / set_blocking_jobs).  Blocking sets are duplicate-free lists; the harness
   prints them sorted, removal keeps the order.

   The log (`q_log`, oldest first) records what the queue DID: run() calls, completions observed,
   cancels, names removed from blocking sets.  It is what the theorems talk about and what the
   correspondence compares with the calls the real JobQueue makes on scripted job objects.

   Not modelled: the monitor function (_handle_monitor_func; does not touch the queue), sleeping.
   No proofs here. *)
From Coq Require Import List ZArith NArith Bool Arith.
From Jade Require Import Base.
Import ListNotations.
Open Scope Z_scope.

Record job := { j_name : N; j_block : list N; j_flag : bool }.
Record entry := { e_name : N; e_parked : bool }.
Record qjob := { qj_job : job; qj_block : list N }.

Inductive ev :=
| EvRun (j : job) (blk : list N) (ok : bool) (live : nat)
    (* job.run() was called; blk = its blocking set at that moment; ok = Status.GOOD;
       live = number of outstanding entries that are not parked cancels, right after the call *)
| EvComplete (n : N) (rc : Z)        (* is_complete() of outstanding entry n returned True in _check_completions *)
| EvCancel (j : job) (blk : list N)  (* set_blocking_jobs(set()); cancel();  blk = blocking set before *)
| EvUnblock (jn b : N).              (* job jn: remove_blocking_job(b) *)

Record qstate := {
  q_out : list entry;        (* _outstanding_jobs, insertion order *)
  q_queued : list qjob;      (* _queued_jobs *)
  q_njobs : N;               (* _num_jobs *)
  q_ncompleted : N;          (* _num_completed *)
  q_log : list ev;
  q_err : bool               (* the fuel of the need_to_rerun loop ran out (proved impossible) *)
}.

(* AsyncCliCommand.cancel: self._return_code = 1 *)
Definition cancel_rc : Z := 1.

Definition qname (x : qjob) : N := j_name (qj_job x).
Definition mk_entry (n : N) (p : bool) : entry := {| e_name := n; e_parked := p |}.

Fixpoint od_set (e : entry) (l : list entry) : list entry :=
  match l with
  | [] => [e]
  | x :: r => if N.eqb (e_name x) (e_name e) then e :: r else x :: od_set e r
  end.
Definition od_pop (n : N) (l : list entry) : list entry :=
  filter (fun x => negb (N.eqb (e_name x) n)) l.
Definition live (l : list entry) : nat := length (filter (fun e => negb (e_parked e)) l).
Definition removeN (n : N) (l : list N) : list N := filter (fun x => negb (N.eqb x n)) l.
Definition is_nil {A} (l : list A) : bool := match l with [] => true | _ => false end.

Definition set_out (s : qstate) (o : list entry) : qstate :=
  {| q_out := o; q_queued := q_queued s; q_njobs := q_njobs s; q_ncompleted := q_ncompleted s;
     q_log := q_log s; q_err := q_err s |}.
Definition set_queued (s : qstate) (q : list qjob) : qstate :=
  {| q_out := q_out s; q_queued := q; q_njobs := q_njobs s; q_ncompleted := q_ncompleted s;
     q_log := q_log s; q_err := q_err s |}.
Definition add_log (s : qstate) (evs : list ev) : qstate :=
  {| q_out := q_out s; q_queued := q_queued s; q_njobs := q_njobs s; q_ncompleted := q_ncompleted s;
     q_log := q_log s ++ evs; q_err := q_err s |}.
Definition set_err (s : qstate) : qstate :=
  {| q_out := q_out s; q_queued := q_queued s; q_njobs := q_njobs s; q_ncompleted := q_ncompleted s;
     q_log := q_log s; q_err := true |}.

(* __init__: for job in existing_jobs: self._outstanding_jobs[job.name] = job *)
Definition init (existing : list N) : qstate :=
  {| q_out := fold_left (fun acc n => od_set (mk_entry n false) acc) existing [];
     q_queued := []; q_njobs := 0%N; q_ncompleted := 0%N; q_log := []; q_err := false |}.

(* ---- _check_completions ------------------------------------------------------------------- *)
(* for name, job in self._outstanding_jobs.items(): if job.is_complete(): ...
   -> the (name, return code) of the entries found complete, and the unused answers *)
Fixpoint scan (out : list entry) (ans : list (option Z)) : list (N * Z) * list (option Z) :=
  match out with
  | [] => ([], ans)
  | e :: r =>
    if e_parked e then let '(c, a) := scan r ans in ((e_name e, cancel_rc) :: c, a)
    else match ans with
         | [] => scan r []
         | Some rc :: ans' => let '(c, a) := scan r ans' in ((e_name e, rc) :: c, a)
         | None :: ans' => scan r ans'
         end
  end.

Definition failed_of (comp : list (N * Z)) : list N :=
  map fst (filter (fun c => negb (Z.eqb (snd c) 0)) comp).

Definition must_cancel (failed : list N) (x : qjob) : bool :=
  negb (is_nil (qj_block x)) && j_flag (qj_job x) && negb (is_nil (interN (qj_block x) failed)).

(* the `for i, job in enumerate(self._queued_jobs)` loop for one completed name:
   -> (jobs that stay queued, jobs canceled (in queue order), events in call order) *)
Fixpoint sweep (name : N) (failed : list N) (q : list qjob) : list qjob * list qjob * list ev :=
  match q with
  | [] => ([], [], [])
  | x :: r =>
    let '(kept, canc, evs) := sweep name failed r in
    if must_cancel failed x then (kept, x :: canc, EvCancel (qj_job x) (qj_block x) :: evs)
    else if memN name (qj_block x)
         then ({| qj_job := qj_job x; qj_block := removeN name (qj_block x) |} :: kept, canc,
               EvUnblock (qname x) name :: evs)
         else (x :: kept, canc, evs)
  end.

Definition park (o : list entry) (x : qjob) : list entry := od_set (mk_entry (qname x) true) o.

(* body of `for name in completed_jobs` -> new state, whether a job was canceled *)
Definition handle_one (failed : list N) (s : qstate) (name : N) : qstate * bool :=
  let '(kept, canc, evs) := sweep name failed (q_queued s) in
  ({| q_out := fold_left park canc (od_pop name (q_out s));
      q_queued := kept;
      q_njobs := (q_njobs s + N.of_nat (length canc))%N;
      q_ncompleted := q_ncompleted s;
      q_log := q_log s ++ evs;
      q_err := q_err s |}, negb (is_nil canc)).

Fixpoint handle_all (failed : list N) (s : qstate) (names : list N) : qstate * bool :=
  match names with
  | [] => (s, false)
  | n :: r => let '(s1, c1) := handle_one failed s n in
              let '(s2, c2) := handle_all failed s1 r in (s2, c1 || c2)
  end.

(* one iteration of `while need_to_rerun` *)
Definition check_iter (failed : list N) (s : qstate) (ans : list (option Z))
  : qstate * bool * list N * list (option Z) :=
  let '(comp, ans') := scan (q_out s) ans in
  let failed' := failed ++ failed_of comp in
  let s1 := {| q_out := q_out s; q_queued := q_queued s; q_njobs := q_njobs s;
               q_ncompleted := (q_ncompleted s + N.of_nat (length comp))%N;
               q_log := q_log s ++ map (fun c => EvComplete (fst c) (snd c)) comp;
               q_err := q_err s |} in
  let '(s2, rerun) := handle_all failed' s1 (map fst comp) in
  (s2, rerun, failed', ans').

Fixpoint check_loop (fuel : nat) (failed : list N) (s : qstate) (ans : list (option Z))
  : qstate * list N * list (option Z) :=
  match fuel with
  | O => (set_err s, failed, ans)
  | S f =>
    let '(s2, rerun, failed', ans') := check_iter failed s ans in
    if rerun then check_loop f failed' s2 ans' else (s2, failed', ans')
  end.

(* every rerun has canceled (= removed from the queue) at least one job *)
Definition check_completions (s : qstate) (ans : list (option Z)) : qstate * list N * list (option Z) :=
  check_loop (S (length (q_queued s))) [] s ans.

(* ---- _run_job ------------------------------------------------------------------------------- *)
Definition run_job (s : qstate) (x : qjob) (ok : bool) : qstate :=
  if ok then
    let o := od_set (mk_entry (qname x) false) (q_out s) in
    {| q_out := o; q_queued := q_queued s; q_njobs := (q_njobs s + 1)%N; q_ncompleted := q_ncompleted s;
       q_log := q_log s ++ [EvRun (qj_job x) (qj_block x) true (live o)]; q_err := q_err s |}
  else add_log s [EvRun (qj_job x) (qj_block x) false (live (q_out s))].

Definition pop_run (runs : list bool) : bool * list bool :=
  match runs with [] => (true, []) | b :: r => (b, r) end.

(* ---- is_full / submit ----------------------------------------------------------------------- *)
Definition is_full (depth : Z) (s : qstate) : bool := Z.of_nat (length (q_out s)) >=? depth.

Definition submit (depth : Z) (s : qstate) (j : job) (ok : bool) : qstate :=
  let x := {| qj_job := j; qj_block := j_block j |} in
  if is_full depth s then set_queued s (q_queued s ++ [x])
  else if negb (is_nil (j_block j)) then set_queued s (q_queued s ++ [x])
  else run_job s x ok.

(* ---- process_queue -------------------------------------------------------------------------- *)
(* the `for i, job in enumerate(self._queued_jobs)` loop: count = len(jobs_to_pop) so far.
   -> (state, jobs that stay queued, unused run() results).  A job whose run() fails is popped too. *)
Fixpoint launch (avail : Z) (q : list qjob) (count : Z) (s : qstate) (runs : list bool)
  : qstate * list qjob * list bool :=
  match q with
  | [] => (s, [], runs)
  | x :: r =>
    if negb (is_nil (qj_block x))
    then let '(s', rest, runs') := launch avail r count s runs in (s', x :: rest, runs')
    else let '(ok, runs') := pop_run runs in
         let s1 := run_job s x ok in
         if count + 1 >=? avail then (s1, r, runs') else launch avail r (count + 1) s1 runs'
  end.

Definition process_queue (depth : Z) (s : qstate) (ans : list (option Z)) (runs : list bool) : qstate :=
  let '(s1, _, _) := check_completions s ans in
  if is_nil (q_queued s1) then s1
  else
    let avail := depth - Z.of_nat (length (q_out s1)) in
    if avail =? 0 then s1
    else let '(s2, rest, _) := launch avail (q_queued s1) 0 s1 runs in set_queued s2 rest.

(* ---- operations ----------------------------------------------------------------------------- *)
Inductive op :=
| OpSubmit (j : job) (ok : bool)              (* queue.submit(job) *)
| OpSubmitIfNotFull (j : job) (ok : bool)     (* if not queue.is_full(): queue.submit(job)   (HpcSubmitter) *)
| OpProcess (ans : list (option Z)) (runs : list bool).   (* queue.process_queue() *)

Definition step (depth : Z) (s : qstate) (o : op) : qstate :=
  match o with
  | OpSubmit j ok => submit depth s j ok
  | OpSubmitIfNotFull j ok => if is_full depth s then s else submit depth s j ok
  | OpProcess ans runs => process_queue depth s ans runs
  end.

Definition run_ops (depth : Z) (s : qstate) (ops : list op) : qstate := fold_left (step depth) ops s.

(* JobQueue.run_jobs(jobs, depth): submit all, then `while outstanding or queued: process_queue()`;
   `polls` = the answers of each successive process_queue (run() of AsyncCliCommand returns GOOD). *)
Definition run_jobs_ops (jobs : list job) (polls : list (list (option Z))) : list op :=
  map (fun j => OpSubmit j true) jobs ++ map (fun a => OpProcess a []) polls.

(* HpcSubmitter: max_nodes None -> sys.maxsize *)
Definition maxsize : Z := 9223372036854775807.
Definition hpc_depth (max_nodes : option Z) : Z := match max_nodes with Some n => n | None => maxsize end.

(* one submitter round as far as the queue is concerned: existing ids, one process_queue whose
   answers come from one squeue snapshot, then guarded submits of new batches *)
Definition hpc_round_ops (answers : list (option Z)) (batches : list (N * bool)) : list op :=
  OpProcess answers [] ::
  map (fun b => OpSubmitIfNotFull {| j_name := fst b; j_block := []; j_flag := false |} (snd b)) batches.

(* ---- observation (for the correspondence) ---------------------------------------------------- *)
Definition obs := (list (N * bool) * list (N * list N) * (N * N))%type.
Definition observe (s : qstate) : obs :=
  (map (fun e => (e_name e, e_parked e)) (q_out s),
   map (fun x => (qname x, qj_block x)) (q_queued s),
   (q_njobs s, q_ncompleted s)).
Fixpoint trace_ops (depth : Z) (s : qstate) (ops : list op) : list obs * qstate :=
  match ops with
  | [] => ([], s)
  | o :: r => let s1 := step depth s o in
              let '(l, s2) := trace_ops depth s1 r in (observe s1 :: l, s2)
  end.
Definition job_eqb (a b : job) : bool :=
  N.eqb (j_name a) (j_name b) && list_eqb N.eqb (j_block a) (j_block b) && Bool.eqb (j_flag a) (j_flag b).
Definition ev_eqb (a b : ev) : bool :=
  match a, b with
  | EvRun j1 b1 o1 l1, EvRun j2 b2 o2 l2 => job_eqb j1 j2 && list_eqb N.eqb b1 b2 && Bool.eqb o1 o2 && Nat.eqb l1 l2
  | EvComplete n1 r1, EvComplete n2 r2 => N.eqb n1 n2 && Z.eqb r1 r2
  | EvCancel j1 b1, EvCancel j2 b2 => job_eqb j1 j2 && list_eqb N.eqb b1 b2
  | EvUnblock a1 b1, EvUnblock a2 b2 => N.eqb a1 a2 && N.eqb b1 b2
  | _, _ => false
  end.
Definition obs_eqb : obs -> obs -> bool :=
  prod_eqb (prod_eqb (list_eqb (prod_eqb N.eqb Bool.eqb)) (list_eqb (prod_eqb N.eqb (list_eqb N.eqb))))
           (prod_eqb N.eqb N.eqb).
(* what the correspondence compares: state after every op, the whole log, the fuel flag *)
Definition trace (depth : Z) (existing : list N) (ops : list op) : list obs * list ev * bool :=
  let '(l, s) := trace_ops depth (init existing) ops in (l, q_log s, q_err s).
Definition trace_eqb (a b : list obs * list ev * bool) : bool :=
  prod_eqb (prod_eqb (list_eqb obs_eqb) (list_eqb ev_eqb)) Bool.eqb a b.
