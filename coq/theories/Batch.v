(* Model of batch construction in jade/hpc/hpc_submitter.py:
     _BatchJobs (try_append, is_job_blocked), HpcSubmitter._make_batch, _get_available_jobs[_by_time],
     _submit_batches, and the group loop of HpcSubmitter.run (the round of a submission that is NOT canceled:
     on a canceled submission run() skips the loop, which is C14's subject).
   Job names and group names are opaque (N).  Durations: estimates in minutes (Z), limits in seconds.
   The three comparisons (time test and size test of try_append, JobQueue.is_full) come from
   Gen/BatchGen.v, regenerated from the source on every check run.
   Aliasing noted: the jobs handed to _make_batch are the cluster's Job objects; the blocked_by that
   reaches config_batch_N.json is the cluster job's REMAINING blocker set (set_blocking_jobs).
   Not modelled: JADE_SKIP_SORT_BY_TIME (time-based lists are always sorted here), singularity wrapper
   scripts, the text of the scripts (C18).  Membership tests by job name assume unique job names.
   No proofs here. *)
From Coq Require Import List ZArith NArith Bool Arith.
From Jade Require Import Base.
From Jade.Gen Require Import BatchGen.   (* time_exceeded, size_reached, queue_full: generated from the source *)
Import ListNotations.
Open Scope Z_scope.

Record cjob := { jname : N; jblocked : list N; jest : Z; jgroup : N }.
Record gparams := {
  g_name : N;
  g_size : N;          (* per_node_batch_size *)
  g_time : bool;       (* time_based_batching *)
  g_max : Z;           (* get_wall_time() * num_parallel_processes_per_node, in seconds *)
  g_try : bool;        (* try_add_blocked_jobs *)
  g_dry : bool         (* dry_run *)
}.
Record batch := { b_jobs : list cjob; b_time : Z; b_ready : bool }.
Definition empty_batch : batch := {| b_jobs := []; b_time := 0; b_ready := false |}.
Definition names (l : list cjob) : list N := map jname l.

(* _BatchJobs.try_append *)
Definition try_append (p : gparams) (b : batch) (j : cjob) : batch * bool :=
  if g_time p && time_exceeded (b_time b) (60 * jest j) (g_max p)
  then ({| b_jobs := b_jobs b; b_time := b_time b; b_ready := true |}, false)
  else
    let jobs' := b_jobs b ++ [j] in
    if g_time p
    then ({| b_jobs := jobs'; b_time := b_time b + 60 * jest j; b_ready := b_ready b |}, true)
    else ({| b_jobs := jobs'; b_time := b_time b;
             b_ready := b_ready b || size_reached (N.of_nat (length jobs')) (g_size p) |}, true).

(* _BatchJobs.is_job_blocked *)
Definition is_blocked (p : gparams) (b : batch) (j : cjob) : bool :=
  match jblocked j with
  | [] => false
  | _ => negb (g_try p && subsetN (jblocked j) (names (b_jobs b)))
  end.

(* state of one _make_batch call: the batch, blocked_jobs_by_name (insertion ordered), highest_index *)
Record st := { s_batch : batch; s_blocked : list cjob; s_hi : Z }.
Definition add_blocked (j : cjob) (l : list cjob) : list cjob :=
  if memN (jname j) (names l) then l else l ++ [j].
Definition del_blocked (n : N) (l : list cjob) : list cjob :=
  filter (fun x => negb (N.eqb (jname x) n)) l.

(* body of the inner loop for a job that is not yet in the batch; i = its index *)
Definition visit (p : gparams) (i : Z) (j : cjob) (s : st) : st :=
  let hi := Z.max (s_hi s) i in
  if is_blocked p (s_batch s) j
  then {| s_batch := s_batch s; s_blocked := add_blocked j (s_blocked s); s_hi := hi |}
  else
    let '(b', ok) := try_append p (s_batch s) j in
    if ok
    then {| s_batch := b'; s_blocked := del_blocked (jname j) (s_blocked s); s_hi := hi |}
    else {| s_batch := b'; s_blocked := s_blocked s;
            s_hi := if i =? hi then hi - 1 else hi |}.   (* elif i == highest_index: highest_index -= 1 *)

Definition stop (navail : nat) (s : st) : bool :=
  b_ready (s_batch s) || Nat.eqb (length (b_jobs (s_batch s))) navail.

(* one `for i, job in enumerate(available_jobs)` sweep; returns (state, done) *)
Fixpoint pass (p : gparams) (navail : nat) (l : list cjob) (i : Z) (s : st) : st * bool :=
  match l with
  | [] => (s, false)
  | j :: l' =>
    if memN (jname j) (names (b_jobs (s_batch s)))
    then pass p navail l' (i + 1)
           {| s_batch := s_batch s; s_blocked := s_blocked s; s_hi := Z.max (s_hi s) i |}   (* continue *)
    else
      let s1 := visit p i j s in
      if stop navail s1 then (s1, true) else pass p navail l' (i + 1) s1
  end.

Fixpoint passes (iters : nat) (p : gparams) (avail : list cjob) (s : st) : st :=
  match iters with
  | O => s
  | S f => let '(s', done) := pass p (length avail) avail 0 s in
           if done then s' else passes f p avail s'
  end.

Record mb_result := { mb_batch : list cjob; mb_blocked : list cjob; mb_rest : list cjob }.
(* HpcSubmitter._make_batch *)
Definition make_batch (p : gparams) (avail : list cjob) : mb_result :=
  let s0 := {| s_batch := empty_batch; s_blocked := []; s_hi := -1 |} in
  let iters := if g_try p then length avail else 1%nat in
  let s := passes iters p avail s0 in
  let rest := if s_hi s =? Z.of_nat (length avail) - 1 then [] else skipn (Z.to_nat (s_hi s + 1)) avail in
  {| mb_batch := b_jobs (s_batch s); mb_blocked := s_blocked s; mb_rest := rest |}.

(* ---------- candidate lists ---------- *)
(* stable insertion sort by estimate = list.sort(key=est) *)
Fixpoint insert_by_est (j : cjob) (l : list cjob) : list cjob :=
  match l with
  | [] => [j]
  | x :: r => if jest j <=? jest x then j :: l else x :: insert_by_est j r
  end.
Definition sort_by_est (l : list cjob) : list cjob := fold_right insert_by_est [] l.
(* not_submitted: the cluster's NOT_SUBMITTED jobs in cluster order *)
Definition available (p : gparams) (not_submitted : list cjob) : list cjob :=
  let mine := filter (fun j => N.eqb (jgroup j) (g_name p)) not_submitted in
  if g_time p then sort_by_est mine else mine.

(* ---------- _submit_batches + the group loop of run() ---------- *)
Record sub := { sb_index : N; sb_group : N; sb_jobs : list cjob; sb_ok : bool }.
Record rstate := {
  r_out : N;                 (* len(queue.outstanding_jobs) *)
  r_index : N;               (* self._batch_index *)
  r_oks : list bool;         (* oracle: outcome of the next sbatch calls (missing = success) *)
  r_subs : list sub;         (* batches handed to _submit_batch, in order *)
  r_submitted : list cjob;   (* submitted_jobs *)
  r_blocked : list cjob      (* blocked_jobs *)
}.
Inductive round_result := ROk (r : rstate) | ROutOfFuel.

Definition is_full (depth : N) (r : rstate) : bool := queue_full (r_out r) depth.

Definition submit_batch (p : gparams) (jobs : list cjob) (r : rstate) : rstate :=
  let ok := g_dry p || hd true (r_oks r) in
  {| r_out := if ok then (r_out r + 1)%N else r_out r;
     r_index := (r_index r + 1)%N;
     r_oks := if g_dry p then r_oks r else tl (r_oks r);
     r_subs := r_subs r ++ [{| sb_index := r_index r; sb_group := g_name p; sb_jobs := jobs; sb_ok := ok |}];
     r_submitted := r_submitted r; r_blocked := r_blocked r |}.

(* while not queue.is_full() and available_jobs: ... ; fuel = |available| + 1 suffices when every
   estimate fits an empty batch (BatchProofs.submit_batches_fuel) *)
Fixpoint submit_batches (fuel : nat) (depth : N) (p : gparams) (avail : list cjob) (r : rstate) : round_result :=
  match fuel with
  | O => match avail with [] => ROk r | _ => if is_full depth r then ROk r else ROutOfFuel end
  | S f =>
    match avail with
    | [] => ROk r
    | _ =>
      if is_full depth r then ROk r
      else
        let m := make_batch p avail in
        let r1 := {| r_out := r_out r; r_index := r_index r; r_oks := r_oks r; r_subs := r_subs r;
                     r_submitted := r_submitted r ++ mb_batch m; r_blocked := r_blocked r ++ mb_blocked m |} in
        let r2 := match mb_batch m with [] => r1 | _ => submit_batch p (mb_batch m) r1 end in
        submit_batches f depth p (mb_rest m) r2
    end
  end.

Fixpoint submit_groups (depth : N) (groups : list gparams) (not_submitted : list cjob) (r : rstate) : round_result :=
  match groups with
  | [] => ROk r
  | g :: gs =>
    if is_full depth r then submit_groups depth gs not_submitted r
    else
      let avail := available g not_submitted in
      match submit_batches (S (length avail)) depth g avail r with
      | ROk r' => submit_groups depth gs not_submitted r'
      | ROutOfFuel => ROutOfFuel
      end
  end.

(* the submission part of HpcSubmitter.run: `out0` batches still active, first free batch index *)
Definition submit_round (depth out0 index0 : N) (oks : list bool) (groups : list gparams)
           (not_submitted : list cjob) : round_result :=
  submit_groups depth groups not_submitted
    {| r_out := out0; r_index := index0; r_oks := oks; r_subs := []; r_submitted := []; r_blocked := [] |}.
