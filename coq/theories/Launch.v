(* Launch - model of how a generic_command job is launched and how its result is recorded.
     GenericCommandExecution.generate_command   -> gen_command  (over the GENERATED append_steps)
     JobManagerBase / JobRunner: jobs-output = os.path.join(output, JOBS_OUTPUT_DIR); generate_command
       gets that and takes os.path.dirname of it                       -> path_join, dirname
     AsyncCliCommand.run: shlex.split, environment, stdout/stderr files -> launch_of
     AsyncCliCommand._complete / cancel: the Result that is appended    -> complete_result, cancel_result
     ResultsAggregator._format_row (csv.writer, excel dialect, delimiter comma, empty line
       terminator) and _get_results (csv.DictReader + int() + deserialize_result) for ONE row that
       contains no CR/LF                                                -> format_row, read_result
   Not modelled: the inherited environment, file descriptors, process creation and exit status
   propagation (operating system; observed with a real probe process on every run), float
   formatting of the two time fields (opaque strings here), multi-line csv records. *)
From Coq Require Import String Ascii List Bool NArith ZArith DecimalString DecimalZ.
From Jade Require Import Base Shlex.
From Jade.Gen Require Import LaunchGen.
Import ListNotations.
Open Scope string_scope.

(* ---------- the job as generate_command sees it ---------- *)
Record job := { j_command : string; j_name : string; j_append_name : bool; j_append_out : bool }.

(* ---------- posixpath.join (two components) and posixpath.dirname ---------- *)
Definition c_slash : ascii := "/"%char.
Fixpoint last_char (s : string) : option ascii :=
  match s with
  | EmptyString => None
  | String a r => match r with EmptyString => Some a | _ => last_char r end
  end.
Definition starts_with_slash (s : string) : bool :=
  match s with String a _ => Ascii.eqb a c_slash | EmptyString => false end.
Definition path_join (a b : string) : string :=
  if starts_with_slash b then b
  else match last_char a with
       | None => a ++ b
       | Some c => if Ascii.eqb c c_slash then a ++ b else a ++ String c_slash b
       end.
(* on the reversed character list: everything up to and including the last separator *)
Fixpoint drop_to_slash (l : list ascii) : list ascii :=
  match l with [] => [] | a :: r => if Ascii.eqb a c_slash then l else drop_to_slash r end.
Fixpoint strip_slashes (l : list ascii) : list ascii :=
  match l with a :: r => if Ascii.eqb a c_slash then strip_slashes r else l | [] => [] end.
Definition dirname (p : string) : string :=
  let head_rev := drop_to_slash (rev (chars p)) in
  of_chars (rev (match strip_slashes head_rev with [] => head_rev | stripped => stripped end)).

(* ---------- generate_command ---------- *)
Fixpoint render_tpl (fld : string -> string) (t : list piece) : string :=
  match t with
  | [] => ""
  | Lit s :: r => s ++ render_tpl fld r
  | Fld n :: r => fld n ++ render_tpl fld r
  end.
(* the expressions that may occur in the appended f-strings (translator: APPEND_FIELDS) *)
Definition field_val (j : job) (output : string) (f : string) : string :=
  if f =? "name" then j_name j
  else if f =? "quote_name" then quote (j_name j)
  else if f =? "output_dir" then dirname output
  else if f =? "quote_output_dir" then quote (dirname output)
  else "".
Definition flag_val (j : job) (f : string) : bool :=
  if f =? "append_job_name" then j_append_name j
  else if f =? "append_output_dir" then j_append_out j
  else false.
(* output = the jobs-output directory, as JobRunner passes it *)
Definition gen_command (j : job) (output : string) : string :=
  fold_left (fun cmd st => if flag_val j (fst st) then cmd ++ render_tpl (field_val j output) (snd st) else cmd)
            append_steps (j_command j).

(* specification vocabulary: the documented extra arguments, each ONE argument *)
Definition name_arg (j : job) : string := "--jade-job-name=" ++ j_name j.
Definition out_arg (output : string) : string := "--jade-runtime-output=" ++ dirname output.
Definition extras (j : job) (output : string) : list string :=
  ((if j_append_name j then [name_arg j] else []) ++ (if j_append_out j then [out_arg output] else []))%list.


(* ---------- AsyncCliCommand.run ---------- *)
Record launch := { l_argv : list string; l_env : list (string * string); l_stdout : string; l_stderr : string }.
Definition env_val (output name f : string) : string :=
  if f =? "output" then output else if f =? "name" then name else "".
Definition stdio_file (output name : string) (t : list piece) : string :=
  output ++ "/" ++ stdio_dir ++ "/" ++ render_tpl (fun f => if f =? "name" then name else "") t.
(* None: shlex.split raises ValueError, nothing is started *)
Definition launch_of (name cmd output : string) : option launch :=
  match split cmd with
  | None => None
  | Some argv => Some {| l_argv := argv;
                         l_env := map (fun kv => (fst kv, env_val output name (snd kv))) env_sets;
                         l_stdout := stdio_file output name stdout_name;
                         l_stderr := stdio_file output name stderr_name |}
  end.

(* ---------- the recorded Result ---------- *)
Record result := { r_name : string; r_rc : Z; r_status : string; r_exec : string; r_ctime : string;
                   r_hpc : option string }.
Definition src_of (args : list (string * string)) (field : string) : string :=
  match assoc field args with Some v => v | None => "" end.
(* Result(...) as built in _complete / cancel: each field from the source the GENERATED table names;
   completion_time is not passed: Result.__new__ fills in the current time *)
Definition build_result (args : list (string * string)) (job_name : string) (rc : Z) (exec ctime : string)
           (hpc : option string) : result :=
  {| r_name := if src_of args "name" =? "job_name" then job_name else "";
     r_rc := if src_of args "return_code" =? "return_code" then rc else 0%Z;
     r_status := if src_of args "status" =? "FINISHED" then status_finished
                 else if src_of args "status" =? "CANCELED" then status_canceled else "";
     r_exec := if src_of args "exec_time_s" =? "exec_time_s" then exec
               else if src_of args "exec_time_s" =? "zero" then "0.0" else "";
     r_ctime := ctime;
     r_hpc := if src_of args "hpc_job_id" =? "hpc_job_id" then hpc else None |}.
(* _complete: rc = self._pipe.returncode *)
Definition complete_result := build_result complete_args.
(* cancel: self._return_code = 1 *)
Definition cancel_result (job_name ctime : string) (hpc : option string) :=
  build_result cancel_args job_name 1%Z "" ctime hpc.

(* ---------- the row ---------- *)
(* str(int) *)
Definition z_str (z : Z) : string := NilZero.string_of_int (Z.to_int z).
Definition result_field (r : result) (f : string) : string :=
  if f =? "name" then r_name r
  else if f =? "return_code" then z_str (r_rc r)
  else if f =? "status" then r_status r
  else if f =? "exec_time_s" then r_exec r
  else if f =? "completion_time" then r_ctime r
  else if f =? "hpc_job_id" then match r_hpc r with Some s => s | None => "None" end   (* str(None) *)
  else "".
Definition result_row (r : result) : list string := map (result_field r) result_fields.

(* csv.writer, QUOTE_MINIMAL, quotechar = double quote, doublequote, delimiter comma,
   lineterminator empty (so CR and LF do not trigger quoting in Python 3.12) *)
Definition c_comma : ascii := ","%char.
Definition needs_quote (f : string) : bool :=
  existsb (fun c => Ascii.eqb c c_comma || Ascii.eqb c c_dq) (chars f).
Fixpoint dbl_quotes (s : string) : string :=
  match s with
  | EmptyString => ""
  | String c r => if Ascii.eqb c c_dq then String c_dq (String c_dq (dbl_quotes r)) else String c (dbl_quotes r)
  end.
Definition csv_field (f : string) : string :=
  if needs_quote f then String c_dq (dbl_quotes f ++ String c_dq "") else f.
(* a row consisting of one empty field is written as two double quotes *)
Definition format_row (fields : list string) : string :=
  match fields with
  | [EmptyString] => String c_dq (String c_dq "")
  | _ => join "," (map csv_field fields)
  end.

(* csv.reader, excel dialect (not strict), one line without CR/LF *)
Inductive cstate := CStart | CInField | CInQuoted | CQuoteInQuoted.
Fixpoint parse (s : string) (st : cstate) (cur : string) : list string :=
  match s with
  | EmptyString => [cur]
  | String c r =>
      match st with
      | CStart =>
          if Ascii.eqb c c_dq then parse r CInQuoted cur
          else if Ascii.eqb c c_comma then cur :: parse r CStart ""
          else parse r CInField (snoc cur c)
      | CInField =>
          if Ascii.eqb c c_comma then cur :: parse r CStart "" else parse r CInField (snoc cur c)
      | CInQuoted =>
          if Ascii.eqb c c_dq then parse r CQuoteInQuoted cur else parse r CInQuoted (snoc cur c)
      | CQuoteInQuoted =>
          if Ascii.eqb c c_dq then parse r CInQuoted (snoc cur c_dq)
          else if Ascii.eqb c c_comma then cur :: parse r CStart ""
          else parse r CInField (snoc cur c)
      end
  end.
(* an empty line is an empty record *)
Definition parse_row (s : string) : list string :=
  match s with EmptyString => [] | _ => parse s CStart "" end.

(* the header is written with a plain join *)
Definition header_text : string := join "," result_fields.
(* int(row[return_code]) restricted to what str(int) produces *)
Definition parse_z (s : string) : option Z := option_map Z.of_int (NilZero.int_of_string s).
(* DictReader row -> _get_results conversions -> deserialize_result.  A row shorter than the header
   leaves the missing keys at None: int(None) / float(None) raise (None here), a missing
   hpc_job_id is simply no id; surplus fields are ignored. *)
Definition read_result (header line : string) : option result :=
  let get := fun k => assoc k (combine (parse_row header) (parse_row line)) in
  match get "name", get "return_code", get "status", get "exec_time_s", get "completion_time" with
  | Some n, Some rc, Some st, Some e, Some c =>
      match parse_z rc with
      | Some z => Some {| r_name := n; r_rc := z; r_status := st; r_exec := e; r_ctime := c;
                          r_hpc := match get "hpc_job_id" with
                                   | Some h => if h =? "None" then None else Some h
                                   | None => None
                                   end |}
      | None => None
      end
  | _, _, _, _, _ => None
  end.

Definition no_crlf (s : string) : bool :=
  all_chars (fun c => negb (N.eqb (N_of_ascii c) 10) && negb (N.eqb (N_of_ascii c) 13)) s.
