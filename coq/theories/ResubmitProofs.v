(* Proofs about Resubmit.v (model of jade resubmit-jobs).  Stdlib only. *)
From Coq Require Import List ZArith NArith Bool Arith Lia Permutation.
From Jade Require Import Base Resubmit.
Import ListNotations.

(* ---------- small facts ---------- *)
Lemma addN_length x l : length (addN x l) = if memN x l then length l else S (length l).
Proof. unfold addN. destruct (memN x l); [reflexivity|]. rewrite app_length. cbn. lia. Qed.

Lemma addN_incl x l : incl l (addN x l).
Proof. intros y Hy. apply addN_spec. auto. Qed.

Lemma dedupN_aux_spec l : forall acc x, In x (fold_left (fun a y => addN y a) l acc) <-> In x acc \/ In x l.
Proof.
  induction l as [|a l IH]; cbn; intros acc x; [tauto|].
  rewrite IH, addN_spec. intuition (subst; auto).
Qed.
Lemma dedupN_spec l x : In x (dedupN l) <-> In x l.
Proof. unfold dedupN. rewrite dedupN_aux_spec. cbn. tauto. Qed.
Lemma dedupN_aux_nodup l : forall acc, NoDup acc -> NoDup (fold_left (fun a y => addN y a) l acc).
Proof. induction l as [|a l IH]; cbn; intros acc H; [exact H|]. apply IH, addN_nodup, H. Qed.
Lemma dedupN_nodup l : NoDup (dedupN l).
Proof. apply dedupN_aux_nodup. constructor. Qed.

Lemma interN_nil_r a : interN a [] = [].
Proof. induction a as [|x a IH]; cbn; [reflexivity|exact IH]. Qed.

Lemma dict_get_set_same k v d : dict_get k (dict_set k v d) = Some v.
Proof.
  induction d as [|[k' v'] d IH]; cbn.
  - rewrite N.eqb_refl. reflexivity.
  - destruct (N.eqb k' k) eqn:E; cbn.
    + rewrite N.eqb_refl. reflexivity.
    + rewrite E. exact IH.
Qed.
Lemma dict_get_set_other k k' v d : k <> k' -> dict_get k' (dict_set k v d) = dict_get k' d.
Proof.
  intros Hne. induction d as [|[k0 v0] d IH]; cbn.
  - destruct (N.eqb k k') eqn:E; [apply N.eqb_eq in E; contradiction|reflexivity].
  - destruct (N.eqb k0 k) eqn:E; cbn.
    + apply N.eqb_eq in E. subst k0.
      destruct (N.eqb k k') eqn:E2; [apply N.eqb_eq in E2; contradiction|reflexivity].
    + destruct (N.eqb k0 k'); [reflexivity|exact IH].
Qed.

(* ---------- one step / one pass ---------- *)
Definition names (jobs : list cjob) : list N := map cj_name jobs.
Definition closed (jobs : list cjob) (P : N -> Prop) : Prop :=
  forall j b, In j jobs -> In b (cj_deps j) -> P b -> P (cj_name j).

Lemma step_job_eq st j :
  step_job st j = match interN (cj_deps j) (fst st) with
                  | [] => st
                  | i => (addN (cj_name j) (fst st), dict_set (cj_name j) i (snd st))
                  end.
Proof. unfold step_job. destruct (cj_deps j); reflexivity. Qed.

Lemma step_incl st j : incl (fst st) (fst (step_job st j)).
Proof.
  rewrite step_job_eq. destruct (interN (cj_deps j) (fst st)); cbn; [apply incl_refl|apply addN_incl].
Qed.
Lemma step_length st j : length (fst st) <= length (fst (step_job st j)).
Proof.
  rewrite step_job_eq. destruct (interN (cj_deps j) (fst st)); cbn; [lia|].
  rewrite addN_length. destruct (memN _ _); lia.
Qed.
Lemma pass_length jobs : forall st, length (fst st) <= length (fst (pass jobs st)).
Proof.
  induction jobs as [|j t IH]; cbn; intros st; [lia|].
  specialize (IH (step_job st j)). pose proof (step_length st j). unfold pass in IH. lia.
Qed.
Lemma pass_nil_fst jobs : forall st, fst st = [] -> pass jobs st = st.
Proof.
  induction jobs as [|j t IH]; cbn; intros st H; [reflexivity|].
  assert (E : step_job st j = st).
  { rewrite step_job_eq, H, interN_nil_r. reflexivity. }
  rewrite E. apply IH, H.
Qed.

(* dictionary written by a pass during which the set stays s *)
Definition dstep (s : list N) (d : list (N * list N)) (j : cjob) :=
  match interN (cj_deps j) s with [] => d | i => dict_set (cj_name j) i d end.
Definition dpass (s : list N) (jobs : list cjob) (d : list (N * list N)) := fold_left (dstep s) jobs d.

Lemma step_stable st j : length (fst (step_job st j)) = length (fst st) ->
  step_job st j = (fst st, dstep (fst st) (snd st) j) /\
  (interN (cj_deps j) (fst st) <> [] -> In (cj_name j) (fst st)).
Proof.
  rewrite step_job_eq. unfold dstep. destruct (interN (cj_deps j) (fst st)) eqn:E; cbn.
  - intros _. split; [destruct st; reflexivity|congruence].
  - rewrite addN_length. destruct (memN (cj_name j) (fst st)) eqn:M; [|lia].
    intros _. split.
    + unfold addN. rewrite M. reflexivity.
    + intros _. apply memN_In, M.
Qed.

Lemma pass_stable jobs : forall st, length (fst (pass jobs st)) = length (fst st) ->
  pass jobs st = (fst st, dpass (fst st) jobs (snd st)) /\
  (forall j, In j jobs -> interN (cj_deps j) (fst st) <> [] -> In (cj_name j) (fst st)).
Proof.
  induction jobs as [|j t IH]; cbn; intros st H.
  - split; [destruct st; reflexivity|intros j []].
  - pose proof (step_length st j) as H1. pose proof (pass_length t (step_job st j)) as H2.
    unfold pass in H2, IH.
    assert (Hs : length (fst (step_job st j)) = length (fst st)) by lia.
    destruct (step_stable st j Hs) as [E Hj].
    destruct (IH (step_job st j)) as [E2 Hall]; [lia|].
    rewrite E in E2. cbn in E2. split.
    + rewrite E. exact E2.
    + intros j' [<-|Hin]; [exact Hj|]. rewrite E in Hall. cbn in Hall. apply Hall, Hin.
Qed.

Lemma dpass_cons s j t d : dpass s (j :: t) d = dpass s t (dstep s d j).
Proof. reflexivity. Qed.

Lemma dpass_get_notin s jobs k : forall d,
  (forall j, In j jobs -> cj_name j = k -> interN (cj_deps j) s = []) ->
  dict_get k (dpass s jobs d) = dict_get k d.
Proof.
  induction jobs as [|j t IH]; intros d H; [reflexivity|].
  rewrite dpass_cons. rewrite IH by (intros j' Hj'; apply H; right; exact Hj').
  unfold dstep. destruct (interN (cj_deps j) s) eqn:E; [reflexivity|].
  apply dict_get_set_other. intros Ek. rewrite (H j (or_introl eq_refl) Ek) in E. discriminate.
Qed.
Lemma dpass_get_in s jobs : forall d j, NoDup (names jobs) -> In j jobs -> interN (cj_deps j) s <> [] ->
  dict_get (cj_name j) (dpass s jobs d) = Some (interN (cj_deps j) s).
Proof.
  induction jobs as [|j0 t IH]; intros d j Hnd Hin Hne; [contradiction|].
  cbn in Hnd. inversion Hnd as [|? ? Hnotin Hnd']; subst.
  rewrite dpass_cons. destruct Hin as [->|Hin].
  - rewrite dpass_get_notin.
    + unfold dstep. destruct (interN (cj_deps j) s) eqn:E; [congruence|]. apply dict_get_set_same.
    + intros j' Hj' En. exfalso. apply Hnotin. rewrite <- En. apply in_map, Hj'.
  - apply IH; assumption.
Qed.

Lemma name_inj jobs : forall j j', NoDup (names jobs) -> In j jobs -> In j' jobs -> cj_name j' = cj_name j -> j' = j.
Proof.
  induction jobs as [|a l IH]; intros j j' Hnd Hj Hj' En; [contradiction|].
  cbn in Hnd. inversion Hnd as [|? ? Hni Hnd']; subst.
  destruct Hj as [Hj|Hj], Hj' as [Hj'|Hj'].
  - congruence.
  - subst a. exfalso. apply Hni. apply (in_map cj_name) in Hj'. rewrite En in Hj'. exact Hj'.
  - subst a. exfalso. apply Hni. apply (in_map cj_name) in Hj. rewrite <- En in Hj. exact Hj.
  - apply IH; assumption.
Qed.

Section Closure.
Variable jobs : list cjob.
Variable sel : list N.

(* the loop invariant *)
Record G (st : cstate) : Prop := {
  g_sel : forall x, In x sel -> In x (fst st);
  g_least : forall P : N -> Prop, (forall x, In x sel -> P x) -> closed jobs P -> forall x, In x (fst st) -> P x;
  g_nodup : NoDup (fst st);
  g_dict : forall k v, dict_get k (snd st) = Some v ->
           v <> [] /\ exists j, In j jobs /\ cj_name j = k /\
                                forall x, In x v -> In x (cj_deps j) /\ In x (fst st) }.

Lemma G_init : G (dedupN sel, []).
Proof.
  constructor; cbn.
  - intros x Hx. apply dedupN_spec, Hx.
  - intros P Hs _ x Hx. apply Hs, dedupN_spec, Hx.
  - apply dedupN_nodup.
  - intros k v H. discriminate.
Qed.

Lemma G_step st j : In j jobs -> G st -> G (step_job st j).
Proof.
  intros Hj [Hs Hl Hn Hd]. rewrite step_job_eq.
  destruct (interN (cj_deps j) (fst st)) as [|b i] eqn:E.
  - constructor; assumption.
  - assert (Hb : In b (cj_deps j) /\ In b (fst st)).
    { apply interN_spec. rewrite E. left. reflexivity. }
    constructor; cbn.
    + intros x Hx. apply addN_incl, Hs, Hx.
    + intros P HP Hc x Hx. apply addN_spec in Hx. destruct Hx as [->|Hx].
      * apply (Hc j b Hj (proj1 Hb)). apply (Hl P HP Hc), Hb.
      * apply (Hl P HP Hc), Hx.
    + apply addN_nodup, Hn.
    + intros k v Hg. destruct (N.eq_dec (cj_name j) k) as [Ek|Ek].
      * subst k. rewrite dict_get_set_same in Hg. inversion Hg; subst v. split; [discriminate|].
        exists j. repeat split; try assumption; try reflexivity.
        -- rewrite <- E in H. apply interN_spec in H. apply H.
        -- apply addN_incl. rewrite <- E in H. apply interN_spec in H. apply H.
      * rewrite dict_get_set_other in Hg by exact Ek.
        destruct (Hd k v Hg) as [Hne [j' [Hj' [En Hv]]]]. split; [exact Hne|].
        exists j'. repeat split; try assumption.
        -- apply Hv, H.
        -- apply addN_incl. apply Hv, H.
Qed.

Lemma G_fold l : forall st, incl l jobs -> G st -> G (fold_left step_job l st).
Proof.
  induction l as [|j t IH]; cbn; intros st Hi Hg; [exact Hg|].
  apply IH.
  - intros x Hx. apply Hi. right. exact Hx.
  - apply G_step; [apply Hi; left; reflexivity|exact Hg].
Qed.
Lemma G_pass st : G st -> G (pass jobs st).
Proof. apply G_fold, incl_refl. Qed.

Hypothesis sel_in : incl sel (names jobs).

Lemma G_in_names st : G st -> incl (fst st) (names jobs).
Proof.
  intros Hg x Hx. apply (g_least st Hg (fun y => In y (names jobs))).
  - exact sel_in.
  - intros j b Hj _ _. apply in_map, Hj.
  - exact Hx.
Qed.

(* what the loop returns: a state reached by a pass that changed nothing in the set *)
Definition final (st : cstate) : Prop :=
  exists d0, G (fst st, d0) /\ pass jobs (fst st, d0) = st.

Lemma iterate_ok : forall fuel i st,
  fuel + i = length jobs -> 1 <= fuel -> G st -> (i = 0 \/ i + 1 <= length (fst st)) ->
  exists st', iterate fuel i (length jobs) jobs st = ClOk st' /\ final st'.
Proof.
  induction fuel as [|f IH]; intros i st Hfi Hf Hg Hi; [lia|].
  cbn [iterate]. pose proof (pass_length jobs st) as Hlen.
  destruct (Nat.eqb (length (fst (pass jobs st)) - length (fst st)) 0) eqn:E0.
  - apply Nat.eqb_eq in E0.
    assert (Heq : length (fst (pass jobs st)) = length (fst st)) by lia.
    destruct (pass_stable jobs st Heq) as [Ep _].
    exists (pass jobs st). split; [reflexivity|]. exists (snd st). rewrite Ep. cbn. split.
    + destruct st; exact Hg.
    + destruct st; exact Ep.
  - apply Nat.eqb_neq in E0.
    assert (Hgrow : length (fst st) < length (fst (pass jobs st))) by lia.
    assert (Hne : 1 <= length (fst st)).
    { destruct (fst st) eqn:Es; [|cbn; lia]. rewrite (pass_nil_fst jobs st Es) in Hgrow. rewrite ?Es in Hgrow. cbn in Hgrow. lia. }
    assert (Hbig : i + 2 <= length (fst (pass jobs st))) by lia.
    pose proof (G_pass st Hg) as Hg'.
    destruct (Nat.ltb i (length jobs - 1)) eqn:Elt.
    + apply Nat.ltb_lt in Elt. apply IH; [lia|lia|exact Hg'|right; lia].
    + apply Nat.ltb_ge in Elt. exfalso.
      pose proof (NoDup_incl_length (g_nodup _ Hg') (G_in_names _ Hg')) as Hle.
      unfold names in Hle. rewrite map_length in Hle. lia.
Qed.

Lemma closure_final : exists st, closure jobs sel = ClOk st /\ final st.
Proof.
  unfold closure. destruct (Nat.eq_dec (length jobs) 0) as [E|E].
  - rewrite E. cbn. exists (dedupN sel, []). split; [reflexivity|]. exists []. split; [exact G_init|].
    apply length_zero_iff_nil in E. cbn. rewrite E. reflexivity.
  - apply iterate_ok.
    + lia.
    + lia.
    + exact G_init.
    + left. reflexivity.
Qed.

(* consequences of `final` *)
Lemma final_sel st : final st -> forall x, In x sel -> In x (fst st).
Proof. intros [d0 [Hg _]]. exact (g_sel _ Hg). Qed.
Lemma final_least st : final st -> forall P : N -> Prop,
  (forall x, In x sel -> P x) -> closed jobs P -> forall x, In x (fst st) -> P x.
Proof. intros [d0 [Hg _]]. exact (g_least _ Hg). Qed.
Lemma final_nodup st : final st -> NoDup (fst st).
Proof. intros [d0 [Hg _]]. exact (g_nodup _ Hg). Qed.
Lemma final_closed st : final st -> closed jobs (fun x => In x (fst st)).
Proof.
  intros [d0 [Hg Hp]] j b Hj Hb Hin.
  assert (Hlen : length (fst (pass jobs (fst st, d0))) = length (fst (fst st, d0))) by (rewrite Hp; reflexivity).
  destruct (pass_stable jobs _ Hlen) as [_ Hall]. cbn in Hall. apply (Hall j Hj).
  intros E. assert (Hx : In b (interN (cj_deps j) (fst st))) by (apply interN_spec; auto).
  rewrite E in Hx. exact Hx.
Qed.
Lemma final_blockers st : final st -> NoDup (names jobs) -> forall j, In j jobs ->
  new_blockers (snd st) (cj_name j) = interN (cj_deps j) (fst st).
Proof.
  intros [d0 [Hg Hp]] Hnd j Hj.
  assert (Hlen : length (fst (pass jobs (fst st, d0))) = length (fst (fst st, d0))) by (rewrite Hp; reflexivity).
  destruct (pass_stable jobs _ Hlen) as [Ep _]. cbn in Ep. rewrite Hp in Ep.
  unfold new_blockers. rewrite Ep. cbn.
  destruct (interN (cj_deps j) (fst st)) as [|b i] eqn:E.
  - rewrite dpass_get_notin.
    + destruct (dict_get (cj_name j) d0) as [v|] eqn:Ed; [|reflexivity]. exfalso.
      destruct (g_dict _ Hg _ _ Ed) as [Hne [j' [Hj' [En Hv]]]]. cbn in Hv.
      assert (j' = j) by (apply (name_inj jobs); assumption).
      subst j'. destruct v as [|x v]; [congruence|].
      assert (Hx : In x (interN (cj_deps j) (fst st))) by (apply interN_spec, Hv; left; reflexivity).
      rewrite E in Hx. exact Hx.
    + intros j' Hj' En.
      assert (j' = j) by (apply (name_inj jobs); assumption).
      subst j'. exact E.
  - rewrite <- E. rewrite dpass_get_in; [reflexivity|exact Hnd|exact Hj|rewrite E; discriminate].
Qed.
End Closure.

(* ---------- closure: packaged statements ---------- *)
Theorem closure_least jobs sel : incl sel (names jobs) ->
  exists s d, closure jobs sel = ClOk (s, d) /\
    NoDup s /\
    (forall x, In x sel -> In x s) /\
    closed jobs (fun x => In x s) /\
    (forall P : N -> Prop, (forall x, In x sel -> P x) -> closed jobs P -> forall x, In x s -> P x) /\
    (NoDup (names jobs) -> forall j, In j jobs -> new_blockers d (cj_name j) = interN (cj_deps j) s).
Proof.
  intros Hi. destruct (closure_final jobs sel Hi) as [[s d] [E F]]. exists s, d. split; [exact E|].
  split; [exact (final_nodup _ _ _ F)|]. split; [exact (final_sel _ _ _ F)|].
  split; [exact (final_closed _ _ _ F)|]. split; [exact (final_least _ _ _ F)|].
  intros Hnd j Hj. exact (final_blockers _ _ _ F Hnd j Hj).
Qed.

Corollary closure_no_assert jobs sel : incl sel (names jobs) ->
  forall i a f, closure jobs sel <> ClAssert i a f.
Proof. intros Hi i a f E. destruct (closure_least jobs sel Hi) as [s [d [E' _]]]. congruence. Qed.

(* every member of the result is a job of the configuration *)
Corollary closure_in_names jobs sel s d : incl sel (names jobs) -> closure jobs sel = ClOk (s, d) ->
  incl s (names jobs).
Proof.
  intros Hi E. destruct (closure_least jobs sel Hi) as [s' [d' [E' [_ [_ [_ [Hl _]]]]]]].
  rewrite E in E'. inversion E'; subst s' d'. intros x Hx.
  apply (Hl (fun y => In y (names jobs))); [exact Hi| |exact Hx].
  intros j b Hj _ _. apply in_map, Hj.
Qed.

(* the hypothesis is needed: a selected name outside the configuration makes the assertion fire *)
Example closure_assert_outside :
  closure [{| cj_name := 1%N; cj_deps := [9%N] |}] [9%N] = ClAssert 0 1 1.
Proof. vm_compute. reflexivity. Qed.

(* the iteration bound is tight: a chain listed in reverse order uses every iteration *)
Fixpoint rev_chain (n : nat) : list cjob :=
  match n with
  | O => []
  | S k => {| cj_name := N.of_nat (S k); cj_deps := match k with O => [] | _ => [N.of_nat k] end |} :: rev_chain k
  end.

(* ---------- selection ---------- *)
Lemma upsert_In r d x : In x (upsert r d) -> x = r \/ In x d.
Proof.
  induction d as [|y t IH]; cbn.
  - intros [H|[]]. left. symmetry. exact H.
  - destruct (N.eqb (r_name y) (r_name r)); cbn; intros [H|H].
    + left. symmetry. exact H.
    + right. right. exact H.
    + right. left. exact H.
    + destruct (IH H) as [H'|H']; [left; exact H'|right; right; exact H'].
Qed.
Lemma upsert_names r d n : In n (map r_name (upsert r d)) <-> n = r_name r \/ In n (map r_name d).
Proof.
  induction d as [|y t IH]; cbn; [intuition|].
  destruct (N.eqb (r_name y) (r_name r)) eqn:E; cbn.
  - apply N.eqb_eq in E. rewrite E. intuition.
  - rewrite IH. intuition.
Qed.
Lemma upsert_nodup r d : NoDup (map r_name d) -> NoDup (map r_name (upsert r d)).
Proof.
  induction d as [|y t IH]; cbn; intros H.
  - constructor; [intros []|constructor].
  - inversion H as [|? ? Hn Hd]; subst. destruct (N.eqb (r_name y) (r_name r)) eqn:E; cbn.
    + apply N.eqb_eq in E. rewrite <- E. constructor; assumption.
    + constructor; [|apply IH, Hd]. rewrite upsert_names. intros [Hx|Hx]; [|contradiction].
      apply N.eqb_neq in E. congruence.
Qed.
Lemma upsert_fresh r d : ~ In (r_name r) (map r_name d) -> upsert r d = d ++ [r].
Proof.
  induction d as [|y t IH]; cbn; intros H; [reflexivity|].
  destruct (N.eqb (r_name y) (r_name r)) eqn:E.
  - apply N.eqb_eq in E. exfalso. apply H. left. exact E.
  - rewrite IH; [reflexivity|]. intros Hx. apply H. right. exact Hx.
Qed.
Lemma results_dict_aux rows : forall d,
  (forall x, In x (fold_left (fun d r => upsert r d) rows d) -> In x d \/ In x rows) /\
  (forall n, In n (map r_name (fold_left (fun d r => upsert r d) rows d)) <-> In n (map r_name d) \/ In n (map r_name rows)) /\
  (NoDup (map r_name d) -> NoDup (map r_name (fold_left (fun d r => upsert r d) rows d))).
Proof.
  induction rows as [|r t IH]; cbn; intros d.
  - repeat split; try tauto. 
  - destruct (IH (upsert r d)) as [H1 [H2 H3]]. repeat split.
    + intros x Hx. destruct (H1 x Hx) as [H|H]; [|auto]. destruct (upsert_In _ _ _ H); subst; auto.
    + intros H. apply H2 in H. rewrite upsert_names in H. intuition.
    + intros H. apply H2. rewrite upsert_names. intuition.
    + intros H. apply H3, upsert_nodup, H.
Qed.
Lemma results_dict_In rows x : In x (results_dict rows) -> In x rows.
Proof. intros H. destruct (results_dict_aux rows []) as [H1 _]. destruct (H1 x H) as [[]|H']; exact H'. Qed.
Lemma results_dict_names rows n : In n (map r_name (results_dict rows)) <-> In n (map r_name rows).
Proof. destruct (results_dict_aux rows []) as [_ [H2 _]]. unfold results_dict. rewrite H2. cbn. tauto. Qed.
Lemma results_dict_nodup rows : NoDup (map r_name (results_dict rows)).
Proof. destruct (results_dict_aux rows []) as [_ [_ H3]]. apply H3. constructor. Qed.
(* with one entry per job (what a completed submission has) the dict is the list itself *)
Lemma results_dict_id rows : NoDup (map r_name rows) -> results_dict rows = rows.
Proof.
  unfold results_dict. intros H.
  assert (Hg : forall d, NoDup (map r_name (d ++ rows)) -> fold_left (fun d r => upsert r d) rows d = d ++ rows).
  { clear H. induction rows as [|r t IH]; cbn; intros d H; [rewrite app_nil_r; reflexivity|].
    rewrite upsert_fresh.
    - rewrite IH; rewrite <- app_assoc; [reflexivity|exact H].
    - rewrite map_app in H. apply NoDup_app_iff in H. destruct H as [_ [_ H]].
      intros Hx. apply (H _ Hx). left. reflexivity. }
  apply (Hg []). exact H.
Qed.

Lemma class_exclusive r :
  (is_successful r = true -> is_failed r = false /\ is_canceled r = false) /\
  (is_failed r = true -> is_canceled r = false).
Proof.
  unfold is_successful, is_failed, is_canceled.
  destruct (Z.eqb (r_rc r) 0); destruct (N.eqb (r_status r) 0) eqn:E0; destruct (N.eqb (r_status r) 1) eqn:E1;
    cbn; split; intros H; try discriminate H; try (split; reflexivity); try reflexivity.
  all: apply N.eqb_eq in E0; apply N.eqb_eq in E1; rewrite E0 in E1; discriminate E1.
Qed.

Theorem selected_spec failed missing successful results jobs x :
  let d := results_dict results in
  In x (selected failed missing successful results jobs) <->
    (failed = true /\ exists r, In r d /\ r_name r = x /\ (is_failed r = true \/ is_canceled r = true)) \/
    (successful = true /\ exists r, In r d /\ r_name r = x /\ is_successful r = true) \/
    (missing = true /\ In x jobs /\ ~ In x (map r_name d)).
Proof.
  intros d. unfold selected. fold d. rewrite dedupN_spec, in_app_iff.
  assert (Hc : In x (map r_name (by_type_canceled d)) <-> exists r, In r d /\ r_name r = x /\ is_canceled r = true).
  { unfold by_type_canceled. rewrite in_map_iff. split.
    - intros [r [En Hr]]. apply filter_In in Hr. destruct Hr as [Hr Hb]. exists r. repeat split; auto.
      apply andb_true_iff in Hb. apply Hb.
    - intros [r [Hr [En Hb]]]. exists r. split; [exact En|]. apply filter_In. split; [exact Hr|].
      destruct (class_exclusive r) as [H1 H2]. destruct (is_successful r) eqn:Es.
      + destruct (H1 eq_refl). congruence.
      + destruct (is_failed r) eqn:Ef; [rewrite (H2 eq_refl) in Hb; discriminate|]. rewrite Hb. reflexivity. }
  assert (Hf : In x (map r_name (by_type_failed d)) <-> exists r, In r d /\ r_name r = x /\ is_failed r = true).
  { unfold by_type_failed. rewrite in_map_iff. split.
    - intros [r [En Hr]]. apply filter_In in Hr. destruct Hr as [Hr Hb]. exists r. repeat split; auto.
      apply andb_true_iff in Hb. apply Hb.
    - intros [r [Hr [En Hb]]]. exists r. split; [exact En|]. apply filter_In. split; [exact Hr|].
      destruct (class_exclusive r) as [H1 H2]. destruct (is_successful r) eqn:Es.
      + destruct (H1 eq_refl). congruence.
      + rewrite Hb. reflexivity. }
  assert (Hs : In x (map r_name (by_type_successful d)) <-> exists r, In r d /\ r_name r = x /\ is_successful r = true).
  { unfold by_type_successful. rewrite in_map_iff. split.
    - intros [r [En Hr]]. apply filter_In in Hr. destruct Hr as [Hr Hb]. exists r. auto.
    - intros [r [Hr [En Hb]]]. exists r. split; [exact En|]. apply filter_In. auto. }
  assert (Hm : In x (missing_jobs d jobs) <-> In x jobs /\ ~ In x (map r_name d)).
  { unfold missing_jobs. rewrite filter_In, negb_true_iff, memN_false. tauto. }
  assert (Hfc : (exists r, In r d /\ r_name r = x /\ (is_failed r = true \/ is_canceled r = true)) <->
                (exists r, In r d /\ r_name r = x /\ is_canceled r = true) \/
                (exists r, In r d /\ r_name r = x /\ is_failed r = true)).
  { split.
    - intros [r [H1 [H2 [H3|H3]]]]; [right|left]; exists r; auto.
    - intros [[r [H1 [H2 H3]]]|[r [H1 [H2 H3]]]]; exists r; auto. }
  rewrite Hfc.
  set (A := exists r, In r d /\ r_name r = x /\ is_canceled r = true) in *.
  set (B := exists r, In r d /\ r_name r = x /\ is_failed r = true) in *.
  set (C := exists r, In r d /\ r_name r = x /\ is_successful r = true) in *.
  set (M := In x jobs /\ ~ In x (map r_name d)) in *.
  clearbody A B C M.
  destruct failed, successful, missing; cbn [orb]; rewrite ?in_app_iff, ?Hc, ?Hf, ?Hs, ?Hm; cbn [In];
    intuition discriminate.
Qed.

(* ---------- clear_results_for_resubmission ---------- *)
Theorem clear_results_spec rows rerun r' :
  In r' (clear_results rows rerun) <-> exists r, In r rows /\ ~ In (r_name r) rerun /\ r' = rewrite_row r.
Proof.
  unfold clear_results. rewrite in_map_iff. split.
  - intros [r [E Hr]]. apply filter_In in Hr. destruct Hr as [Hr Hb].
    apply negb_true_iff, memN_false in Hb. exists r. auto.
  - intros [r [Hr [Hn E]]]. exists r. split; [auto|]. apply filter_In. split; [exact Hr|].
    apply negb_true_iff, memN_false, Hn.
Qed.
Lemma rewrite_row_fields r :
  r_name (rewrite_row r) = r_name r /\ r_rc (rewrite_row r) = r_rc r /\ r_status (rewrite_row r) = r_status r /\
  r_exec (rewrite_row r) = r_exec r /\ r_ctime (rewrite_row r) = r_ctime r /\
  (forall h, r_hpc r = Some h -> r_hpc (rewrite_row r) = Some h).
Proof. repeat split. intros h E. cbn. rewrite E. reflexivity. Qed.
(* the surviving rows keep their relative order *)
Lemma clear_results_names rows rerun :
  map r_name (clear_results rows rerun) = filter (fun n => negb (memN n rerun)) (map r_name rows).
Proof.
  unfold clear_results. induction rows as [|r t IH]; cbn; [reflexivity|].
  destruct (negb (memN (r_name r) rerun)); cbn; rewrite IH; reflexivity.
Qed.
Lemma clear_results_nodup rows rerun : NoDup (map r_name rows) -> NoDup (map r_name (clear_results rows rerun)).
Proof. intros H. rewrite clear_results_names. apply NoDup_filter, H. Qed.

(* ---------- prepare_for_resubmission ---------- *)
Theorem prepare_spec c rerun d : c_complete c = true ->
  exists c', prepare c rerun d = Some c' /\
    c_complete c' = false /\ c_canceled c' = false /\ c_submitter c' = c_submitter c /\ c_num c' = c_num c /\ c_groups c' = c_groups c /\
    c_submitted c' = Z.of_nat (length (filter (fun j => negb (memN (s_name j) rerun) && negb (jstate_eqb (s_state j) NOT_SUBMITTED)) (c_jobs c))) /\
    c_completed c' = Z.of_nat (length (filter (fun j => negb (memN (s_name j) rerun) && jstate_eqb (s_state j) DONE) (c_jobs c))) /\
    c_jobs c' = map (prep_job rerun d) (c_jobs c) /\
    map s_name (c_jobs c') = map s_name (c_jobs c).
Proof.
  intros Hc. unfold prepare. rewrite Hc. eexists. split; [reflexivity|]. cbn. repeat split.
  rewrite map_map. apply map_ext. intros j. unfold prep_job. destruct (memN (s_name j) rerun); reflexivity.
Qed.

Lemma prepare_clears_canceled c rerun d c' : prepare c rerun d = Some c' -> round_may_submit c' = true.
Proof. unfold prepare. destruct (c_complete c); [|discriminate]. intros E. inversion E. reflexivity. Qed.

(* the jobs offered to the submitter after the reset are exactly the rerun set - provided no job
   outside the rerun set was still NOT_SUBMITTED when the submission completed *)
Theorem offered_exact c rerun d c' :
  prepare c rerun d = Some c' ->
  (forall j, In j (c_jobs c) -> ~ In (s_name j) rerun -> s_state j <> NOT_SUBMITTED) ->
  forall x, In x (offered c') <-> In x rerun /\ In x (map s_name (c_jobs c)).
Proof.
  unfold prepare. destruct (c_complete c); [|discriminate]. intros E H x. inversion E; subst c'. unfold offered. cbn.
  rewrite in_map_iff. split.
  - intros [j' [En Hj']]. apply filter_In in Hj'. destruct Hj' as [Hj' Hst]. apply in_map_iff in Hj'.
    destruct Hj' as [j [Ej Hj]]. subst j' x. unfold prep_job in *.
    destruct (memN (s_name j) rerun) eqn:M; cbn in *.
    + split; [apply memN_In, M|apply in_map, Hj].
    + exfalso. apply memN_false in M. apply (H j Hj M). destruct (s_state j); try discriminate Hst. reflexivity.
  - intros [Hr Hn]. apply in_map_iff in Hn. destruct Hn as [j [En Hj]]. exists (prep_job rerun d j).
    assert (M : memN (s_name j) rerun = true) by (apply memN_In; rewrite En; exact Hr).
    unfold prep_job. rewrite M. cbn. split; [exact En|]. apply filter_In. split.
    + apply in_map_iff. exists j. unfold prep_job. rewrite M. split; [reflexivity|exact Hj].
    + reflexivity.
Qed.

Lemma prep_job_rerun rerun d j : In (s_name j) rerun ->
  prep_job rerun d j = {| s_name := s_name j; s_state := NOT_SUBMITTED; s_blocked := new_blockers d (s_name j) |}.
Proof. intros H. unfold prep_job. apply memN_In in H. rewrite H. reflexivity. Qed.
Lemma prep_job_other rerun d j : ~ In (s_name j) rerun -> prep_job rerun d j = j.
Proof. intros H. unfold prep_job. apply memN_false in H. rewrite H. reflexivity. Qed.

Lemma filter_map_length {A B} (f : A -> B) (p : B -> bool) l :
  length (filter p (map f l)) = length (filter (fun x => p (f x)) l).
Proof. induction l as [|a l IH]; cbn; [reflexivity|]. destruct (p (f a)); cbn; rewrite IH; reflexivity. Qed.
Lemma filter_ext_length {A} (p q : A -> bool) l : (forall x, p x = q x) -> length (filter p l) = length (filter q l).
Proof. intros H. induction l as [|a l IH]; cbn; [reflexivity|]. rewrite H. destruct (q a); cbn; rewrite IH; reflexivity. Qed.
Lemma filter_le_length {A} (p q : A -> bool) l : (forall x, p x = true -> q x = true) -> length (filter p l) <= length (filter q l).
Proof.
  intros H. induction l as [|a l IH]; cbn; [lia|]. destruct (p a) eqn:E.
  - rewrite (H a E). cbn. lia.
  - destruct (q a); cbn; lia.
Qed.

(* counters after the reset describe the job table that is written with them *)
Theorem prepare_counters c rerun d c' :
  prepare c rerun d = Some c' ->
  c_submitted c' = Z.of_nat (length (filter (fun j => negb (jstate_eqb (s_state j) NOT_SUBMITTED)) (c_jobs c'))) /\
  c_completed c' = Z.of_nat (length (filter (fun j => jstate_eqb (s_state j) DONE) (c_jobs c'))) /\
  (0 <= c_completed c' <= c_submitted c')%Z /\
  (c_num c = Z.of_nat (length (c_jobs c)) -> (c_submitted c' <= c_num c')%Z).
Proof.
  unfold prepare. destruct (c_complete c); [|discriminate]. intros E. inversion E; subst c'; cbn.
  rewrite !filter_map_length.
  assert (H1 : forall j, negb (jstate_eqb (s_state (prep_job rerun d j)) NOT_SUBMITTED) = counts_submitted rerun j).
  { intros j. unfold prep_job, counts_submitted. destruct (memN (s_name j) rerun); reflexivity. }
  assert (H2 : forall j, jstate_eqb (s_state (prep_job rerun d j)) DONE = counts_completed rerun j).
  { intros j. unfold prep_job, counts_completed. destruct (memN (s_name j) rerun); reflexivity. }
  rewrite (filter_ext_length _ _ _ H1), (filter_ext_length _ _ _ H2).
  split; [reflexivity|]. split; [reflexivity|]. split.
  - pose proof (filter_le_length (counts_completed rerun) (counts_submitted rerun) (c_jobs c)) as Hle.
    assert (Himp : forall x, counts_completed rerun x = true -> counts_submitted rerun x = true).
    { intros x. unfold counts_completed, counts_submitted. destruct (memN (s_name x) rerun); cbn; [congruence|].
      destruct (s_state x); cbn; congruence. }
    specialize (Hle Himp). lia.
  - intros Hn. rewrite Hn.
    assert (Hl : length (filter (counts_submitted rerun) (c_jobs c)) <= length (c_jobs c)).
    { clear. induction (c_jobs c) as [|a l IH]; cbn; [lia|]. destruct (counts_submitted rerun a); cbn; lia. }
    lia.
Qed.

(* composition: after closure + prepare every blocker of a rerun job is itself a rerun job, hence
   NOT_SUBMITTED again (it will run and report before the dependent may start) *)
Theorem prepared_blockers_pending jobs sel s d c c' :
  incl sel (names jobs) -> NoDup (names jobs) -> closure jobs sel = ClOk (s, d) ->
  map s_name (c_jobs c) = names jobs ->
  prepare c s d = Some c' ->
  forall j, In j (c_jobs c') -> In (s_name j) s ->
    s_state j = NOT_SUBMITTED /\
    (forall cj, In cj jobs -> cj_name cj = s_name j -> s_blocked j = interN (cj_deps cj) s) /\
    (forall b, In b (s_blocked j) -> In b s /\
       exists jb, In jb (c_jobs c') /\ s_name jb = b /\ s_state jb = NOT_SUBMITTED).
Proof.
  intros Hi Hnd Ecl Hnames Eprep j Hj Hs.
  destruct (closure_least jobs sel Hi) as [s' [d' [E' [_ [_ [_ [_ Hb]]]]]]].
  rewrite Ecl in E'. inversion E'; subst s' d'. specialize (Hb Hnd).
  unfold prepare in Eprep. destruct (c_complete c); [|discriminate]. inversion Eprep; subst c'. cbn in *.
  apply in_map_iff in Hj. destruct Hj as [j0 [Ej Hj0]].
  assert (Hn : s_name j = s_name j0).
  { rewrite <- Ej. unfold prep_job. destruct (memN (s_name j0) s); reflexivity. }
  rewrite Hn in Hs. rewrite (prep_job_rerun s d j0 Hs) in Ej. subst j. cbn.
  assert (Hcj : exists cj, In cj jobs /\ cj_name cj = s_name j0).
  { assert (H : In (s_name j0) (names jobs)) by (rewrite <- Hnames; apply in_map, Hj0).
    apply in_map_iff in H. destruct H as [cj [H1 H2]]. exists cj. auto. }
  destruct Hcj as [cj [Hcj Ecj]].
  split; [reflexivity|]. split.
  - intros cj' Hcj' En. rewrite <- En. apply Hb, Hcj'.
  - intros b Hbin. rewrite <- Ecj, (Hb cj Hcj) in Hbin. apply interN_spec in Hbin. destruct Hbin as [_ Hbs].
    split; [exact Hbs|].
    assert (Hbn : In b (map s_name (c_jobs c))).
    { rewrite Hnames. apply (closure_in_names jobs sel s d Hi Ecl), Hbs. }
    apply in_map_iff in Hbn. destruct Hbn as [jb [Ejb Hjb]].
    exists (prep_job s d jb). split; [apply in_map, Hjb|].
    rewrite prep_job_rerun by (rewrite Ejb; exact Hbs). cbn. auto.
Qed.

(* ---------- the command ---------- *)
Lemma set_submitter_roundtrip me c : c_submitter c = None ->
  demote me (set_submitter (Some me) c) = Some c.
Proof.
  intros H. unfold demote. cbn. rewrite N.eqb_refl. destruct c; cbn in *. subst. reflexivity.
Qed.

(* not complete: exit 1 and nothing changes - whoever holds the submitter role *)
Theorem refuses_incomplete me fl ms su gf f sub se w :
  c_complete (w_cluster w) = false -> resubmit me fl ms su gf f sub se w = (Exit 1, w).
Proof.
  intros Hc. unfold resubmit, promote. destruct (c_submitter (w_cluster w)) eqn:Es.
  - rewrite Hc. reflexivity.
  - cbn. rewrite Hc. cbn. unfold finish_demote. cbn [w_cluster with_cluster].
    rewrite (set_submitter_roundtrip me _ Es). destruct w; reflexivity.
Qed.

(* complete but the role is held (another process, or a stale role): assertion, nothing changes *)
Theorem held_role_untouched me fl ms su gf f sub se w h :
  c_complete (w_cluster w) = true -> c_submitter (w_cluster w) = Some h ->
  resubmit me fl ms su gf f sub se w = (AssertPromoted, w).
Proof. intros Hc Hs. unfold resubmit, promote. rewrite Hs, Hc. reflexivity. Qed.

Definition pruned (w w' : world) : Prop := w_rows w' <> w_rows w.
Definition role_free (w' : world) : Prop := c_submitter (w_cluster w') = None.

Lemma finish_demote_free me w o : c_submitter (w_cluster w) = Some me ->
  exists w', finish_demote me w o = (o, w') /\ role_free w' /\ w_rows w' = w_rows w /\
             w_cluster w' = set_submitter None (w_cluster w).
Proof.
  intros H. unfold finish_demote, demote. rewrite H, N.eqb_refl. eexists. split; [reflexivity|].
  repeat split.
Qed.

(* Whatever fails: if the command ends with rows removed from the results file and the submitter
   role still taken, the failure was an injected fault in the window between the pruning and the
   try block (FPrepare, FEvents) - nothing in the command's own logic, in particular not a missing
   events directory and not a failing JobSubmitter.load / submit_jobs. *)
Theorem failure_recoverable me fl ms su gf f sub se w o w' :
  (forall x, c_submitter (w_cluster (sub x)) = c_submitter (w_cluster x)) ->
  resubmit me fl ms su gf f sub se w = (o, w') ->
  pruned w w' -> ~ role_free w' -> (f = FPrepare \/ f = FEvents) \/ c_submitter (w_cluster w) <> None.
Proof.
  intros Hsub E Hp Hnf. destruct (c_submitter (w_cluster w)) eqn:Es; [right; discriminate|]. left.
  unfold resubmit, promote in E. rewrite Es in E. cbn [c_complete set_submitter negb] in E.
  destruct (c_complete (w_cluster w)) eqn:Hc; cbn [negb] in E.
  2:{ exfalso. unfold finish_demote in E. cbn [w_cluster with_cluster] in E.
      rewrite (set_submitter_roundtrip me _ Es) in E. inversion E; subst. apply Hp. reflexivity. }
  set (c1 := set_submitter (Some me) (w_cluster w)) in *.
  assert (Hgo : forall w1, c_submitter (w_cluster w1) = Some me -> c_complete (w_cluster w1) = true ->
                 w_rows w1 = w_rows w ->
    forall o w',
    (if fault_eqb f FSelect then (Raised FSelect, w1) else
      let sel := selected fl ms su (w_results w1) (map s_name (c_jobs (w_cluster w1))) in
      if fault_eqb f FClosure then (Raised FClosure, w1) else
      match closure (w_config w1) sel with
      | ClAssert _ _ _ => (AssertClosure, w1)
      | ClOk (rerun, d) =>
        if fault_eqb f FReset then (Raised FReset, w1) else
        let w2 := {| w_cluster := w_cluster w1; w_rows := clear_results (w_rows w1) rerun;
                     w_results := w_results w1; w_config := w_config w1; w_events := w_events w1 |} in
        if fault_eqb f FPrepare then (Raised FPrepare, w2) else
        match prepare (w_cluster w2) rerun d with
        | None => (AssertPrepare, w2)
        | Some c3 =>
          let w3 := with_cluster c3 w2 in
          if fault_eqb f FEvents then (Raised FEvents, w3) else
          let w4 := {| w_cluster := w_cluster w3; w_rows := w_rows w3; w_results := w_results w3;
                       w_config := w_config w3;
                       w_events := match w_events w3 with Some _ => Some [] | None => None end |} in
          if fault_eqb f FLoad then finish_demote me w4 (Raised FLoad) else
          if fault_eqb f FSubmit then finish_demote me (sub w4) (Raised FSubmit) else
          finish_demote me (sub w4) (Exit se)
        end
      end) = (o, w') -> pruned w w' -> ~ role_free w' -> f = FPrepare \/ f = FEvents).
  { clear E Hp Hnf o w'. intros w1 Hs1 Hc1 Hr1 o w' E Hp Hnf.
    destruct (fault_eqb f FSelect); [inversion E; subst; exfalso; apply Hp; exact Hr1|].
    cbv zeta in E.
    destruct (fault_eqb f FClosure); [inversion E; subst; exfalso; apply Hp; exact Hr1|].
    destruct (closure _ _) as [[rerun d]|]; [|inversion E; subst; exfalso; apply Hp; exact Hr1].
    destruct (fault_eqb f FReset); [inversion E; subst; exfalso; apply Hp; exact Hr1|].
    destruct (fault_eqb f FPrepare) eqn:EP; [left; destruct f; try discriminate EP; reflexivity|].
    cbn [w_cluster] in E.
    destruct (prepare_spec (w_cluster w1) rerun d Hc1) as [c3 [Ep [_ [_ [Hs3 _]]]]]. rewrite Ep in E.
    destruct (fault_eqb f FEvents) eqn:EE; [right; destruct f; try discriminate EE; reflexivity|].
    exfalso.
    assert (Hs4 : forall ev, c_submitter (w_cluster {| w_cluster := c3; w_rows := clear_results (w_rows w1) rerun;
                    w_results := w_results w1; w_config := w_config w1; w_events := ev |}) = Some me).
    { intros ev. cbn. rewrite Hs3. exact Hs1. }
    cbn [with_cluster w_cluster w_rows w_results w_config w_events] in E.
    destruct (fault_eqb f FLoad).
    - match type of E with finish_demote me ?x _ = _ =>
        assert (Hsx : c_submitter (w_cluster x) = Some me) by apply Hs4 end.
      destruct (finish_demote_free me _ (Raised FLoad) Hsx) as [wf [Ef [Hfree _]]].
      rewrite Ef in E. inversion E; subst. exact (Hnf Hfree).
    - destruct (fault_eqb f FSubmit).
      + match type of E with finish_demote me (sub ?x) _ = _ =>
          assert (Hsx : c_submitter (w_cluster (sub x)) = Some me) by (rewrite Hsub; apply Hs4) end.
        destruct (finish_demote_free me _ (Raised FSubmit) Hsx) as [wf [Ef [Hfree _]]].
        rewrite Ef in E. inversion E; subst. exact (Hnf Hfree).
      + match type of E with finish_demote me (sub ?x) _ = _ =>
          assert (Hsx : c_submitter (w_cluster (sub x)) = Some me) by (rewrite Hsub; apply Hs4) end.
        destruct (finish_demote_free me _ (Exit se) Hsx) as [wf [Ef [Hfree _]]].
        rewrite Ef in E. inversion E; subst. exact (Hnf Hfree). }
  destruct gf as [file|].
  - destruct (negb (Nat.eqb (length file) (length (c_groups c1)))).
    + exfalso. destruct (finish_demote_free me (with_cluster c1 w) (Exit 1)) as [wf [Ef [Hfree [Hr _]]]]; [reflexivity|].
      rewrite Ef in E. inversion E; subst. apply Hp. rewrite Hr. destruct w; reflexivity.
    + destruct (replace_groups file (c_groups c1)) as [g' ok]. destruct ok.
      * refine (Hgo (with_cluster (set_groups g' c1) (with_cluster c1 w)) _ _ _ o w' E Hp Hnf); [reflexivity|exact Hc|reflexivity].
      * exfalso. destruct (finish_demote_free me (with_cluster (set_groups g' c1) (with_cluster c1 w)) (Exit 1)) as [wf [Ef [Hfree [Hr _]]]]; [reflexivity|].
        rewrite Ef in E. inversion E; subst. apply Hp. rewrite Hr. destruct w; reflexivity.
  - refine (Hgo (with_cluster c1 w) _ _ _ o w' E Hp Hnf); [reflexivity|exact Hc|reflexivity].
Qed.


(* the normal path: no injected fault, complete submission, free role, selection inside the
   configuration.  Holds with and without an events directory. *)
Theorem resubmit_normal me fl ms su sub se w :
  (forall x, c_submitter (w_cluster (sub x)) = c_submitter (w_cluster x)) ->
  c_complete (w_cluster w) = true -> c_submitter (w_cluster w) = None ->
  let sel := selected fl ms su (w_results w) (map s_name (c_jobs (w_cluster w))) in
  incl sel (names (w_config w)) ->
  exists rerun d c3,
    closure (w_config w) sel = ClOk (rerun, d) /\
    prepare (set_submitter (Some me) (w_cluster w)) rerun d = Some c3 /\
    let w4 := {| w_cluster := c3; w_rows := clear_results (w_rows w) rerun; w_results := w_results w;
                 w_config := w_config w;
                 w_events := match w_events w with Some _ => Some [] | None => None end |} in
    resubmit me fl ms su None FNone sub se w =
      (Exit se, with_cluster (set_submitter None (w_cluster (sub w4))) (sub w4)).
Proof.
  intros Hsub Hc Hs sel Hi.
  destruct (closure_least (w_config w) sel Hi) as [rerun [d [Ecl _]]].
  assert (Hc1 : c_complete (set_submitter (Some me) (w_cluster w)) = true) by exact Hc.
  destruct (prepare_spec _ rerun d Hc1) as [c3 [Ep [_ [_ [Hs3 _]]]]].
  exists rerun, d, c3. split; [exact Ecl|]. split; [exact Ep|]. intros w4.
  unfold resubmit, promote. rewrite Hs. cbn [c_complete set_submitter negb]. rewrite Hc. cbn [negb fault_eqb].
  cbn [with_cluster w_cluster w_rows w_results w_config w_events c_jobs set_submitter].
  fold sel. rewrite Ecl. cbn [w_cluster]. rewrite Ep.
  cbn [with_cluster w_cluster w_rows w_results w_config w_events]. fold w4.
  assert (Hsx : c_submitter (w_cluster (sub w4)) = Some me).
  { rewrite Hsub. unfold w4. cbn. rewrite Hs3. reflexivity. }
  destruct (finish_demote_free me (sub w4) (Exit se) Hsx) as [wf [Ef [_ [_ Hcl]]]].
  rewrite Ef. f_equal. unfold finish_demote, demote in Ef. rewrite Hsx, N.eqb_refl in Ef.
  inversion Ef. reflexivity.
Qed.
