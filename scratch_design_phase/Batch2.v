From Coq Require Import List ZArith NArith Bool Lia.
Import ListNotations.
Open Scope Z_scope.

Record job := { jname : N; jblocked : list N; jest : Z }.
Record bparams := { p_size : nat; p_time : bool; p_max : Z; p_try : bool }.
Record batch := { b_jobs : list job; b_time : Z; b_ready : bool }.

Definition memN (x : N) (l : list N) := existsb (N.eqb x) l.
Definition subsetN (a b : list N) := forallb (fun x => memN x b) a.
Definition names (b : batch) := map jname (b_jobs b).

Definition try_append (p : bparams) (b : batch) (j : job) : batch * bool :=
  if p_time p && (b_time b + 60 * jest j >? p_max p)
  then ({| b_jobs := b_jobs b; b_time := b_time b; b_ready := true |}, false)
  else
    let jobs' := b_jobs b ++ [j] in
    if p_time p
    then ({| b_jobs := jobs'; b_time := b_time b + 60 * jest j; b_ready := b_ready b |}, true)
    else ({| b_jobs := jobs'; b_time := b_time b;
             b_ready := b_ready b || Nat.leb (p_size p) (length jobs') |}, true).

Definition is_blocked (p : bparams) (b : batch) (j : job) : bool :=
  match jblocked j with
  | [] => false
  | _ => negb (p_try p && subsetN (jblocked j) (names b))
  end.

Record st := { s_batch : batch; s_sub : list job; s_blocked : list job; s_hi : Z }.

Definition add_blocked (j : job) (l : list job) :=
  if memN (jname j) (map jname l) then l else l ++ [j].
Definition del_blocked (n : N) (l : list job) := filter (fun x => negb (N.eqb (jname x) n)) l.

Fixpoint pass (p : bparams) (navail : nat) (l : list job) (i : Z) (s : st) : st * bool :=
  match l with
  | [] => (s, false)
  | j :: l' =>
    let hi := Z.max (s_hi s) i in
    if memN (jname j) (map jname (s_sub s))
    then pass p navail l' (i + 1) {| s_batch := s_batch s; s_sub := s_sub s; s_blocked := s_blocked s; s_hi := hi |}
    else
      let s1 :=
        if is_blocked p (s_batch s) j
        then {| s_batch := s_batch s; s_sub := s_sub s; s_blocked := add_blocked j (s_blocked s); s_hi := hi |}
        else
          let '(b', ok) := try_append p (s_batch s) j in
          if ok
          then {| s_batch := b'; s_sub := s_sub s ++ [j]; s_blocked := del_blocked (jname j) (s_blocked s); s_hi := hi |}
          else {| s_batch := b'; s_sub := s_sub s; s_blocked := s_blocked s; s_hi := hi - 1 |} in
      if b_ready (s_batch s1) || Nat.eqb (length (s_sub s1)) navail
      then (s1, true)
      else pass p navail l' (i + 1) s1
  end.

Fixpoint passes (fuel : nat) (p : bparams) (avail : list job) (s : st) : st :=
  match fuel with
  | O => s
  | S f => let '(s', done) := pass p (length avail) avail 0 s in
           if done then s' else passes f p avail s'
  end.

Definition make_batch (p : bparams) (avail : list job) : list job * list job * list job :=
  let s0 := {| s_batch := {| b_jobs := []; b_time := 0; b_ready := false |}; s_sub := []; s_blocked := []; s_hi := -1 |} in
  let iters := if p_try p then length avail else 1%nat in
  let s := passes iters p avail s0 in
  let rest := if s_hi s =? Z.of_nat (length avail) - 1 then [] else skipn (Z.to_nat (s_hi s + 1)) avail in
  (b_jobs (s_batch s), s_blocked s, rest).

(* D1 witness *)
Definition B := {| jname := 2%N; jblocked := [1%N]; jest := 3 |}.
Definition C := {| jname := 3%N; jblocked := []; jest := 4 |}.
Definition A := {| jname := 1%N; jblocked := []; jest := 5 |}.
Definition P := {| p_size := 500; p_time := true; p_max := 600; p_try := true |}.
Eval vm_compute in (let '(b, bl, r) := make_batch P [B; C; A] in (map jname b, map jname bl, map jname r)).

Theorem rest_disjoint_refuted :
  exists p avail, let '(b, _, r) := make_batch p avail in
    exists x, In x (map jname b) /\ In x (map jname r).
Proof. exists P, [B; C; A]. vm_compute. exists 1%N. split; auto. Qed.
Print Assumptions rest_disjoint_refuted.

(* a contract lemma to gauge proof effort: batch jobs have blockers closed *)
Definition closed (b : batch) := forall j, In j (b_jobs b) -> forall d, In d (jblocked j) -> In d (names b).


Lemma memN_In x l : memN x l = true <-> In x l.
Proof. unfold memN. rewrite existsb_exists. split.
  - intros [y [Hy E]]. apply N.eqb_eq in E. subst. exact Hy.
  - intros H. exists x. split; [exact H|apply N.eqb_refl]. Qed.
Lemma subsetN_spec a b : subsetN a b = true <-> (forall x, In x a -> In x b).
Proof. unfold subsetN. rewrite forallb_forall. split; intros H x Hx.
  - apply memN_In. auto.
  - apply memN_In. auto. Qed.


Lemma try_append_names p b j b' ok :
  try_append p b j = (b', ok) ->
  names b' = if ok then names b ++ [jname j] else names b.
Proof. unfold try_append, names. destruct (p_time p && _) eqn:E1.
  - intros H; inversion H; subst; reflexivity.
  - destruct (p_time p); intros H; inversion H; subst; cbn; rewrite map_app; reflexivity. Qed.

Lemma try_append_jobs p b j b' ok :
  try_append p b j = (b', ok) ->
  b_jobs b' = if ok then b_jobs b ++ [j] else b_jobs b.
Proof. unfold try_append. destruct (p_time p && _) eqn:E1.
  - intros H; inversion H; subst; reflexivity.
  - destruct (p_time p); intros H; inversion H; subst; reflexivity. Qed.

Lemma closed_append p b j b' :
  closed b -> is_blocked p b j = false -> try_append p b j = (b', true) -> closed b'.
Proof.
  intros Hc Hb Ht. pose proof (try_append_names _ _ _ _ _ Ht) as Hn. pose proof (try_append_jobs _ _ _ _ _ Ht) as Hj.
  unfold closed in *. rewrite Hn, Hj. intros j0 Hin d Hd. apply in_app_iff. apply in_app_iff in Hin. destruct Hin as [Hin|[->|[]]].
  - left. eauto.
  - unfold is_blocked in Hb. destruct (jblocked j0) eqn:Eb; [destruct Hd|].
    apply negb_false_iff in Hb. apply andb_true_iff in Hb. destruct Hb as [_ Hs].
    left. rewrite <- Eb in Hs. eapply subsetN_spec in Hs; eauto. rewrite Eb. exact Hd.
Qed.

Lemma pass_closed p n l : forall i s, closed (s_batch s) -> closed (s_batch (fst (pass p n l i s))).
Proof.
  induction l as [|j l IH]; intros i s Hc; cbn [pass]; [exact Hc|].
  destruct (memN _ _); [apply IH; exact Hc|].
  destruct (is_blocked p (s_batch s) j) eqn:Eb.
  - cbn [s_batch s_sub]. destruct (_ || _); [exact Hc|apply IH; exact Hc].
  - destruct (try_append p (s_batch s) j) as [b' ok] eqn:Et. destruct ok.
    + assert (closed b') by (eapply closed_append; eauto).
      cbn [s_batch s_sub]. destruct (_ || _); [assumption|apply IH; assumption].
    + assert (closed b'). { pose proof (try_append_jobs _ _ _ _ _ Et) as Hj. pose proof (try_append_names _ _ _ _ _ Et) as Hn. unfold closed in *. rewrite Hj, Hn. exact Hc. }
      cbn [s_batch s_sub]. destruct (_ || _); [assumption|apply IH; assumption].
Qed.
Print Assumptions pass_closed.
