# prototype: baton-scheduled virtual actors around the real JADE code
import os, sys, json, tempfile, shutil, re, time, threading, random, types
from pathlib import Path
from jade.extensions.generic_command.generic_command_configuration import GenericCommandConfiguration
from jade.extensions.generic_command.generic_command_parameters import GenericCommandParameters
from jade.models import SubmitterParams, HpcConfig
from jade.jobs.cluster import Cluster
from jade.jobs.job_submitter import JobSubmitter
import jade.hpc.slurm_manager as sm, jade.jobs.job_submitter as js, jade.jobs.async_cli_command as acc
import jade.cli.run_jobs as rj, jade.cli.try_submit_jobs as tsj, jade.jobs.job_queue as jq
import jade.jobs.cluster as cl, jade.jobs.results_aggregator as ra
from jade.result import ResultsSummary
import logging; logging.disable(logging.CRITICAL)

class Killed(BaseException): pass
class Actor:
    def __init__(self, name, fn, env):
        self.name=name; self.fn=fn; self.env=env; self.go=threading.Event(); self.done=False
        self.waiting_lock=None; self.exc=None
        self.t=threading.Thread(target=self._run, daemon=True)
    def _run(self):
        self.go.wait(); self.go.clear()
        try: self.fn()
        except SystemExit: pass
        except Killed: pass
        except BaseException as e: self.exc=e
        self.done=True; SCHED.baton.set()
class Sched:
    def __init__(self, seed):
        self.rng=random.Random(seed); self.actors=[]; self.cur=None; self.baton=threading.Event(); self.trace=[]; self.locks={}
    def spawn(self, name, fn, env):
        a=Actor(name, fn, env); self.actors.append(a); a.t.start(); return a
    def yield_point(self, kind, *payload):
        a=self.cur
        if threading.current_thread() is not a.t: return
        self.trace.append((a.name, kind)+payload)
        self.baton.set(); a.go.wait(); a.go.clear()
    def runnable(self):
        return [a for a in self.actors if not a.done and not (a.waiting_lock and a.waiting_lock in self.locks)]
    def run(self, extra_choices):
        while True:
            r=self.runnable(); ch=[("actor",a) for a in r]+extra_choices()
            if not ch: break
            k,x=self.rng.choice(ch)
            if k=="actor":
                self.cur=x; os.environ.clear(); os.environ.update(x.env)
                self.baton.clear(); x.go.set(); self.baton.wait()
            else: x()
        stuck=[a.name for a in self.actors if not a.done]
        return stuck
SCHED=None
class StandInLock:
    def __init__(self, path, timeout=-1): self.path=str(path)
    def acquire(self, timeout=None):
        a=SCHED.cur
        if threading.current_thread() is not a.t:
            fd=os.open(self.path, os.O_WRONLY|os.O_CREAT|os.O_EXCL); os.close(fd); SCHED.locks[self.path]="main"; return
        a.waiting_lock=self.path
        SCHED.yield_point("acquire", os.path.basename(self.path))
        assert self.path not in SCHED.locks, "mutual exclusion broken"
        a.waiting_lock=None; SCHED.locks[self.path]=a.name
        fd=os.open(self.path, os.O_WRONLY|os.O_CREAT|os.O_EXCL); os.close(fd)
    def release(self):
        os.unlink(self.path); del SCHED.locks[self.path]
        SCHED.yield_point("release", os.path.basename(self.path))
cl.SoftFileLock=StandInLock; ra.SoftFileLock=StandInLock
hpc={}; nextid=[100]; RC={}
def fake_slurm(cmd, output=None, **kw):
    if cmd.startswith("sbatch"):
        i=nextid[0]; nextid[0]+=1; hpc[str(i)]=dict(script=cmd.split()[1],state="PENDING")
        SCHED.yield_point("sbatch", i)
        output["stdout"]=f"Submitted batch job {i}\n"; output["stderr"]=""; return 0
    if cmd.startswith("squeue"):
        SCHED.yield_point("squeue")
        output["stdout"]="\n".join(f"{i:>20} {b['state']:<20}" for i,b in hpc.items() if b["state"]!="GONE"); output["stderr"]=""; return 0
    return 0
sm.run_command=fake_slurm
def fake_js_run_command(cmd, output=None, **kw):
    if isinstance(output,dict): output["stdout"]=""; output["stderr"]=""
    return 0
js.run_command=fake_js_run_command
js.JobSubmitter._save_repository_info=lambda self, reg: None
finished=set()
class FakePopen:
    def __init__(self, cmd, env=None, **kw):
        self.name=env["JADE_JOB_NAME"]; self.pid=1; self.returncode=None
        SCHED.yield_point("launch", self.name)
    def poll(self):
        if self.name in finished: self.returncode=RC.get(self.name,0)
        return self.returncode
acc.subprocess=types.SimpleNamespace(Popen=FakePopen)
running=set()
_orig_popen_init=FakePopen.__init__
def _init(self,cmd,env=None,**kw): _orig_popen_init(self,cmd,env=env,**kw); running.add(self.name)
FakePopen.__init__=_init
jq.time=types.SimpleNamespace(sleep=lambda s: SCHED.yield_point("sleep"), time=time.time)
def fake_rj_run_command(cmd, *a, **kw):
    SCHED.yield_point("try-submit")
    try: tsj.try_submit_jobs.callback(output=cmd.split()[2], verbose=False)
    except SystemExit as e: return e.code
rj.run_command=fake_rj_run_command

def node_fn(i):
    def f():
        b=hpc[str(i)]
        runsh=re.search(r"srun (\S+)", open(b["script"]).read()).group(1)
        cmdline=open(runsh).read().strip().split("\n")[-1].split()
        try: rj.run_jobs.callback(config_file=cmdline[2], distributed_submitter=True, output=cmdline[3].split("=")[1], num_parallel_processes_per_node=2, verbose=False)
        finally: b["state"]="GONE"
    return f

def one(seed):
    global SCHED
    SCHED=Sched(seed); hpc.clear(); nextid[0]=100; finished.clear(); running.clear(); RC.clear()
    out=tempfile.mkdtemp(prefix="jadeexp")
    hpcc=HpcConfig(hpc_type="slurm", hpc={"account":"acct","walltime":"0:10:00"})
    params=SubmitterParams(hpc_config=hpcc, num_processes=2, per_node_batch_size=2, max_nodes=2, resource_monitor_type="none", generate_reports=False)
    cfg=GenericCommandConfiguration()
    jobs=[dict(name="A",command="echo A"), dict(name="B",command="echo B",blocked_by=["A"],cancel_on_blocking_job_failure=True),
          dict(name="C",command="echo C"), dict(name="D",command="echo D",blocked_by=["C","B"]), dict(name="E",command="echo E", blocked_by=["D"]),
          dict(name="F",command="echo F"), dict(name="G",command="echo G", blocked_by=["F"])]
    RC["A"]=3
    for j in jobs: cfg.add_job(GenericCommandParameters(**j))
    cfg.assign_default_submission_group(params)
    base=dict(os.environ)
    SCHED.spawn("login", lambda: JobSubmitter.run_submit_jobs(cfg, out), dict(base))
    def extra():
        ch=[]
        for i,b in hpc.items():
            if b["state"]=="PENDING":
                def start(i=i,b=b):
                    b["state"]="RUNNING"
                    env=dict(base, SLURM_JOB_ID=str(i), SLURM_NODEID="0", SLURM_CPUS_ON_NODE="4", LOCAL_SCRATCH=tempfile.gettempdir())
                    SCHED.spawn(f"node{i}", node_fn(int(i)), env)
                ch.append(("start",start))
        for n in sorted(running-finished):
            ch.append(("finish", lambda n=n: finished.add(n)))
        return ch
    stuck=SCHED.run(extra)
    excs=[(a.name,repr(a.exc)) for a in SCHED.actors if a.exc]
    c,_=Cluster.deserialize(out, deserialize_jobs=True)
    st=c.get_status_summary()
    rec=0
    while not st["is_complete"] and not stuck and not excs and rec<6:
        SCHED.spawn("user%d"%rec, lambda: tsj.try_submit_jobs.callback(output=out, verbose=False), dict(base))
        stuck=SCHED.run(extra)
        excs=[(a.name,repr(a.exc)) for a in SCHED.actors if a.exc]
        c,_=Cluster.deserialize(out, deserialize_jobs=True); st=c.get_status_summary(); rec+=1
    res=None
    if st["is_complete"]:
        rs=ResultsSummary(out); res=sorted((r.name,r.return_code,r.status) for r in rs.list_results()), rs.missing_jobs
    shutil.rmtree(out)
    return len(SCHED.trace), stuck, excs, st["is_complete"], rec, res
t=time.time(); outs=[]
for seed in range(120):
    outs.append(one(seed))
print("elapsed", time.time()-t)
import collections
print(collections.Counter((o[3],o[4],str(o[5])) for o in outs))
print([o[0] for o in outs][:10], [o for o in outs if o[1] or o[2]][:3])
