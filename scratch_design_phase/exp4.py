import os, sys, json, tempfile, shutil, re, time
from pathlib import Path
from jade.extensions.generic_command.generic_command_configuration import GenericCommandConfiguration
from jade.extensions.generic_command.generic_command_parameters import GenericCommandParameters
from jade.models import SubmissionGroup, SubmitterParams, HpcConfig
from jade.jobs.cluster import Cluster
from jade.jobs.job_submitter import JobSubmitter
import jade.hpc.slurm_manager as sm
import jade.jobs.job_submitter as js
import jade.jobs.async_cli_command as acc
import jade.cli.run_jobs as rj
import jade.cli.try_submit_jobs as tsj
import jade.jobs.job_queue as jq
from jade.result import ResultsSummary

trace=[]
hpc={}  # id -> dict(script, state)
nextid=[100]
RC={}
def fake_slurm(cmd, output=None, **kw):
    if cmd.startswith("sbatch"):
        script=cmd.split()[1]
        i=nextid[0]; nextid[0]+=1
        hpc[str(i)]=dict(script=script,state="PENDING")
        trace.append(("sbatch",i,script))
        output["stdout"]=f"Submitted batch job {i}\n"; output["stderr"]=""; return 0
    if cmd.startswith("squeue"):
        output["stdout"]="\n".join(f"{i:>20} {b['state']:<20}" for i,b in hpc.items() if b["state"]!="GONE"); output["stderr"]=""; return 0
    if cmd.startswith("scancel"):
        trace.append(("scancel",cmd)); return 0
    raise Exception(cmd)
sm.run_command=fake_slurm
def fake_js_run_command(cmd, output=None, **kw):
    trace.append(("cmd",cmd))
    if isinstance(output,dict): output["stdout"]=""; output["stderr"]=""
    return 0
js.run_command=fake_js_run_command
class FakePopen:
    def __init__(self, cmd, env=None, **kw):
        self.cmd=cmd; self.name=env["JADE_JOB_NAME"]; self.pid=12345; self.returncode=None
        trace.append(("launch",self.name,cmd))
    def poll(self):
        self.returncode=RC.get(self.name,0); return self.returncode
import types; acc.subprocess=types.SimpleNamespace(Popen=FakePopen)
js.JobSubmitter._save_repository_info=lambda self, reg: None
jq.time=types.SimpleNamespace(sleep=lambda s: None, time=time.time)
def call(cb, **kw):
    try:
        cb(**kw)
    except SystemExit as e:
        return e.code
def fake_rj_run_command(cmd, *a, **kw):
    assert cmd.startswith("jade try-submit-jobs")
    trace.append(("try-submit", os.environ.get("SLURM_JOB_ID")))
    return call(tsj.try_submit_jobs.callback, output=cmd.split()[2], verbose=False)
rj.run_command=fake_rj_run_command

def run_node(i):
    b=hpc[str(i)]; b["state"]="RUNNING"
    sub=open(b["script"]).read()
    runsh=re.search(r"srun (\S+)", sub).group(1)
    cmdline=open(runsh).read().strip().split("\n")[-1].split()
    cfgfile=cmdline[2]; out=cmdline[3].split("=")[1]
    os.environ.update(SLURM_JOB_ID=str(i), SLURM_NODEID="0", SLURM_CPUS_ON_NODE="4", LOCAL_SCRATCH=tempfile.gettempdir())
    trace.append(("node-start",i,cfgfile))
    ret=call(rj.run_jobs.callback, config_file=cfgfile, distributed_submitter=True, output=out, num_parallel_processes_per_node=2, verbose=False)
    b["state"]="GONE"
    trace.append(("node-end",i,ret))

out=tempfile.mkdtemp(prefix="jadeexp")
import jade.cli.cancel_jobs as cj
cj.time=types.SimpleNamespace(sleep=lambda s: None)
def fake_cj_run_command(cmd, *a, **kw):
    trace.append(("cancel->try-submit",))
    return call(tsj.try_submit_jobs.callback, output=cmd.split()[2], verbose=False)
cj.run_command=fake_cj_run_command
hpcc=HpcConfig(hpc_type="slurm", hpc={"account":"acct","walltime":"0:10:00"})
params=SubmitterParams(hpc_config=hpcc, num_processes=2, per_node_batch_size=1, max_nodes=1, resource_monitor_type="none", generate_reports=False)
cfg=GenericCommandConfiguration()
for n in "ABC": cfg.add_job(GenericCommandParameters(name=n, command="echo "+n))
cfg.assign_default_submission_group(params)
ret=JobSubmitter.run_submit_jobs(cfg, out)
trace.append(("USER cancel-jobs",))
# scancel makes batch vanish from squeue
orig=sm.run_command
def slurm2(cmd, output=None, **kw):
    if cmd.startswith("scancel"):
        hpc[cmd.split()[1]]["state"]="GONE"
    return orig(cmd, output, **kw)
sm.run_command=slurm2
print("cancel ret", call(cj.cancel_jobs.callback, output=out, complete=True, verbose=False))
for e in trace: print(e)
c,_=Cluster.deserialize(out, deserialize_jobs=True)
print(c.get_status_summary(), c.job_status.hpc_job_ids)
shutil.rmtree(out)
