import os, sys, json, tempfile, shutil
from pathlib import Path
from jade.extensions.generic_command.generic_command_configuration import GenericCommandConfiguration
from jade.extensions.generic_command.generic_command_parameters import GenericCommandParameters
from jade.models import SubmissionGroup, SubmitterParams, HpcConfig
from jade.jobs.cluster import Cluster
from jade.jobs.job_submitter import JobSubmitter
from jade.hpc.hpc_submitter import HpcSubmitter
import jade.hpc.slurm_manager as sm

calls=[]
nextid=[100]
def fake_run_command(cmd, output=None, **kw):
    calls.append(cmd)
    if cmd.startswith("sbatch"):
        output["stdout"]=f"Submitted batch job {nextid[0]}\n"; output["stderr"]=""; nextid[0]+=1; return 0
    if cmd.startswith("squeue"):
        output["stdout"]="\n".join(f"{i} RUNNING" for i in range(100,nextid[0])); output["stderr"]=""; return 0
    return 0
sm.run_command=fake_run_command

out=tempfile.mkdtemp(prefix="jadeexp")
hpc=HpcConfig(hpc_type="slurm", hpc={"account":"acct","walltime":"0:10:00"})
params=SubmitterParams(hpc_config=hpc, num_processes=1, time_based_batching=True, try_add_blocked_jobs=True, per_node_batch_size=500)
cfg=GenericCommandConfiguration()
# B short blocked by A long; C filler
jobs=[dict(name="B",command="echo B",blocked_by=["A"],estimated_run_minutes=3),
      dict(name="A",command="echo A",estimated_run_minutes=5),
      dict(name="C",command="echo C",estimated_run_minutes=4)]
for j in jobs: cfg.add_job(GenericCommandParameters(**j))
cfg.assign_default_submission_group(params)
mgr=JobSubmitter.create(cfg, output=out)
cluster=Cluster.create(out, mgr.config)
from jade.jobs.results_aggregator import ResultsAggregator
ResultsAggregator.create(out)
try:
    s=HpcSubmitter(mgr.config, Path(out)/"config.json", cluster, out)
    print("complete:", s.run())
except Exception as e:
    print("EXC", type(e), e)
for f in sorted(Path(out).glob("config_batch_*.json")):
    print(f.name, [j["name"] for j in json.load(open(f))["jobs"]])
print([c for c in calls if c.startswith("sbatch")])
shutil.rmtree(out)
