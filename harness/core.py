"""Shared machinery of the /verif checks.

One check run = translate (regenerate coq/theories/Gen from /repo) -> prove (make the property's
.vo files, re-check Props/Cxx.v and collect Print Assumptions) -> correspond (run impl and the
Gallina model on the same cases; the model is evaluated by coqc itself with vm_compute) ->
decide -> evidence.  See DESIGN.md section 4.
"""
import fcntl
import hashlib
import json
import os
import random
import re
import shutil
import subprocess
import sys
import tempfile
import time
from pathlib import Path

VERIF = Path(__file__).resolve().parent.parent
REPO = Path(os.environ.get("JADE_REPO", "/repo"))
COQ = Path(os.environ.get("VERIF_COQ_DIR", VERIF / "coq"))   # override only for development
THEORIES = COQ / "theories"
WORK = VERIF / ".work"
EVIDENCE = VERIF / "evidence"
REPLAYS = VERIF / "replays"
GUARD = "NREL_JADE_VERIF"
NCPU = min(16, os.cpu_count() or 4)
MEM_LIMIT_KB = 14 * 1024 * 1024   # per coqc process

FORBIDDEN = re.compile(
    r"\b(Admitted|admit|Axiom|Axioms|Parameter|Parameters|Conjecture|Conjectures|Admit Obligations)\b"
    r"|Unset Guard|bypass_check|type-in-type|impredicative-set|Unset Positivity|Unset Universe"
    r"|native_compute"
)


def ensure_env():
    """Re-exec with the environment the harness needs (hash seed, PYTHONPATH=/repo, guard on)."""
    want = {"PYTHONHASHSEED": "0", GUARD: "1"}
    changed = False
    for k, v in want.items():
        if os.environ.get(k) != v:
            os.environ[k] = v
            changed = True
    pp = os.environ.get("PYTHONPATH", "")
    if str(REPO) not in pp.split(":"):
        os.environ["PYTHONPATH"] = f"{REPO}:{VERIF}" + (":" + pp if pp else "")
        changed = True
    if changed and not os.environ.get("_VERIF_REEXEC"):
        os.environ["_VERIF_REEXEC"] = "1"
        os.execv(sys.executable, [sys.executable] + sys.argv)
    for p in (str(VERIF), str(REPO)):
        if p not in sys.path:
            sys.path.insert(0, p)


# ------------------------------------------------------------------------------------------------
# Coq side
# ------------------------------------------------------------------------------------------------
class BuildError(Exception):
    def __init__(self, msg, log="", file=None, line=None, theorem=None):
        super().__init__(msg)
        self.log = log
        self.file = file
        self.line = line
        self.theorem = theorem


class _BuildLock:
    def __enter__(self):
        WORK.mkdir(exist_ok=True)
        self.f = open(WORK / "build.lock", "w")
        fcntl.flock(self.f, fcntl.LOCK_EX)
        return self

    def __exit__(self, *a):
        fcntl.flock(self.f, fcntl.LOCK_UN)
        self.f.close()


def _all_v_files():
    return sorted(str(p.relative_to(COQ)) for p in THEORIES.rglob("*.v"))


def _refresh_makefile():
    text = "-Q theories Jade\n-arg -w -arg -notation-overridden,-deprecated\n" + "\n".join(_all_v_files()) + "\n"
    proj = COQ / "_CoqProject"
    if not proj.exists() or proj.read_text() != text or not (COQ / "Makefile").exists():
        proj.write_text(text)
        subprocess.run(["coq_makefile", "-f", "_CoqProject", "-o", "Makefile"], cwd=COQ, check=True,
                       capture_output=True, timeout=120)


def _locate_error(log):
    m = None
    for m in re.finditer(r'File "\./?([^"]+)", line (\d+)', log):
        pass
    if not m:
        return None, None, None
    file, line = m.group(1), int(m.group(2))
    theorem = None
    try:
        lines = (COQ / file).read_text().splitlines()
        for i in range(min(line, len(lines)) - 1, -1, -1):
            mm = re.match(r"\s*(Theorem|Lemma|Corollary|Example|Definition|Fixpoint|Fact)\s+([A-Za-z0-9_']+)", lines[i])
            if mm:
                theorem = mm.group(2)
                break
    except OSError:
        pass
    return file, line, theorem


def build(targets=None, timeout=1500):
    """make the given .vo targets (paths relative to coq/, e.g. theories/Props/C18.vo) or all."""
    # The lock only protects the regeneration of _CoqProject/Makefile; builds of different
    # targets run concurrently (each check builds its own Props/Cxx.vo and what it depends on).
    # Every coqc runs under a time limit and an address-space limit so that a runaway proof search
    # cannot starve the other checks.
    with _BuildLock():
        _refresh_makefile()
    cmd = ["timeout", str(timeout), "make", f"-j{NCPU}"] + list(targets or [])
    t0 = time.time()
    p = subprocess.run(["bash", "-c", f"ulimit -v {MEM_LIMIT_KB}; exec " + " ".join(cmd)], cwd=COQ,
                       capture_output=True, text=True)
    log = p.stdout + p.stderr
    try:
        (WORK / "last_make.log").write_text(log)
    except OSError:
        pass
    if p.returncode != 0:
        file, line, thm = _locate_error(log)
        raise BuildError(f"coq build failed (rc={p.returncode}) in {file}:{line} ({thm})", log[-6000:], file, line, thm)
    return {"cmd": " ".join(cmd), "wall_s": round(time.time() - t0, 2)}


def coqc_file(vfile, timeout=600):
    """Compile one .v (relative to coq/) directly and return its stdout (Print Assumptions ...)."""
    p = subprocess.run(["bash", "-c", f"ulimit -v {MEM_LIMIT_KB}; exec timeout {timeout} coqc -Q theories Jade -w "
                        f"-notation-overridden,-deprecated {vfile}"],
                       cwd=COQ, capture_output=True, text=True)
    if p.returncode != 0:
        log = p.stdout + p.stderr
        file, line, thm = _locate_error(log)
        raise BuildError(f"coqc {vfile} failed in {file}:{line} ({thm})", log[-6000:], file or vfile, line, thm)
    return p.stdout


def parse_assumptions(out):
    """Split coqc output of a Props file into per-theorem assumption reports.

    Every Print Assumptions prints either 'Closed under the global context' or 'Axioms:' followed
    by the list.  Returns (n_closed, list_of_axiom_blocks)."""
    closed = len(re.findall(r"Closed under the global context", out))
    blocks = []
    for m in re.finditer(r"Axioms:\n((?:.+\n?)+?)(?=\n\S|\Z)", out):
        blocks.append(m.group(1).strip())
    return closed, blocks


def props_info(pid):
    """Theorem names stated in Props/<pid>.v (each must be followed by Print Assumptions)."""
    text = (THEORIES / "Props" / f"{pid}.v").read_text()
    thms = re.findall(r"^\s*(?:Theorem|Corollary)\s+([A-Za-z0-9_']+)", text, re.M)
    examples = re.findall(r"^\s*Example\s+([A-Za-z0-9_']+)", text, re.M)
    printed = re.findall(r"Print Assumptions\s+([A-Za-z0-9_']+)", text)
    return thms, examples, printed


def hygiene():
    """Forbidden vernacular anywhere in the development (comments are stripped first)."""
    hits = []
    for p in sorted(THEORIES.rglob("*.v")):
        text = p.read_text()
        text = _strip_coq_comments(text)
        for i, line in enumerate(text.splitlines(), 1):
            if FORBIDDEN.search(line):
                hits.append(f"{p.relative_to(VERIF)}:{i}: {line.strip()[:120]}")
    return hits


def _strip_coq_comments(text):
    out = []
    depth = 0
    i = 0
    n = len(text)
    in_str = False
    while i < n:
        c = text[i]
        if depth == 0 and c == '"':
            in_str = not in_str
            out.append(c)
            i += 1
            continue
        if not in_str and text.startswith("(*", i):
            depth += 1
            i += 2
            continue
        if not in_str and depth > 0 and text.startswith("*)", i):
            depth -= 1
            i += 2
            continue
        if depth == 0:
            out.append(c)
        elif c == "\n":
            out.append(c)
        i += 1
    return "".join(out)


def coq_eval(name, body, timeout=600):
    """Write .work/<name>.v with `body`, compile it with coqc, return stdout.

    Used for the correspondence: `body` imports the model and ends with Eval vm_compute commands.
    Not under the build lock (it only reads .vo files)."""
    WORK.mkdir(exist_ok=True)
    d = Path(tempfile.mkdtemp(prefix="ev_", dir=WORK))
    try:
        modname = re.sub(r"[^A-Za-z0-9_]", "_", name)
        f = d / f"{modname}.v"
        f.write_text(body)
        p = subprocess.run(
            ["bash", "-c", f"ulimit -s unlimited 2>/dev/null; exec timeout {timeout} coqc -Q {THEORIES} Jade -w -notation-overridden,-deprecated {f}"],
            capture_output=True, text=True, cwd=d)
        if p.returncode != 0:
            raise BuildError(f"coq_eval {name} failed", (p.stdout + p.stderr)[-4000:])
        return p.stdout
    finally:
        shutil.rmtree(d, ignore_errors=True)


def coq_eval_many(jobs, timeout=600):
    """jobs: list of (name, body). Runs them in parallel; returns list of stdout strings."""
    from concurrent.futures import ThreadPoolExecutor
    with ThreadPoolExecutor(max_workers=NCPU) as ex:
        return list(ex.map(lambda nb: coq_eval(nb[0], nb[1], timeout), jobs))


_EVAL_RE = re.compile(r"^\s*=\s*(.*?)\n\s*:\s", re.S | re.M)


def eval_results(stdout):
    """The values printed by successive `Eval vm_compute in ...` commands, whitespace-normalised."""
    vals = []
    for chunk in re.split(r"(?m)^(?=\s*= )", stdout):
        m = re.match(r"\s*=\s*(.*)\n\s*:\s[^\n]*(?:\n|$)", chunk, re.S)
        if m:
            vals.append(" ".join(m.group(1).split()))
    return vals


def parse_nat_list(s):
    """'[1; 5; 7]%N' / '[]' / 'nil' -> [1,5,7]"""
    return [int(x) for x in re.findall(r"\d+", s.split("%")[0] if "[" not in s else s[s.index("["):s.rindex("]") + 1])]


# --- printing Coq terms -------------------------------------------------------------------------
def cN(n):
    assert n >= 0
    return f"{int(n)}%N"


def cZ(n):
    n = int(n)
    return f"({n})%Z"


def cnat(n):
    assert 0 <= n < 5000, n
    return f"{int(n)}%nat"


def cbool(b):
    return "true" if b else "false"


def clist(items):
    return "[" + "; ".join(items) + "]"


def copt(x, f):
    return "None" if x is None else f"(Some {f(x)})"


_SAFE = set("abcdefghijklmnopqrstuvwxyzABCDEFGHIJKLMNOPQRSTUVWXYZ0123456789 _-+=/.:,;#%@!?*()[]{}<>~^&|$'`")


def cstr(s):
    """A Coq `string` term for the Python str (bytes of its utf-8 encoding)."""
    if all(ch in _SAFE for ch in s):
        return '"' + s + '"%string'
    bs = s.encode("utf-8")
    return "(bytes_to_string " + clist([f"{b}%N" for b in bs]) + ")"


# ------------------------------------------------------------------------------------------------
# Reporting
# ------------------------------------------------------------------------------------------------
def load_known_findings():
    f = VERIF / "known_findings.json"
    if not f.exists():
        return []
    return json.loads(f.read_text()).get("findings", [])


class Check:
    """Bookkeeping of one check run; prints the VIOLATION / KNOWN-FINDING lines and writes evidence."""

    def __init__(self, pid, tier, seed):
        self.pid = pid
        self.tier = tier
        self.seed = seed
        self.t0 = time.time()
        self.rng = random.Random(seed)
        self.obligations = []       # (name, ok, detail)
        self.violations = []        # dict(kind, what, replay)
        self.known = []
        self.coverage = {"samples": [], "evaluations": 0, "distinct_nontrivial": 0}
        self.assumptions = []
        self.trusted = []
        self.notes = {}
        self.tie_breaks = []        # correspondence / proof breaks awaiting a concrete witness
        self._distinct = set()

    # -- obligations
    def oblige(self, name, ok, detail=""):
        self.obligations.append((name, bool(ok), detail))

    # -- cases
    def count(self, case_key, nontrivial=True):
        self.coverage["evaluations"] += 1
        if nontrivial:
            h = hashlib.sha1(repr(case_key).encode()).hexdigest()[:16]
            self._distinct.add(h)

    def sample(self, obj, limit=6):
        if len(self.coverage["samples"]) < limit:
            self.coverage["samples"].append(obj)

    # -- violations
    def _write_replay(self, obj):
        REPLAYS.mkdir(exist_ok=True)
        blob = json.dumps(obj, indent=1, sort_keys=True, default=str)
        h = hashlib.sha1(blob.encode()).hexdigest()[:12]
        path = REPLAYS / f"{self.pid}-{h}.json"
        path.write_text(blob)
        return path

    def violation(self, signature, what, replay_obj):
        """A concrete failing input of the *property* on impl."""
        for kf in load_known_findings():
            if kf.get("property") == self.pid and kf.get("kind") == "finding" and kf.get("signature") == signature:
                if signature not in [k[0] for k in self.known]:
                    self.known.append((signature, kf.get("what", what)))
                return
        if any(v["signature"] == signature for v in self.violations):
            return
        replay_obj = dict(replay_obj, property=self.pid, signature=signature, what=what, kind="failing-input")
        path = self._write_replay(replay_obj)
        self.violations.append({"signature": signature, "what": what, "replay": str(path), "concrete": True})

    def tie_broken(self, which, detail):
        """A theorem or a correspondence no longer checks.  Reported at the end: with a concrete
        failing input if one was found meanwhile, else as no-failing-input-found."""
        self.tie_breaks.append({"which": which, "detail": detail})

    # -- finish
    def finish(self, level="proof", checker_cmd="", extra_cov=None):
        cov = self.coverage
        cov["distinct_nontrivial"] = len(self._distinct)
        cov["obligations"] = len(self.obligations)
        cov["discharged"] = sum(1 for o in self.obligations if o[1])
        cov["obligation_list"] = [{"name": n, "ok": ok, "detail": d} for n, ok, d in self.obligations]
        cov["checker_cmd"] = checker_cmd or "make -C /verif/coq (coqc 8.16.1, full .vo build) + coqc Props/%s.v" % self.pid
        cov["trusted_base"] = self.trusted
        cov.update(self.notes)
        if extra_cov:
            cov.update(extra_cov)
        failed_obl = [o for o in self.obligations if not o[1]]
        for n, ok, d in failed_obl:
            if not any(t["which"] == n for t in self.tie_breaks):
                self.tie_breaks.append({"which": n, "detail": d})
        out_lines = []
        if self.tie_breaks and not any(v["concrete"] for v in self.violations):
            obj = {"property": self.pid, "kind": "no-failing-input-found",
                   "broken": self.tie_breaks[:20],
                   "explanation": "These theorems / correspondences no longer check against /repo; the "
                                  "search for a concrete input on which the property fails found none."}
            path = self._write_replay(obj)
            self.violations.append({"signature": "tie:" + self.tie_breaks[0]["which"], "what": self.tie_breaks[0]["which"],
                                    "replay": str(path), "concrete": False})
        for sig, what in self.known:
            out_lines.append(f"KNOWN-FINDING: property={self.pid} {what}")
        for v in self.violations:
            tail = "" if v["concrete"] else " no-failing-input-found"
            out_lines.append(f"VIOLATION property={self.pid} replay={v['replay']}{tail}")
        ev = {
            "property_id": self.pid, "tier": self.tier, "seed": self.seed, "level": level,
            "coverage": cov, "assumptions": self.assumptions,
            "wall_s": round(time.time() - self.t0, 2), "violations": len(self.violations),
            "known_findings_reported": [w for _, w in self.known],
            "tie_breaks": self.tie_breaks[:20],
        }
        EVIDENCE.mkdir(exist_ok=True)
        (EVIDENCE / f"{self.pid}.json").write_text(json.dumps(ev, indent=1, default=str))
        for l in out_lines:
            print(l)
        ok = not self.violations
        print(f"[{self.pid}] tier={self.tier} seed={self.seed} obligations={cov['discharged']}/{cov['obligations']} "
              f"evaluations={cov['evaluations']} distinct_nontrivial={cov['distinct_nontrivial']} "
              f"violations={len(self.violations)} known={len(self.known)} wall={ev['wall_s']}s -> {'PASS' if ok else 'FAIL'}")
        return 0 if ok else 1


BASE_TRUSTED = [
    "Coq 8.16.1 kernel (coqc); vm_compute used, native_compute not used; no -type-in-type/-impredicative-set; guard/positivity/universe checks on",
    "hand-written specification vocabulary in coq/theories (statements in Props/*.v)",
    "harness/translate.py (Python ast -> coq/theories/Gen/*.v, fail-closed)",
    "correspondence harness (harness/props/*.py, harness/vcluster.py): decides what impl is observed to do; model side evaluated by coqc vm_compute (no extraction)",
    "environment assumptions A-FS, A-HPC, A-PY of DESIGN.md section 6 (hypotheses, not axioms)",
]


def standard_proof_phase(chk, pid, gen_needed=None, extra_targets=()):
    """translate + build + Print Assumptions + hygiene.  Returns True iff all proofs check."""
    from harness import translate
    chk.trusted = list(BASE_TRUSTED)
    ok = True
    # 1. translate
    try:
        # System.v is written over Gen/RoundGen.v (the shape of a submitter round), so every check that
        # builds the system model re-translates it, whatever else it needs
        if gen_needed is not None:
            gen_needed = tuple(gen_needed) + (("RoundGen",) if "RoundGen" not in gen_needed else ())
        info = translate.run(only=gen_needed) if gen_needed is not None else translate.run()
        chk.oblige("translate:" + ",".join(sorted(info)) if info else "translate", True, json.dumps(info)[:400])
        chk.notes["translated"] = info
    except translate.TranslateError as e:
        chk.oblige("translate", False, str(e))
        chk.tie_broken("translator (fail-closed)", str(e))
        ok = False
    # 2. build
    targets = [f"theories/Props/{pid}.vo"] + list(extra_targets)
    try:
        b = build(targets)
        chk.oblige("make " + " ".join(targets), True, json.dumps(b))
    except BuildError as e:
        chk.oblige("make " + " ".join(targets), False, str(e))
        chk.tie_broken(f"theorem {e.theorem} ({e.file}:{e.line})", e.log[-1500:])
        chk.notes["build_error"] = {"file": e.file, "line": e.line, "theorem": e.theorem, "log_tail": e.log[-1500:]}
        return False
    # 3. property theorems + assumptions
    try:
        out = coqc_file(f"theories/Props/{pid}.v")
        thms, examples, printed = props_info(pid)
        closed, axioms = parse_assumptions(out)
        for t in thms:
            chk.oblige("theorem " + t, True, "checked by coqc")
        for t in examples:
            chk.oblige("example " + t, True, "non-vacuity / witness, checked by coqc")
        missing = [t for t in thms if t not in printed]
        chk.oblige("Print Assumptions under every property theorem", not missing, "missing: %s" % missing)
        chk.notes["print_assumptions"] = {"closed_under_global_context": closed, "axiom_blocks": axioms,
                                          "theorems": thms}
        if axioms:
            chk.trusted.append("axioms reported by Print Assumptions: " + " | ".join(axioms))
        else:
            chk.trusted.append("Print Assumptions: all %d property theorems closed under the global context" % closed)
    except BuildError as e:
        chk.oblige(f"coqc Props/{pid}.v", False, str(e))
        chk.tie_broken(f"theorem {e.theorem} ({e.file}:{e.line})", e.log[-1500:])
        ok = False
    # 4. hygiene
    hits = hygiene()
    chk.oblige("no Admitted/admit/Axiom/Parameter/Conjecture/guard switches in the development", not hits, "; ".join(hits[:5]))
    if hits:
        ok = False
    return ok


def extra_props_phase(chk, name):
    """A second statements file of a property (e.g. Props/C01_batch.v): build it, re-check it with
    coqc, record its theorems and Print Assumptions like standard_proof_phase does."""
    target = f"theories/Props/{name}.vo"
    try:
        b = build([target])
        chk.oblige("make " + target, True, json.dumps(b))
        out = coqc_file(f"theories/Props/{name}.v")
        thms, examples, printed = props_info(name)
        closed, axioms = parse_assumptions(out)
        for t in thms:
            chk.oblige("theorem " + t, True, "checked by coqc")
        for t in examples:
            chk.oblige("example " + t, True, "non-vacuity / witness, checked by coqc")
        missing = [t for t in thms if t not in printed]
        chk.oblige(f"Print Assumptions under every theorem of {name}", not missing, "missing: %s" % missing)
        pa = chk.notes.setdefault("print_assumptions_extra", {})
        pa[name] = {"closed_under_global_context": closed, "axiom_blocks": axioms, "theorems": thms}
        if axioms:
            chk.trusted.append(f"axioms reported by Print Assumptions in {name}: " + " | ".join(axioms))
        return True
    except BuildError as e:
        chk.oblige(f"coqc Props/{name}.v", False, str(e))
        chk.tie_broken(f"theorem {e.theorem} ({e.file}:{e.line})", e.log[-1500:])
        return False


# ------------------------------------------------------------------------------------------------
# Differential comparison evaluated by coqc
# ------------------------------------------------------------------------------------------------
class CoqCompare:
    """Collect (input term, expected-output term) pairs for one model function and let coqc decide
    `eqb (f input) expected` for all of them with vm_compute.  Returns the failing indices."""

    def __init__(self, name, imports, fn, eqb, in_ty, out_ty, shard=250, prelude=""):
        self.name = name
        self.imports = imports
        self.fn = fn
        self.eqb = eqb
        self.in_ty = in_ty
        self.out_ty = out_ty
        self.shard = shard
        self.prelude = prelude
        self.cases = []   # (input_term, expected_term, meta)

    def add(self, inp, expected, meta=None):
        self.cases.append((inp, expected, meta))
        return len(self.cases) - 1

    def _body(self, idxs):
        lines = [self.imports, "Import ListNotations.", "Open Scope string_scope.", "Set Printing Depth 1000000.",
                 "Set Printing Width 1000000.", self.prelude,
                 f"Definition cases : list (N * (({self.in_ty}) * ({self.out_ty}))) := ["]
        items = []
        for i in idxs:
            inp, exp, _ = self.cases[i]
            items.append(f"  ({i}%N, ({inp}, {exp}))")
        lines.append(";\n".join(items))
        lines.append("].")
        lines.append(f"Eval vm_compute in (map fst (filter (fun c => negb (({self.eqb}) (({self.fn}) (fst (snd c))) (snd (snd c)))) cases)).")
        return "\n".join(lines) + "\n"

    def run(self, timeout=900):
        """-> sorted list of failing case indices"""
        if not self.cases:
            return []
        shards = [list(range(i, min(i + self.shard, len(self.cases)))) for i in range(0, len(self.cases), self.shard)]
        jobs = [(f"{self.name}_{k}", self._body(idxs)) for k, idxs in enumerate(shards)]
        outs = coq_eval_many(jobs, timeout)
        bad = []
        for o in outs:
            vals = eval_results(o)
            if len(vals) != 1:
                raise BuildError(f"unexpected coqc output for {self.name}", o[-2000:])
            bad.extend(int(x) for x in re.findall(r"\d+", vals[0]))
        return sorted(set(bad))

    def show(self, i, timeout=300):
        """model output for case i, as printed by Coq (for replay files)"""
        inp, exp, _ = self.cases[i]
        body = "\n".join([self.imports, "Import ListNotations.", "Open Scope string_scope.",
                          "Set Printing Depth 1000000.", "Set Printing Width 1000000.", self.prelude,
                          f"Eval vm_compute in (({self.fn}) ({inp})).",
                          f"Eval vm_compute in ({exp} : {self.out_ty})."]) + "\n"
        try:
            vals = eval_results(coq_eval(self.name + "_show", body, timeout))
        except BuildError as e:
            return {"error": e.log[-500:]}
        return {"model": vals[0] if vals else None, "impl_as_term": vals[1] if len(vals) > 1 else None}
