"""Correspondence drivers for Batch.v against the real HpcSubmitter (_make_batch directly, and the
whole submission part of HpcSubmitter.run on a real Cluster with a scripted sbatch/squeue), plus the
Python property oracles of C07/C01 that judge what impl itself produced (config_batch_N.json, the
submission script and the run script behind every sbatch)."""
import glob
import itertools
import json
import os
import re
import shutil
import tempfile

from harness import core, jadeenv
from harness.core import cN, cZ, cbool, clist

IMPORTS = "From Coq Require Import List ZArith NArith Bool.\nFrom Jade Require Import Base Batch."
NJ = 12
JOBNAMES = [f"j{i}" for i in range(1, NJ + 1)]
IDX = {n: i + 1 for i, n in enumerate(JOBNAMES)}
OUTSIDE = "j12"          # a blocker that is never among the candidates of the exhaustive scopes


def gparams_term(g, gidx):
    return (f"{{| g_name := {cN(gidx)}; g_size := {cN(g['size'])}; g_time := {cbool(g['time'])}; "
            f"g_max := {cZ(jadeenv.group_limit_seconds(g))}; g_try := {cbool(g['try'])}; g_dry := {cbool(g.get('dry', False))} |}}")


def cjob_term(name, blocked, est, gidx):
    return (f"{{| jname := {cN(IDX[name])}; jblocked := {clist([cN(IDX[b]) for b in sorted(blocked, key=lambda x: IDX[x])])}; "
            f"jest := {cZ(est or 0)}; jgroup := {cN(gidx)} |}}")


# ---------------------------------------------------------------------------------------------
class MakeBatchRig:
    """One real HpcSubmitter over a 12-job configuration; _make_batch is called with fresh cluster Job
    objects and a fresh submission group per case."""

    def __init__(self, tmp):
        from jade.jobs.cluster import Cluster
        from jade.hpc.hpc_submitter import HpcSubmitter
        sc = {"jobs": [{"name": n, "deps": [], "group": "g", "est": 1} for n in JOBNAMES],
              "groups": [{"name": "g", "size": 3, "time": False, "try": True, "nproc": 1}], "max_nodes": None}
        self.cfg = jadeenv.make_config(sc)
        self.out = os.path.join(tmp, "mb")
        os.makedirs(self.out)
        cluster = Cluster.create(self.out, self.cfg)
        self.hs = HpcSubmitter(self.cfg, os.path.join(self.out, "config.json"), cluster, self.out)

    def call(self, g, avail):
        """avail: [(name, [blockers], est)] -> dict(batch=[(name,[blocked])], blocked=[..], rest=[..], submitted=[..])"""
        from jade.models import Job, JobState
        group = jadeenv.make_group(dict(g, name="g"), None)
        jobs = []
        for name, blocked, est in avail:
            self.cfg.get_job(name).estimated_run_minutes = est
            jobs.append(Job(name=name, blocked_by=set(blocked), cancel_on_blocking_job_failure=False,
                            state=JobState.NOT_SUBMITTED))
        submitted, blocked_out = [], []
        batch, rest = self.hs._make_batch(jobs, group, submitted, blocked_out)
        return {"batch": [(j.name, sorted(j.get_blocking_jobs(), key=lambda x: IDX[x])) for j in batch._jobs],
                "blocked": [j.name for j in blocked_out], "rest": [j.name for j in rest],
                "submitted": [j.name for j in submitted]}


def mb_oracle(g, avail, res):
    """C07/C01 contract of one _make_batch call, judged on impl's own output.  -> list of problems"""
    probs = []
    est = {n: e for n, _, e in avail}
    blk = {n: set(b) for n, b, _ in avail}
    order = [n for n, _, _ in avail]
    bnames = [n for n, _ in res["batch"]]
    if len(set(bnames)) != len(bnames):
        probs.append("job twice in one batch")
    if set(bnames) & set(res["rest"]):
        probs.append("job placed in the batch is also handed back as not checked: %s" % sorted(set(bnames) & set(res["rest"])))
    if not set(bnames) <= set(order):
        probs.append("batch holds a job that was not offered")
    if g["time"]:
        if 60 * sum(est[n] for n in bnames) > jadeenv.group_limit_seconds(g):
            probs.append("estimated time of the batch exceeds walltime x processes")
    elif len(bnames) > max(1, g["size"]):
        probs.append("batch larger than per-node batch size")
    for n, written in res["batch"]:
        if set(written) != blk[n]:
            probs.append(f"blocked_by written for {n} differs from its remaining blockers")
        if blk[n] and not g["try"]:
            probs.append(f"blocked job {n} placed although try-add-blocked is off")
        if not blk[n] <= set(bnames):
            probs.append(f"job {n} placed without all its unfinished blockers in the batch")
    if res["rest"] != order[len(order) - len(res["rest"]):]:
        probs.append("not-checked list is not a suffix of the candidates")
    if res["submitted"] != bnames:
        probs.append("submitted list differs from the batch")
    if set(res["blocked"]) & set(bnames):
        probs.append("job both placed and reported blocked")
    for n in res["blocked"]:
        if n in blk and not blk[n]:
            probs.append(f"job {n} without unfinished blockers reported blocked")
    lost = set(order) - set(bnames) - set(res["blocked"]) - set(res["rest"])
    if lost:
        probs.append("candidate neither placed, reported blocked nor handed back: %s" % sorted(lost))
    # progress (guard of the while loop in _submit_batches): a call on a non-empty list must shorten it
    fits = (not g["time"]) or all(60 * e <= jadeenv.group_limit_seconds(g) for e in est.values())
    if order and fits and len(res["rest"]) >= len(order):
        probs.append("no progress: the not-checked list is as long as the candidate list")
    return probs


def gen_group(rng, small=False):
    time = rng.random() < 0.45
    nproc = rng.choice([1, 1, 2, 3])
    return {"size": rng.choice([1, 2, 3]) if small else rng.choice([1, 2, 3, 4, 6, 500]), "time": time,
            "wall_min": rng.choice([3, 4, 5, 6, 8, 10]), "nproc": nproc if time else rng.choice([None, 1, 2]),
            # walltimes are not always whole minutes (HH:MM:SS): the limit is compared in seconds
            "wall_sec": rng.choice([0, 0, 0, 15, 30, 45, 59]),
            "try": rng.random() < 0.6, "dry": False}


def gen_avail(rng, n, g):
    """random candidate list: names in random listing order, blockers among the candidates (any
    direction: blocked-before-blocker included) and sometimes outside, estimates straddling the limit"""
    names = rng.sample(JOBNAMES, n)
    lim = jadeenv.group_limit_seconds(g) // 60 if g["time"] else 5
    outside = [x for x in JOBNAMES if x not in names]
    topo = names[:]
    rng.shuffle(topo)
    pos = {x: i for i, x in enumerate(topo)}
    avail = []
    for x in names:
        cands = [y for y in names if pos[y] < pos[x]]
        deps = [y for y in cands if rng.random() < 0.4]
        if outside and rng.random() < 0.15:
            deps.append(rng.choice(outside))
        avail.append((x, deps, rng.randint(1, max(1, lim))))
    if g["time"] and rng.random() < 0.7:
        avail.sort(key=lambda t: t[2])   # what _get_available_jobs_by_time hands over
    return avail


def directed_avail():
    """the blocked-before-blocker-under-time-pressure family (D1) and count-based analogues"""
    out = []
    g = {"size": 500, "time": True, "wall_min": 10, "nproc": 1, "try": True, "dry": False}
    out.append((g, [("j2", ["j1"], 3), ("j3", [], 4), ("j1", [], 5)]))
    out.append((g, [("j2", ["j1"], 3), ("j3", [], 4), ("j1", [], 5), ("j4", [], 6)]))
    out.append((g, [("j2", ["j1"], 2), ("j4", ["j2"], 2), ("j3", [], 3), ("j1", [], 3)]))
    out.append((g, [("j2", ["j1"], 6), ("j1", [], 5)]))
    out.append((g, [("j1", [], 10)]))                      # exactly the limit: must fit
    out.append((g, [("j1", [], 4), ("j2", [], 6)]))         # sum exactly the limit
    out.append((g, [("j1", [], 4), ("j2", [], 6), ("j3", [], 7)]))
    out.append((dict(g, nproc=2), [("j1", [], 10), ("j2", [], 10), ("j3", [], 10)]))
    g2 = {"size": 2, "time": False, "wall_min": 10, "nproc": None, "try": True, "dry": False}
    out.append((g2, [("j2", ["j1"], 1), ("j3", ["j2"], 1), ("j1", [], 1), ("j4", [], 1)]))
    out.append((g2, [("j3", ["j2"], 1), ("j2", ["j1"], 1), ("j1", [], 1)]))
    out.append((g2, [("j1", [], 1), ("j2", [], 1)]))        # exactly the batch size
    out.append((dict(g2, size=1), [("j1", [], 1), ("j2", [], 1)]))
    g3 = dict(g2)
    g3["try"] = False
    out.append((g3, [("j2", ["j1"], 1), ("j1", [], 1), ("j3", [], 1)]))
    return out


def _dags(n):
    """all acyclic dependency relations on j1..jn (labelled: every listing order relative to the
    dependency order occurs)"""
    names = JOBNAMES[:n]
    pairs = [(a, b) for a in names for b in names if a != b]
    for mask in range(1 << len(pairs)):
        deps = {x: [] for x in names}
        for k, (a, b) in enumerate(pairs):
            if mask >> k & 1:
                deps[a].append(b)
        # acyclic?
        state = {}

        def cyc(x):
            if state.get(x) == 1:
                return True
            if state.get(x) == 2:
                return False
            state[x] = 1
            r = any(cyc(y) for y in deps[x])
            state[x] = 2
            return r
        acyclic = not any(cyc(x) for x in names)
        yield deps, acyclic


_DEPS_CACHE = {}


def dep_relations(n):
    if n not in _DEPS_CACHE:
        _DEPS_CACHE[n] = list(_dags(n))
    return _DEPS_CACHE[n]


def param_grid():
    groups = []
    for size in (1, 2, 3):
        for tr in (False, True):
            groups.append({"size": size, "time": False, "wall_min": 10, "nproc": None, "try": tr, "dry": False})
    for wall in (3, 4, 6):
        for tr in (False, True):
            groups.append({"size": 500, "time": True, "wall_min": wall, "nproc": 1, "try": tr, "dry": False})
    return groups


def exhaustive_small(max_n, ests=(1, 2, 3), outside="none", cyclic_upto=3):
    """<= max_n candidates j1..jn in listing order; every dependency relation among them (cyclic ones too up
    to `cyclic_upto` candidates, all DAGs beyond: blockers point forwards or backwards, so every listing
    order of every dependency shape occurs); estimates: every tuple over `ests` in listing order (sorted and
    unsorted lists); parameter grid: sizes 1..3 / wall 3,4,6 min x try-add-blocked.
    outside = "none" | "all" (every subset of the jobs additionally waits for a job outside the list)
              | "count" (the same, count-based groups only)"""
    groups = param_grid()
    for n in range(1, max_n + 1):
        names = JOBNAMES[:n]
        for deps, acyclic in dep_relations(n):
            if not acyclic and n > cyclic_upto:
                continue
            outs = [()]
            if outside != "none":
                outs = [c for k in range(n + 1) for c in itertools.combinations(names, k)]
            for oset in outs:
                for g in groups:
                    if oset and outside == "count" and g["time"]:
                        continue
                    est_choices = itertools.product(ests, repeat=n) if g["time"] else [tuple([1] * n)]
                    for es in est_choices:
                        yield g, [(x, deps[x] + ([OUTSIDE] if x in oset else []), e) for x, e in zip(names, es)]


def make_batch_cases(chk, n_random, tier=None):
    """-> (cases, description)"""
    tier = tier or chk.tier
    cases = list(directed_avail())
    n_dir = len(cases)
    if tier == "quick":
        cases += list(exhaustive_small(3))
        ex3o = [c for c in exhaustive_small(3, outside="all") if any(OUTSIDE in b for _, b, _ in c[1])]
        cases += ex3o[chk.rng.randrange(8)::8]
        ex4 = [c for c in exhaustive_small(4) if len(c[1]) == 4]
        cases += ex4[chk.rng.randrange(25)::25]
        desc = {"exhaustive": "all <=3 candidates x all dependency relations x estimates {1,2,3}^n x 12 parameter sets",
                "sampled": "1/8 of the <=3-candidate cases with outside blockers, 1/25 of the 4-candidate (all DAGs) cases"}
    else:
        cases += list(exhaustive_small(3, outside="all"))
        cases += [c for c in exhaustive_small(4) if len(c[1]) == 4]
        cases += [c for c in exhaustive_small(4, outside="count") if len(c[1]) == 4 and any(OUTSIDE in b for _, b, _ in c[1])]
        desc = {"exhaustive": "all <=3 candidates x all dependency relations (cyclic too) x every subset also blocked from outside "
                              "x estimates {1,2,3}^n x 12 parameter sets; 4 candidates x all 543 DAGs x estimates x 12 parameter "
                              "sets; 4 candidates x DAGs x outside subsets for the count-based sets"}
    n_exh = len(cases) - n_dir
    for _ in range(n_random):
        g = gen_group(chk.rng)
        cases.append((g, gen_avail(chk.rng, chk.rng.randint(1, NJ), g)))
    desc.update({"directed": n_dir, "enumerated": n_exh, "random_upto_12_candidates": n_random})
    return cases, desc


MB_FN = ("fun c => let m := make_batch (fst c) (snd c) in (map (fun j => (jname j, jblocked j)) (mb_batch m), "
         "names (mb_blocked m), names (mb_rest m))")
MB_EQB = "prod_eqb (prod_eqb (list_eqb (prod_eqb N.eqb (list_eqb N.eqb))) (list_eqb N.eqb)) (list_eqb N.eqb)"


def mb_terms(g, avail, res):
    inp = f"({gparams_term(g, 1)}, {clist([cjob_term(n, b, e, 1) for n, b, e in avail])})"
    exp = ("(" + clist([f"({cN(IDX[n])}, {clist([cN(IDX[b]) for b in bl])})" for n, bl in res["batch"]]) + ", "
           + clist([cN(IDX[n]) for n in res["blocked"]]) + ", " + clist([cN(IDX[n]) for n in res["rest"]]) + ")")
    return inp, exp


def new_mb_compare():
    return core.CoqCompare("mb", IMPORTS, MB_FN, MB_EQB, "gparams * list cjob", "list (N * list N) * list N * list N",
                           shard=1500)


def run_make_batch(chk, tmp, n_random, exhaustive_n=None):
    rig = MakeBatchRig(tmp)
    cmp_ = new_mb_compare()
    cases, desc = make_batch_cases(chk, n_random)
    dist = {"cases": 0, "time_based": 0, "try_blocked": 0, "multi_pass": 0, "nonempty_rest": 0, "with_blocked": 0,
            "sizes": {}, "scope": desc}
    for k, (g, avail) in enumerate(cases):
        try:
            res = rig.call(g, avail)
        except Exception as e:  # impl crashed inside _make_batch
            chk.violation("make_batch-exception:" + type(e).__name__, "HpcSubmitter._make_batch raised " + repr(e)[:200],
                          {"component": "HpcSubmitter._make_batch", "group": g, "candidates": avail})
            continue
        for pr in mb_oracle(g, avail, res):
            chk.violation("make_batch:" + re.sub(r"\bj\d+\b", "<job>", pr.split(":")[0])[:70], pr,
                          {"component": "HpcSubmitter._make_batch", "group": g, "candidates": avail, "impl_output": res})
        inp, exp = mb_terms(g, avail, res)
        cmp_.add(inp, exp, {"group": g, "candidates": avail, "impl": res})
        nontrivial = len(avail) >= 2 and (bool(res["rest"]) or bool(res["blocked"]) or len(res["batch"]) >= 2)
        chk.count(("mb", json.dumps(g, sort_keys=True), json.dumps(avail)), nontrivial)
        dist["cases"] += 1
        dist["time_based"] += g["time"]
        dist["try_blocked"] += g["try"]
        dist["nonempty_rest"] += bool(res["rest"])
        dist["with_blocked"] += bool(res["blocked"])
        dist["multi_pass"] += any(bl for _, bl in res["batch"])
        dist["sizes"][len(avail)] = dist["sizes"].get(len(avail), 0) + 1
        if k in (0, desc["directed"] + 5):
            chk.sample({"kind": "make_batch", "group": g, "candidates": avail, "impl": res})
    bad = cmp_.run(timeout=1500)
    chk.oblige("correspondence Batch.make_batch vs HpcSubmitter._make_batch (%d cases)" % len(cmp_.cases),
               not bad, "first differing: %s" % bad[:5])
    for i in bad[:3]:
        chk.tie_broken("correspondence Batch.make_batch vs HpcSubmitter._make_batch",
                       json.dumps({"case": cmp_.cases[i][2], **cmp_.show(i)}, default=str)[:2000])
    chk.notes.setdefault("input_distribution", {})["make_batch"] = dist
    return cmp_


# ---------------------------------------------------------------------------------------------
class NoProgress(Exception):
    pass


ACCOUNTS = ["acctA", "acctB", "acctC"]
PARTITIONS = [None, "debug", "short"]


def decorate_groups(groups, rng=None):
    """make the groups differ in every field that reaches a script: account, partition, job prefix, verbose,
    distributed submitter (wall time / processes per node already vary)"""
    for i, g in enumerate(groups):
        g.setdefault("account", ACCOUNTS[i % 3])
        g.setdefault("partition", PARTITIONS[(i + 1) % 3] if rng is None else rng.choice(PARTITIONS))
        g.setdefault("prefix", "p%s" % g["name"])
        g.setdefault("verbose", bool(i % 2) if rng is None else rng.random() < 0.5)
        g.setdefault("distributed", True if rng is None else rng.random() < 0.6)
    return groups


def make_config(sc):
    """jadeenv.make_config + the per-group HPC parameters / run options of decorate_groups"""
    cfg = jadeenv.make_config(sc)
    for g, grp in zip(sc["groups"], cfg.submission_groups):
        hc = grp.submitter_params.hpc_config
        if "account" in g:
            hc.hpc.account = g["account"]
        if g.get("partition"):
            hc.hpc.partition = g["partition"]
        if "prefix" in g:
            hc.job_prefix = g["prefix"]
        if "verbose" in g:
            grp.submitter_params.verbose = bool(g["verbose"])
    return cfg


def gen_round_scenario(rng, max_jobs=12):
    n = rng.choice([1, 2, 3, 4, 5, 6, 8, 10, 12]) if max_jobs >= 12 else rng.randint(1, max_jobs)
    names = JOBNAMES[:n]
    ngroups = rng.choice([1, 1, 2, 3])
    groups = []
    for gi in range(ngroups):
        g = gen_group(rng)
        g["name"] = f"g{gi + 1}"
        groups.append(g)
    decorate_groups(groups, rng)
    # dry run is a submission-wide user option and only meaningful for a first round
    dry = rng.random() < 0.12
    for g in groups:
        g["dry"] = dry
    topo = names[:]
    rng.shuffle(topo)
    pos = {x: i for i, x in enumerate(topo)}
    jobs = []
    for x in names:
        gi = rng.randrange(ngroups)
        g = groups[gi]
        lim = jadeenv.group_limit_seconds(g) // 60 if g["time"] else 5
        if g["time"]:
            lim = min(lim, g["wall_min"])     # check_job_runtimes: estimate <= wall time
        deps = [y for y in names if pos[y] < pos[x] and rng.random() < 0.35]
        jobs.append({"name": x, "deps": deps, "cancel": rng.random() < 0.4, "est": rng.randint(1, max(1, lim)),
                     "group": g["name"], "rc": 0})
    max_nodes = rng.choice([1, 2, 3, 4, None])
    # pre-state: a topologically-closed prefix of jobs is already done / submitted
    k_done = rng.randint(0, n // 2) if rng.random() < 0.5 else 0
    done = set(topo[:k_done])
    k_sub = rng.randint(0, max(0, (n - k_done) // 2)) if rng.random() < 0.4 else 0
    submitted = set(topo[k_done:k_done + k_sub])
    # a submitted job may still block others; remaining blockers of a job = deps not done
    out0 = rng.choice([0, 0, 1, 2]) if max_nodes is None else rng.randint(0, max_nodes)
    if submitted and out0 == 0:
        out0 = 1
    index0 = rng.choice([1, 1, 2, 5])
    if dry:
        done, submitted, k_done, k_sub, out0 = set(), set(), 0, 0, 0
    n_oks = rng.choice([0, 0, 0, 3])
    oks = [rng.random() < 0.6 for _ in range(n_oks)]
    return {"jobs": jobs, "groups": groups, "max_nodes": max_nodes, "done": sorted(done), "submitted": sorted(submitted),
            "out0": out0, "index0": index0, "oks": oks}


def exhaustive_rounds(max_n=3, ests=(1, 2, 3)):
    """single group, <= max_n jobs, every dependency relation, the parameter grid, max_nodes 1..3, nothing
    active, first round"""
    for g0, avail in exhaustive_small(max_n, ests):
        for max_nodes in (1, 2, 3):
            g = dict(g0, name="g1")
            decorate_groups([g])
            jobs = [{"name": n, "deps": list(b), "cancel": False, "est": e, "group": "g1", "rc": 0} for n, b, e in avail]
            yield {"jobs": jobs, "groups": [g], "max_nodes": max_nodes, "done": [], "submitted": [], "out0": 0,
                   "index0": 1, "oks": []}


def directed_rounds():
    scs = []
    g = decorate_groups([{"name": "g1", "size": 500, "time": True, "wall_min": 10, "nproc": 1, "try": True, "dry": False}])[0]
    # D1 family through the whole round
    scs.append({"jobs": [{"name": "j2", "deps": ["j1"], "est": 3, "group": "g1", "cancel": False, "rc": 0},
                         {"name": "j3", "deps": [], "est": 4, "group": "g1", "cancel": False, "rc": 0},
                         {"name": "j1", "deps": [], "est": 5, "group": "g1", "cancel": False, "rc": 0}],
                "groups": [dict(g)], "max_nodes": None, "done": [], "submitted": [], "out0": 0, "index0": 1, "oks": []})
    # three groups whose parameters differ in every field, jobs interleaved, two slots
    gs = decorate_groups([
        {"name": "g1", "size": 2, "time": False, "wall_min": 5, "nproc": None, "try": True, "dry": False},
        {"name": "g2", "size": 500, "time": True, "wall_min": 6, "nproc": 2, "try": False, "dry": False},
        {"name": "g3", "size": 1, "time": False, "wall_min": 8, "nproc": 3, "try": True, "dry": False}])
    jobs = []
    for i, n in enumerate(JOBNAMES[:9]):
        jobs.append({"name": n, "deps": ([JOBNAMES[i - 3]] if i >= 6 else []), "est": 1 + i % 4, "group": f"g{i % 3 + 1}",
                     "cancel": False, "rc": 0})
    for mn in (2, 5, None):
        scs.append({"jobs": [dict(j) for j in jobs], "groups": [dict(x) for x in gs], "max_nodes": mn, "done": [],
                    "submitted": [], "out0": 0, "index0": 3, "oks": []})
    # sbatch fails: the slot stays free, a further batch is built
    scs.append({"jobs": [dict(j) for j in jobs], "groups": [dict(x) for x in gs], "max_nodes": 2, "done": [],
                "submitted": [], "out0": 0, "index0": 1, "oks": [False, True, False]})
    return scs


def run_round_impl(sc, tmp):
    """Real HpcSubmitter.run() on a real Cluster prepared in the pre-state.  -> observation dict.
    Every batch is read back from what impl wrote: config_batch_N.json (jobs, remaining blockers), the
    submission script whose srun line starts run_batch_N.sh (SBATCH directives) and that run script (options)."""
    import jade.hpc.slurm_manager as sm
    from jade.jobs.cluster import Cluster
    from jade.hpc.hpc_submitter import HpcSubmitter
    from jade.models import JobState
    from jade.jobs.results_aggregator import ResultsAggregator
    out = tempfile.mkdtemp(prefix="rd_", dir=tmp)
    try:
        cfg = make_config(sc)
        cfg_file = os.path.join(out, "config.json")
        cfg.dump(cfg_file)
        cluster = Cluster.create(out, cfg)
        ResultsAggregator.create(out)
        os.makedirs(os.path.join(out, "results"), exist_ok=True)
        fake = jadeenv.FakeSlurm(first_id=100, sbatch_oks=sc["oks"])
        ids = fake.add_existing(sc["out0"])
        done, sub = set(sc["done"]), set(sc["submitted"])
        for j in cluster.job_status.jobs:
            if j.name in done:
                j.state = JobState.DONE
                j.blocked_by = set()
            elif j.name in sub:
                j.state = JobState.SUBMITTED
                j.blocked_by = set()
            else:
                j.blocked_by = set(j.blocked_by) - done
        cluster.config.submitted_jobs = len(done) + len(sub)
        cluster.config.completed_jobs = len(done)
        cluster.job_status.hpc_job_ids = list(ids)
        cluster.job_status.batch_index = sc["index0"]
        pre = [(j.name, sorted(j.blocked_by, key=lambda x: IDX[x])) for j in cluster.job_status.jobs
               if j.state == JobState.NOT_SUBMITTED]
        orig = sm.run_command
        sm.run_command = fake
        err = None
        try:
            hs = HpcSubmitter(cfg, cfg_file, cluster, out)
            # watchdog only: the while loop of _submit_batches does not terminate when a _make_batch call makes
            # no progress; every call that is given candidates must consume one, so > 2n+5 calls = no progress
            real_make_batch, calls = hs._make_batch, [0]

            def counted_make_batch(*a, **kw):
                calls[0] += 1
                if calls[0] > 2 * len(sc["jobs"]) + 5:
                    raise NoProgress("_submit_batches keeps calling _make_batch without consuming candidates")
                return real_make_batch(*a, **kw)
            hs._make_batch = counted_make_batch
            hs.run()
        except NoProgress as e:
            err = "NoProgress: " + str(e)
        except AssertionError as e:
            err = "AssertionError: " + str(e)[:100]
        except Exception as e:
            err = type(e).__name__ + ": " + str(e)[:100]
        finally:
            sm.run_command = orig
        # every script in the output directory that is not a run script is a submission script
        sub_scripts = {}
        for s in glob.glob(os.path.join(out, "*.sh")):
            if os.path.basename(s).startswith("run_batch_"):
                continue
            ds, runsh, _ = jadeenv.parse_submission_script(s)
            sub_scripts[s] = (ds, runsh)
        sbatch_calls = [(ev[0], ev[2] if ev[0] == "sbatch" else ev[1]) for ev in fake.log if ev[0] in ("sbatch", "sbatch-fail")]
        prefix_group = {g.get("prefix", g["name"]): g["name"] for g in sc["groups"]}
        batches = []
        for f in sorted(glob.glob(os.path.join(out, "config_batch_*.json")), key=lambda p: int(re.search(r"_batch_(\d+)\.json", p).group(1))):
            idx = int(re.search(r"_batch_(\d+)\.json", f).group(1))
            data = json.load(open(f))
            jobs = [(j["name"], sorted(j.get("blocked_by", []), key=lambda x: IDX[x])) for j in data["jobs"]]
            runsh_expected = os.path.join(out, f"run_batch_{idx}.sh")
            mine = [s for s, (ds, runsh) in sub_scripts.items() if runsh == runsh_expected]
            ds = sub_scripts[mine[0]][0] if len(mine) == 1 else {}
            rs = jadeenv.parse_run_script(runsh_expected) if os.path.exists(runsh_expected) else {"error": "no run script"}
            calls = [kind for kind, script in sbatch_calls if script in mine]
            jobname = ds.get("job-name", "")
            prefix = jobname[: -len(f"_batch_{idx}")] if jobname.endswith(f"_batch_{idx}") else None
            ds_norm = {k: (os.path.basename(v) if k in ("output", "error") else v) for k, v in ds.items()}
            batches.append({"index": idx, "group": prefix_group.get(prefix), "jobs": jobs,
                            "ok": (calls == ["sbatch"]) if calls else None, "sbatch_calls": len(calls),
                            "sbatch_called": bool(calls), "n_submission_scripts": len(mine),
                            "script_name": os.path.basename(mine[0]) if len(mine) == 1 else None,
                            "directives": ds_norm, "output_dir_ok": ds.get("output", "").startswith(out + "/"),
                            "run": {k: (os.path.basename(v) if k == "config_file" else v) for k, v in rs.items() if k not in ("text", "output")},
                            "run_output_ok": rs.get("output") == out,
                            "run_config_ok": rs.get("config_file") == f,
                            "config_groups": [g["name"] for g in data.get("submission_groups", [])]})
        stray = [os.path.basename(s) for s, (ds, runsh) in sub_scripts.items()
                 if not any(runsh == os.path.join(out, f"run_batch_{b['index']}.sh") for b in batches)]
        stray_calls = [os.path.basename(script) for kind, script in sbatch_calls if script not in sub_scripts]
        obs = {"pre_not_submitted": pre, "batches": batches, "error": err,
               "n_sbatch_calls": len(sbatch_calls), "stray_scripts": stray, "stray_sbatch": stray_calls,
               "final_index": cluster.job_status.batch_index, "final_ids": list(cluster.job_status.hpc_job_ids),
               "states": {j.name: j.state.value for j in cluster.job_status.jobs},
               "blocked": {j.name: sorted(j.blocked_by) for j in cluster.job_status.jobs},
               "submitted_jobs": cluster.config.submitted_jobs, "completed_jobs": cluster.config.completed_jobs,
               "marker_left": os.path.exists(os.path.join(out, "submitter.lock"))}
        return obs
    finally:
        shutil.rmtree(out, ignore_errors=True)


def _walltime(g):
    wall = g.get("wall_min", 60)
    return "%d:%02d:%02d" % (wall // 60, wall % 60, g.get("wall_sec", 0))


def round_oracle(sc, obs):
    """C01/C06/C07 judged on what impl wrote.  -> list of (signature, message)"""
    probs = []
    gmap = {g["name"]: g for g in sc["groups"]}
    jmap = {j["name"]: j for j in sc["jobs"]}
    pre = dict(obs["pre_not_submitted"])
    depth = sc["max_nodes"] if sc["max_nodes"] is not None else 10 ** 9
    seen = set()
    idxs = [b["index"] for b in obs["batches"]]
    if idxs != list(range(sc["index0"], sc["index0"] + len(idxs))):
        probs.append(("batch-index", f"batch indices {idxs} are not consecutive from {sc['index0']}"))
    if obs["error"] is None and obs["final_index"] != sc["index0"] + len(idxs):
        probs.append(("batch-index-persisted", "persisted batch index does not follow the batches written"))
    if obs.get("stray_scripts") or obs.get("stray_sbatch"):
        probs.append(("stray-submission", f"submission scripts / sbatch calls not tied to a batch: {obs.get('stray_scripts')} {obs.get('stray_sbatch')}"))
    n_ok = 0
    for b in obs["batches"]:
        names = [n for n, _ in b["jobs"]]
        if not names:
            probs.append(("batch-empty", f"batch {b['index']} is empty"))
        if len(set(names)) != len(names):
            probs.append(("job-twice-in-batch", f"batch {b['index']} lists a job twice"))
        if set(names) & seen:
            probs.append(("job-in-two-batches", f"jobs {sorted(set(names) & seen)} placed in two batches of one round"))
        seen |= set(names)
        # the group is the one the JOBS belong to; everything else must agree with it
        jgroups = sorted({jmap[n]["group"] for n in names if n in jmap})
        for n in names:
            if n not in pre:
                probs.append(("batch-job-not-available", f"job {n} in batch {b['index']} was not NOT_SUBMITTED"))
        if len(jgroups) > 1:
            probs.append(("batch-mixed-groups", f"batch {b['index']} holds jobs of groups {jgroups}"))
        g = gmap.get(jgroups[0]) if jgroups else None
        if g is None:
            continue
        if b.get("n_submission_scripts", 1) != 1:
            probs.append(("batch-script", f"batch {b['index']} has {b.get('n_submission_scripts')} submission scripts"))
            continue
        if g["time"]:
            if 60 * sum(jmap[n]["est"] for n in names) > jadeenv.group_limit_seconds(g):
                probs.append(("batch-time-limit", f"batch {b['index']} exceeds walltime x processes"))
        elif len(names) > max(1, g["size"]):
            probs.append(("batch-size-limit", f"batch {b['index']} has {len(names)} jobs > {g['size']}"))
        for n, written in b["jobs"]:
            if n in pre and set(written) != set(pre[n]):
                probs.append(("batch-blockers-written", f"blocked_by of {n} in batch config differs from remaining blockers"))
            if n in pre and pre[n] and not g["try"]:
                probs.append(("batch-blocked-no-try", f"blocked job {n} batched without try-add-blocked"))
            if n in pre and not set(pre[n]) <= set(names):
                probs.append(("batch-blockers-open", f"job {n} batched without all unfinished blockers in the batch"))
        if g["dry"]:
            if b["sbatch_called"]:
                probs.append(("dry-run-sbatch", f"dry-run batch {b['index']} was handed to sbatch"))
        elif b.get("sbatch_calls", 1 if b["sbatch_called"] else 0) != 1:
            probs.append(("batch-not-submitted-once", f"batch {b['index']} handed to sbatch {b.get('sbatch_calls')} times"))
        if b["ok"] or g["dry"]:
            n_ok += 1
        # HPC parameters: the submission script must carry this group's account / partition / wall time / name
        ds = b["directives"]
        want = {"account": g.get("account", "acct"), "time": _walltime(g),
                "job-name": f"{g.get('prefix', g['name'])}_batch_{b['index']}"}
        if g.get("partition"):
            want["partition"] = g["partition"]
        got = {k: ds.get(k) for k in ("account", "time", "job-name", "partition") if k in ds or k in want}
        if got != want or not b.get("output_dir_ok", True):
            probs.append(("batch-params", f"batch {b['index']} of group {g['name']} submitted with other HPC parameters: {got} (expected {want})"))
        # run options: the run script must start run-jobs on this batch's config with this group's options
        r = b["run"]
        want_r = {"config_file": f"config_batch_{b['index']}.json", "distributed": g.get("distributed", True),
                  "nproc": g.get("nproc"), "verbose": bool(g.get("verbose", False))}
        got_r = {k: r.get(k) for k in want_r}
        if got_r != want_r or r.get("unknown") or r.get("error") or not b.get("run_output_ok", True) or not b.get("run_config_ok", True):
            probs.append(("batch-run-options", f"run script of batch {b['index']} does not carry its group's options: {r} (expected {want_r})"))
        if b["group"] != g["name"]:
            probs.append(("batch-group-name", f"batch {b['index']} of group {g['name']} submitted under the name of {b['group']}"))
    if n_ok > max(0, depth - sc["out0"]):
        probs.append(("max-nodes", f"{n_ok} batches handed to the HPC with {sc['out0']} active and max-nodes {sc['max_nodes']}"))
    # maximality: free slots left => every job without unfinished blockers of every group was placed
    if obs["error"] is None and sc["out0"] + n_ok < depth:
        left = [n for n, bl in obs["pre_not_submitted"] if not bl and n not in seen and jmap[n]["group"] in gmap]
        fits = all((not gmap[jmap[n]["group"]]["time"]) or
                   60 * jmap[n]["est"] <= jadeenv.group_limit_seconds(gmap[jmap[n]["group"]]) for n in left)
        if left and fits:
            probs.append(("not-maximal", f"free slots left but unblocked jobs {left} were not placed"))
    if obs["error"] and obs["error"].startswith("NoProgress"):
        probs.append(("round-no-termination", "the batch loop of the round does not terminate although every estimate fits "
                      "its group's wall time"))
    elif obs["error"]:
        probs.append(("round-exception", "submitter round raised " + obs["error"]))
    return probs


def round_terms(sc, obs):
    gidx = {g["name"]: i + 1 for i, g in enumerate(sc["groups"])}
    jmap = {j["name"]: j for j in sc["jobs"]}
    gdry = {g["name"]: bool(g.get("dry")) for g in sc["groups"]}
    depth = sc["max_nodes"] if sc["max_nodes"] is not None else 2 ** 63 - 1
    ns = clist([cjob_term(n, bl, jmap[n]["est"], gidx[jmap[n]["group"]]) for n, bl in obs["pre_not_submitted"]])
    inp = (f"({cN(depth)}, {cN(sc['out0'])}, {cN(sc['index0'])}, {clist([cbool(b) for b in sc['oks']])}, "
           f"{clist([gparams_term(g, gidx[g['name']]) for g in sc['groups']])}, {ns})")
    subs = clist([f"({cN(b['index'])}, {cN(gidx.get(b['group'], 0))}, "
                  + clist([f"({cN(IDX[n])}, {clist([cN(IDX[x]) for x in bl])})" for n, bl in b["jobs"]])
                  + f", {cbool(bool(b['ok']) or gdry.get(b['group'], False))})"
                  for b in obs["batches"]])
    n_sbatch_model = "%d%%nat" % obs.get("n_sbatch_calls", 0)
    exp = f"(Some ({subs}, {cN(sc['index0'] + len(obs['batches']))}, {n_sbatch_model}))"
    return inp, exp


# model side: batches (index, group, jobs with blockers, queued?), next index, number of sbatch outcomes consumed
ROUND_FN = ("fun c => match c with (depth, out0, index0, oks, groups, ns) => "
            "let oks' := (oks ++ repeat true 64)%list in "
            "match submit_round depth out0 index0 oks' groups ns with "
            "| ROk r => Some (map (fun s => (sb_index s, sb_group s, map (fun j => (jname j, jblocked j)) (sb_jobs s), sb_ok s)) (r_subs r), r_index r, "
            "(length oks' - length (r_oks r))%nat) "
            "| ROutOfFuel => None end end")
ROUND_EQB = ("option_eqb (prod_eqb (prod_eqb (list_eqb (prod_eqb (prod_eqb (prod_eqb N.eqb N.eqb) (list_eqb (prod_eqb N.eqb (list_eqb N.eqb)))) Bool.eqb)) N.eqb) Nat.eqb)")
ROUND_IN = "N * N * N * list bool * list gparams * list cjob"
ROUND_OUT = "option (list (N * N * list (N * list N) * bool) * N * nat)"


def new_round_compare():
    return core.CoqCompare("rd", IMPORTS, ROUND_FN, ROUND_EQB, ROUND_IN, ROUND_OUT, shard=400)


def _round_worker(args):
    import logging
    logging.disable(logging.CRITICAL)
    sc, tmp = args
    return run_round_impl(sc, tmp)


def run_many_rounds(scs, tmp, parallel=True):
    """impl observations for many scenarios (process pool: every round is an independent real Cluster)"""
    if not parallel or len(scs) < 64:
        return [run_round_impl(sc, tmp) for sc in scs]
    import multiprocessing as mp
    ctx = mp.get_context("fork")
    with ctx.Pool(min(core.NCPU, 12)) as pool:
        return pool.map(_round_worker, [(sc, tmp) for sc in scs], chunksize=16)


def dry_pair_oracle(sc, obs_wet, obs_dry):
    """same first-round batch files with and without dry run; nothing handed to sbatch with dry run"""
    probs = []

    def view(o):
        return [(b["index"], b["group"], b["jobs"], b["script_name"], b["directives"], b["run"]) for b in o["batches"]]
    if view(obs_wet) != view(obs_dry):
        probs.append(("dry-run-different-batches", "dry run wrote other batch files than the real first round"))
    if obs_dry["n_sbatch_calls"] or any(b["sbatch_called"] for b in obs_dry["batches"]):
        probs.append(("dry-run-sbatch", "dry run handed a batch to sbatch"))
    if any(b["n_submission_scripts"] != 1 for b in obs_dry["batches"]):
        probs.append(("dry-run-no-script", "dry run did not write exactly one submission script per batch"))
    return probs


def round_scenarios(chk, n_random, n_dry_pairs, exhaustive_fraction):
    scs = directed_rounds()
    n_dir = len(scs)
    ex = list(exhaustive_rounds(3))
    if exhaustive_fraction > 1:
        ex = ex[chk.rng.randrange(exhaustive_fraction)::exhaustive_fraction]
    scs += ex
    for _ in range(n_random):
        scs.append(gen_round_scenario(chk.rng))
    pairs = []
    while len(pairs) < n_dry_pairs:
        sc = gen_round_scenario(chk.rng)
        if sc["done"] or sc["submitted"] or sc["out0"]:
            continue
        wet = json.loads(json.dumps(sc))
        wet["oks"] = []
        for g in wet["groups"]:
            g["dry"] = False
        dry = json.loads(json.dumps(wet))
        for g in dry["groups"]:
            g["dry"] = True
        pairs.append((len(scs), len(scs) + 1))
        scs += [wet, dry]
    return scs, pairs, {"directed": n_dir, "exhaustive_single_group_upto_3_jobs": len(ex),
                        "exhaustive_fraction": "1/%d" % exhaustive_fraction, "random_upto_12_jobs_3_groups": n_random,
                        "dry_run_pairs": len(pairs)}


def run_rounds(chk, tmp, n_random, sig_prefix="", n_dry_pairs=0, exhaustive_fraction=40, parallel=True):
    import jade.jobs.cluster  # noqa: F401  (import errors surface here)
    cmp_ = new_round_compare()
    dist = {"rounds": 0, "groups": {}, "with_prestate": 0, "batches": {}, "sbatch_failures": 0, "dry_run": 0,
            "queue_full_at_start": 0, "max_nodes": {}, "jobs": {}}
    scs, pairs, desc = round_scenarios(chk, n_random, n_dry_pairs, exhaustive_fraction)
    dist["scope"] = desc
    observations = run_many_rounds(scs, tmp, parallel)
    for k, (sc, obs) in enumerate(zip(scs, observations)):
        for sig, msg in round_oracle(sc, obs):
            chk.violation(sig_prefix + sig, msg, {"component": "HpcSubmitter.run (submission part)", "scenario": sc,
                                                 "impl_observation": obs})
        inp, exp = round_terms(sc, obs)
        cmp_.add(inp, exp, {"scenario": sc, "impl": {k2: v for k2, v in obs.items() if k2 in ("batches", "error", "final_index", "n_sbatch_calls")}})
        nb = len(obs["batches"])
        chk.count(("round", json.dumps(sc, sort_keys=True)), nontrivial=nb >= 1 and len(sc["jobs"]) >= 2)
        dist["rounds"] += 1
        dist["groups"][len(sc["groups"])] = dist["groups"].get(len(sc["groups"]), 0) + 1
        dist["jobs"][len(sc["jobs"])] = dist["jobs"].get(len(sc["jobs"]), 0) + 1
        dist["with_prestate"] += bool(sc["done"] or sc["submitted"])
        dist["batches"][nb] = dist["batches"].get(nb, 0) + 1
        dist["sbatch_failures"] += sum(1 for b in obs["batches"] if b["ok"] is False)
        dist["dry_run"] += any(g["dry"] for g in sc["groups"])
        dist["queue_full_at_start"] += (sc["max_nodes"] is not None and sc["out0"] >= sc["max_nodes"])
        dist["max_nodes"][str(sc["max_nodes"])] = dist["max_nodes"].get(str(sc["max_nodes"]), 0) + 1
        if k in (1, desc["directed"] + desc["exhaustive_single_group_upto_3_jobs"] + 3):
            chk.sample({"kind": "round", "scenario": sc, "impl_batches": obs["batches"]})
    for a, b in pairs:
        for sig, msg in dry_pair_oracle(scs[a], observations[a], observations[b]):
            chk.violation(sig_prefix + sig, msg, {"component": "HpcSubmitter.run (dry run vs real first round)", "scenario": scs[b],
                                                 "impl_observation_real": observations[a], "impl_observation_dry_run": observations[b]})
    bad = cmp_.run(timeout=1500)
    chk.oblige("correspondence Batch.submit_round vs HpcSubmitter.run on a real Cluster (%d rounds)" % len(cmp_.cases),
               not bad, "first differing: %s" % bad[:5])
    for i in bad[:3]:
        chk.tie_broken("correspondence Batch.submit_round vs HpcSubmitter.run",
                       json.dumps({"case": cmp_.cases[i][2], **cmp_.show(i)}, default=str)[:2500])
    chk.notes.setdefault("input_distribution", {})["rounds"] = dist
    return cmp_
