"""Correspondence drivers for Batch.v against the real HpcSubmitter (_make_batch directly, and the
whole submission part of HpcSubmitter.run on a real Cluster with a scripted sbatch/squeue)."""
import glob
import itertools
import json
import os
import re
import shutil
import tempfile

from harness import core, jadeenv
from harness.core import cN, cZ, cbool, clist

IMPORTS = "From Coq Require Import List ZArith NArith Bool.\nFrom Jade Require Import Base Batch."
NJ = 12
JOBNAMES = [f"j{i}" for i in range(1, NJ + 1)]
IDX = {n: i + 1 for i, n in enumerate(JOBNAMES)}


def gparams_term(g, gidx):
    return (f"{{| g_name := {cN(gidx)}; g_size := {cN(g['size'])}; g_time := {cbool(g['time'])}; "
            f"g_max := {cZ(jadeenv.group_limit_seconds(g))}; g_try := {cbool(g['try'])}; g_dry := {cbool(g.get('dry', False))} |}}")


def cjob_term(name, blocked, est, gidx):
    return (f"{{| jname := {cN(IDX[name])}; jblocked := {clist([cN(IDX[b]) for b in sorted(blocked, key=lambda x: IDX[x])])}; "
            f"jest := {cZ(est or 0)}; jgroup := {cN(gidx)} |}}")


# ---------------------------------------------------------------------------------------------
class MakeBatchRig:
    """One real HpcSubmitter over a 12-job configuration; _make_batch is called with fresh cluster Job
    objects and a fresh submission group per case."""

    def __init__(self, tmp):
        from jade.jobs.cluster import Cluster
        from jade.hpc.hpc_submitter import HpcSubmitter
        sc = {"jobs": [{"name": n, "deps": [], "group": "g", "est": 1} for n in JOBNAMES],
              "groups": [{"name": "g", "size": 3, "time": False, "try": True, "nproc": 1}], "max_nodes": None}
        self.cfg = jadeenv.make_config(sc)
        self.out = os.path.join(tmp, "mb")
        os.makedirs(self.out)
        cluster = Cluster.create(self.out, self.cfg)
        self.hs = HpcSubmitter(self.cfg, os.path.join(self.out, "config.json"), cluster, self.out)

    def call(self, g, avail):
        """avail: [(name, [blockers], est)] -> dict(batch=[(name,[blocked])], blocked=[..], rest=[..], submitted=[..])"""
        from jade.models import Job, JobState
        group = jadeenv.make_group(dict(g, name="g"), None)
        jobs = []
        for name, blocked, est in avail:
            self.cfg.get_job(name).estimated_run_minutes = est
            jobs.append(Job(name=name, blocked_by=set(blocked), cancel_on_blocking_job_failure=False,
                            state=JobState.NOT_SUBMITTED))
        submitted, blocked_out = [], []
        batch, rest = self.hs._make_batch(jobs, group, submitted, blocked_out)
        return {"batch": [(j.name, sorted(j.get_blocking_jobs(), key=lambda x: IDX[x])) for j in batch._jobs],
                "blocked": [j.name for j in blocked_out], "rest": [j.name for j in rest],
                "submitted": [j.name for j in submitted]}


def mb_oracle(g, avail, res):
    """C07/C01 contract of one _make_batch call, judged on impl's own output.  -> list of problems"""
    probs = []
    est = {n: e for n, _, e in avail}
    blk = {n: set(b) for n, b, _ in avail}
    order = [n for n, _, _ in avail]
    bnames = [n for n, _ in res["batch"]]
    if len(set(bnames)) != len(bnames):
        probs.append("job twice in one batch")
    if set(bnames) & set(res["rest"]):
        probs.append("job placed in the batch is also handed back as not checked: %s" % sorted(set(bnames) & set(res["rest"])))
    if not set(bnames) <= set(order):
        probs.append("batch holds a job that was not offered")
    if g["time"]:
        if 60 * sum(est[n] for n in bnames) > jadeenv.group_limit_seconds(g):
            probs.append("estimated time of the batch exceeds walltime x processes")
    elif len(bnames) > max(1, g["size"]):
        probs.append("batch larger than per-node batch size")
    for n, written in res["batch"]:
        if set(written) != blk[n]:
            probs.append(f"blocked_by written for {n} differs from its remaining blockers")
        if blk[n] and not g["try"]:
            probs.append(f"blocked job {n} placed although try-add-blocked is off")
        if not blk[n] <= set(bnames):
            probs.append(f"job {n} placed without all its unfinished blockers in the batch")
    if res["rest"] != order[len(order) - len(res["rest"]):]:
        probs.append("not-checked list is not a suffix of the candidates")
    if res["submitted"] != bnames:
        probs.append("submitted list differs from the batch")
    if set(res["blocked"]) & set(bnames):
        probs.append("job both placed and reported blocked")
    return probs


def gen_group(rng, small=False):
    time = rng.random() < 0.45
    nproc = rng.choice([1, 1, 2, 3])
    return {"size": rng.choice([1, 2, 3]) if small else rng.choice([1, 2, 3, 4, 6, 500]), "time": time,
            "wall_min": rng.choice([3, 4, 5, 6, 8, 10]), "nproc": nproc if time else rng.choice([None, 1, 2]),
            "try": rng.random() < 0.6, "dry": False}


def gen_avail(rng, n, g):
    """random candidate list: names in random listing order, blockers among the candidates (any
    direction: blocked-before-blocker included) and sometimes outside, estimates straddling the limit"""
    names = rng.sample(JOBNAMES, n)
    lim = jadeenv.group_limit_seconds(g) // 60 if g["time"] else 5
    outside = [x for x in JOBNAMES if x not in names]
    topo = names[:]
    rng.shuffle(topo)
    pos = {x: i for i, x in enumerate(topo)}
    avail = []
    for x in names:
        cands = [y for y in names if pos[y] < pos[x]]
        deps = [y for y in cands if rng.random() < 0.4]
        if outside and rng.random() < 0.15:
            deps.append(rng.choice(outside))
        avail.append((x, deps, rng.randint(1, max(1, lim))))
    if g["time"] and rng.random() < 0.7:
        avail.sort(key=lambda t: t[2])   # what _get_available_jobs_by_time hands over
    return avail


def directed_avail():
    """the blocked-before-blocker-under-time-pressure family (D1) and count-based analogues"""
    out = []
    g = {"size": 500, "time": True, "wall_min": 10, "nproc": 1, "try": True, "dry": False}
    out.append((g, [("j2", ["j1"], 3), ("j3", [], 4), ("j1", [], 5)]))
    out.append((g, [("j2", ["j1"], 3), ("j3", [], 4), ("j1", [], 5), ("j4", [], 6)]))
    out.append((g, [("j2", ["j1"], 2), ("j4", ["j2"], 2), ("j3", [], 3), ("j1", [], 3)]))
    out.append((g, [("j2", ["j1"], 6), ("j1", [], 5)]))
    g2 = {"size": 2, "time": False, "wall_min": 10, "nproc": None, "try": True, "dry": False}
    out.append((g2, [("j2", ["j1"], 1), ("j3", ["j2"], 1), ("j1", [], 1), ("j4", [], 1)]))
    out.append((g2, [("j3", ["j2"], 1), ("j2", ["j1"], 1), ("j1", [], 1)]))
    g3 = dict(g2, try_=False)
    g3["try"] = False
    out.append((g3, [("j2", ["j1"], 1), ("j1", [], 1), ("j3", [], 1)]))
    return out


def exhaustive_small(max_n, ests=(1, 2, 3)):
    """all acyclic-or-not dependency relations among <= max_n candidates in listing order j1..jn
    (blockers may point forwards or backwards), estimates from `ests`, a grid of parameter sets"""
    groups = []
    for size in (1, 2, 3):
        for tr in (False, True):
            groups.append({"size": size, "time": False, "wall_min": 10, "nproc": None, "try": tr, "dry": False})
    for wall in (3, 4, 6):
        for tr in (False, True):
            groups.append({"size": 500, "time": True, "wall_min": wall, "nproc": 1, "try": tr, "dry": False})
    for n in range(1, max_n + 1):
        names = JOBNAMES[:n]
        pairs = [(a, b) for a in names for b in names if a != b]
        for mask in range(1 << len(pairs)):
            deps = {x: [] for x in names}
            for k, (a, b) in enumerate(pairs):
                if mask >> k & 1:
                    deps[a].append(b)
            for g in groups:
                est_choices = itertools.product(ests, repeat=n) if g["time"] else [tuple([1] * n)]
                for es in est_choices:
                    if g["time"] and any(e > g["wall_min"] for e in es):
                        continue
                    avail = [(x, deps[x], e) for x, e in zip(names, es)]
                    if g["time"]:
                        avail = sorted(avail, key=lambda t: t[2])
                    yield g, avail


def run_make_batch(chk, tmp, n_random, exhaustive_n):
    rig = MakeBatchRig(tmp)
    cmp_ = core.CoqCompare(
        "mb", IMPORTS,
        "fun c => let m := make_batch (fst c) (snd c) in (map (fun j => (jname j, jblocked j)) (mb_batch m), names (mb_blocked m), names (mb_rest m))",
        "prod_eqb (prod_eqb (list_eqb (prod_eqb N.eqb (list_eqb N.eqb))) (list_eqb N.eqb)) (list_eqb N.eqb)",
        "gparams * list cjob", "list (N * list N) * list N * list N", shard=400)
    dist = {"cases": 0, "time_based": 0, "try_blocked": 0, "multi_pass": 0, "nonempty_rest": 0, "with_blocked": 0,
            "sizes": {}, "exhaustive_upto": exhaustive_n}
    cases = list(directed_avail())
    cases += list(exhaustive_small(exhaustive_n))
    n_exh = len(cases)
    for _ in range(n_random):
        g = gen_group(chk.rng)
        cases.append((g, gen_avail(chk.rng, chk.rng.randint(1, NJ), g)))
    for k, (g, avail) in enumerate(cases):
        try:
            res = rig.call(g, avail)
        except Exception as e:  # impl crashed inside _make_batch
            chk.violation("make_batch-exception:" + type(e).__name__, "HpcSubmitter._make_batch raised " + repr(e)[:200],
                          {"component": "HpcSubmitter._make_batch", "group": g, "candidates": avail})
            continue
        for pr in mb_oracle(g, avail, res):
            chk.violation("make_batch:" + pr.split(":")[0][:60], pr,
                          {"component": "HpcSubmitter._make_batch", "group": g, "candidates": avail, "impl_output": res})
        inp = f"({gparams_term(g, 1)}, {clist([cjob_term(n, b, e, 1) for n, b, e in avail])})"
        exp = ("(" + clist([f"({cN(IDX[n])}, {clist([cN(IDX[b]) for b in bl])})" for n, bl in res["batch"]]) + ", "
               + clist([cN(IDX[n]) for n in res["blocked"]]) + ", " + clist([cN(IDX[n]) for n in res["rest"]]) + ")")
        cmp_.add(inp, exp, {"group": g, "candidates": avail, "impl": res})
        nontrivial = len(avail) >= 2 and (bool(res["rest"]) or bool(res["blocked"]) or len(res["batch"]) >= 2)
        chk.count(("mb", json.dumps(g, sort_keys=True), json.dumps(avail)), nontrivial)
        dist["cases"] += 1
        dist["time_based"] += g["time"]
        dist["try_blocked"] += g["try"]
        dist["nonempty_rest"] += bool(res["rest"])
        dist["with_blocked"] += bool(res["blocked"])
        dist["multi_pass"] += any(bl for _, bl in res["batch"])
        dist["sizes"][len(avail)] = dist["sizes"].get(len(avail), 0) + 1
        if k in (0, n_exh + 5):
            chk.sample({"kind": "make_batch", "group": g, "candidates": avail, "impl": res})
    bad = cmp_.run()
    chk.oblige("correspondence Batch.make_batch vs HpcSubmitter._make_batch (%d cases, exhaustive <= %d candidates)"
               % (len(cmp_.cases), exhaustive_n), not bad, "first differing: %s" % bad[:5])
    for i in bad[:3]:
        chk.tie_broken("correspondence Batch.make_batch vs HpcSubmitter._make_batch",
                       json.dumps({"case": cmp_.cases[i][2], **cmp_.show(i)}, default=str)[:2000])
    chk.notes.setdefault("input_distribution", {})["make_batch"] = dist
    return cmp_


# ---------------------------------------------------------------------------------------------
def gen_round_scenario(rng, max_jobs=8):
    n = rng.randint(1, max_jobs)
    names = JOBNAMES[:n]
    ngroups = rng.choice([1, 1, 2, 3])
    groups = []
    for gi in range(ngroups):
        g = gen_group(rng)
        g["name"] = f"g{gi + 1}"
        groups.append(g)
    # dry run is a submission-wide user option and only meaningful for a first round
    dry = rng.random() < 0.12
    for g in groups:
        g["dry"] = dry
    topo = names[:]
    rng.shuffle(topo)
    pos = {x: i for i, x in enumerate(topo)}
    jobs = []
    for x in names:
        gi = rng.randrange(ngroups)
        g = groups[gi]
        lim = jadeenv.group_limit_seconds(g) // 60 if g["time"] else 5
        deps = [y for y in names if pos[y] < pos[x] and rng.random() < 0.35]
        jobs.append({"name": x, "deps": deps, "cancel": rng.random() < 0.4, "est": rng.randint(1, max(1, lim)),
                     "group": g["name"], "rc": 0})
    max_nodes = rng.choice([1, 2, 3, None])
    # pre-state: a topologically-closed prefix of jobs is already done / submitted
    k_done = rng.randint(0, n // 2) if rng.random() < 0.5 else 0
    done = set(topo[:k_done])
    k_sub = rng.randint(0, max(0, (n - k_done) // 2)) if rng.random() < 0.4 else 0
    submitted = set(topo[k_done:k_done + k_sub])
    # a submitted job may still block others; remaining blockers of a job = deps not done
    out0 = rng.choice([0, 0, 1, 2]) if max_nodes is None else rng.randint(0, max_nodes)
    if submitted and out0 == 0:
        out0 = 1
    index0 = rng.choice([1, 1, 2, 5])
    if dry:
        done, submitted, k_done, k_sub, out0 = set(), set(), 0, 0, 0
    n_oks = rng.choice([0, 0, 0, 3])
    oks = [rng.random() < 0.6 for _ in range(n_oks)]
    return {"jobs": jobs, "groups": groups, "max_nodes": max_nodes, "done": sorted(done), "submitted": sorted(submitted),
            "out0": out0, "index0": index0, "oks": oks}


def run_round_impl(sc, tmp):
    """Real HpcSubmitter.run() on a real Cluster prepared in the pre-state.  -> observation dict"""
    import jade.hpc.slurm_manager as sm
    from jade.jobs.cluster import Cluster
    from jade.hpc.hpc_submitter import HpcSubmitter
    from jade.models import JobState
    from jade.jobs.results_aggregator import ResultsAggregator
    out = tempfile.mkdtemp(prefix="rd_", dir=tmp)
    try:
        cfg = jadeenv.make_config(sc)
        cfg_file = os.path.join(out, "config.json")
        cfg.dump(cfg_file)
        cluster = Cluster.create(out, cfg)
        ResultsAggregator.create(out)
        os.makedirs(os.path.join(out, "results"), exist_ok=True)
        fake = jadeenv.FakeSlurm(first_id=100, sbatch_oks=sc["oks"])
        ids = fake.add_existing(sc["out0"])
        done, sub = set(sc["done"]), set(sc["submitted"])
        for j in cluster.job_status.jobs:
            if j.name in done:
                j.state = JobState.DONE
                j.blocked_by = set()
            elif j.name in sub:
                j.state = JobState.SUBMITTED
                j.blocked_by = set()
            else:
                j.blocked_by = set(j.blocked_by) - done
        cluster.config.submitted_jobs = len(done) + len(sub)
        cluster.config.completed_jobs = len(done)
        cluster.job_status.hpc_job_ids = list(ids)
        cluster.job_status.batch_index = sc["index0"]
        pre = [(j.name, sorted(j.blocked_by, key=lambda x: IDX[x])) for j in cluster.job_status.jobs
               if j.state == JobState.NOT_SUBMITTED]
        orig = sm.run_command
        sm.run_command = fake
        err = None
        try:
            hs = HpcSubmitter(cfg, cfg_file, cluster, out)
            hs.run()
        except AssertionError as e:
            err = "AssertionError: " + str(e)[:100]
        except Exception as e:
            err = type(e).__name__ + ": " + str(e)[:100]
        finally:
            sm.run_command = orig
        batches = []
        for f in sorted(glob.glob(os.path.join(out, "config_batch_*.json")), key=lambda p: int(re.search(r"_batch_(\d+)\.json", p).group(1))):
            idx = int(re.search(r"_batch_(\d+)\.json", f).group(1))
            data = json.load(open(f))
            jobs = [(j["name"], sorted(j.get("blocked_by", []), key=lambda x: IDX[x])) for j in data["jobs"]]
            scripts = glob.glob(os.path.join(out, f"*_batch_{idx}.sh"))
            sub_scripts = [s for s in scripts if not os.path.basename(s).startswith("run_batch_")]
            group = os.path.basename(sub_scripts[0]).split("_batch_")[0] if len(sub_scripts) == 1 else None
            ok = None
            called = False
            for ev in fake.log:
                if ev[0] == "sbatch" and os.path.basename(ev[2]) == f"{group}_batch_{idx}.sh":
                    ok, called = True, True
                if ev[0] == "sbatch-fail" and os.path.basename(ev[1]) == f"{group}_batch_{idx}.sh":
                    ok, called = False, True
            ds, runsh, _ = jadeenv.parse_submission_script(sub_scripts[0]) if len(sub_scripts) == 1 else ({}, None, "")
            rs = jadeenv.parse_run_script(runsh) if runsh and os.path.exists(runsh) else {}
            batches.append({"index": idx, "group": group, "jobs": jobs, "ok": ok, "sbatch_called": called,
                            "directives": ds, "run": {k: v for k, v in rs.items() if k != "text"},
                            "config_groups": [g["name"] for g in data.get("submission_groups", [])]})
        obs = {"pre_not_submitted": pre, "batches": batches, "error": err,
               "final_index": cluster.job_status.batch_index, "final_ids": list(cluster.job_status.hpc_job_ids),
               "states": {j.name: j.state.value for j in cluster.job_status.jobs},
               "blocked": {j.name: sorted(j.blocked_by) for j in cluster.job_status.jobs},
               "submitted_jobs": cluster.config.submitted_jobs, "completed_jobs": cluster.config.completed_jobs,
               "marker_left": os.path.exists(os.path.join(out, "submitter.lock")), "out": out}
        return obs
    finally:
        shutil.rmtree(out, ignore_errors=True)


def round_oracle(sc, obs):
    """C01/C06/C07 judged on what impl wrote.  -> list of (signature, message)"""
    probs = []
    gmap = {g["name"]: g for g in sc["groups"]}
    jmap = {j["name"]: j for j in sc["jobs"]}
    pre = dict(obs["pre_not_submitted"])
    depth = sc["max_nodes"] if sc["max_nodes"] is not None else 10 ** 9
    seen = set()
    idxs = [b["index"] for b in obs["batches"]]
    if idxs != list(range(sc["index0"], sc["index0"] + len(idxs))):
        probs.append(("batch-index", f"batch indices {idxs} are not consecutive from {sc['index0']}"))
    if obs["error"] is None and obs["final_index"] != sc["index0"] + len(idxs):
        probs.append(("batch-index-persisted", "persisted batch index does not follow the batches written"))
    n_ok = 0
    for b in obs["batches"]:
        g = gmap.get(b["group"])
        names = [n for n, _ in b["jobs"]]
        if g is None:
            probs.append(("batch-group", f"batch {b['index']} has no single submission script/group"))
            continue
        if not names:
            probs.append(("batch-empty", f"batch {b['index']} is empty"))
        if set(names) & seen:
            probs.append(("job-in-two-batches", f"jobs {sorted(set(names) & seen)} placed in two batches of one round"))
        seen |= set(names)
        for n in names:
            if n not in pre:
                probs.append(("batch-job-not-available", f"job {n} in batch {b['index']} was not NOT_SUBMITTED"))
            elif jmap[n]["group"] != b["group"]:
                probs.append(("batch-mixed-groups", f"job {n} of group {jmap[n]['group']} in a batch of {b['group']}"))
        if g["time"]:
            if 60 * sum(jmap[n]["est"] for n in names) > jadeenv.group_limit_seconds(g):
                probs.append(("batch-time-limit", f"batch {b['index']} exceeds walltime x processes"))
        elif len(names) > max(1, g["size"]):
            probs.append(("batch-size-limit", f"batch {b['index']} has {len(names)} jobs > {g['size']}"))
        for n, written in b["jobs"]:
            if n in pre and set(written) != set(pre[n]):
                probs.append(("batch-blockers-written", f"blocked_by of {n} in batch config differs from remaining blockers"))
            if written and not g["try"]:
                probs.append(("batch-blocked-no-try", f"blocked job {n} batched without try-add-blocked"))
            if not set(written) <= set(names):
                probs.append(("batch-blockers-open", f"job {n} batched without all unfinished blockers in the batch"))
        if g["dry"]:
            if b["sbatch_called"]:
                probs.append(("dry-run-sbatch", f"dry-run batch {b['index']} was handed to sbatch"))
        elif not b["sbatch_called"]:
            probs.append(("batch-not-submitted", f"batch {b['index']} written but never handed to sbatch"))
        if b["ok"] or g["dry"]:
            n_ok += 1
        ds = b["directives"]
        wall = g.get("wall_min", 60)
        if ds.get("job-name") != f"{b['group']}_batch_{b['index']}" or ds.get("time") != "%d:%02d:00" % (wall // 60, wall % 60):
            probs.append(("batch-params", f"batch {b['index']} submitted with parameters of another group: {ds}"))
        r = b["run"]
        if r and (r.get("nproc") != g.get("nproc") or r.get("distributed") != g.get("distributed", True)
                  or not str(r.get("config_file", "")).endswith(f"config_batch_{b['index']}.json")):
            probs.append(("batch-run-options", f"run script of batch {b['index']} does not carry its group's options: {r}"))
    if n_ok > max(0, depth - sc["out0"]):
        probs.append(("max-nodes", f"{n_ok} batches handed to the HPC with {sc['out0']} active and max-nodes {sc['max_nodes']}"))
    if obs["error"]:
        probs.append(("round-exception", "submitter round raised " + obs["error"]))
    return probs


def round_terms(sc, obs):
    gidx = {g["name"]: i + 1 for i, g in enumerate(sc["groups"])}
    jmap = {j["name"]: j for j in sc["jobs"]}
    depth = sc["max_nodes"] if sc["max_nodes"] is not None else 2 ** 63 - 1
    ns = clist([cjob_term(n, bl, jmap[n]["est"], gidx[jmap[n]["group"]]) for n, bl in obs["pre_not_submitted"]])
    inp = (f"({cN(depth)}, {cN(sc['out0'])}, {cN(sc['index0'])}, {clist([cbool(b) for b in sc['oks']])}, "
           f"{clist([gparams_term(g, gidx[g['name']]) for g in sc['groups']])}, {ns})")
    subs = clist([f"({cN(b['index'])}, {cN(gidx.get(b['group'], 0))}, "
                  + clist([f"({cN(IDX[n])}, {clist([cN(IDX[x]) for x in bl])})" for n, bl in b["jobs"]])
                  + f", {cbool(bool(b['ok']) or bool(next((g for g in sc['groups'] if g['name'] == b['group']), {}).get('dry')))})"
                  for b in obs["batches"]])
    exp = f"(Some ({subs}, {cN(sc['index0'] + len(obs['batches']))}))"
    return inp, exp


ROUND_FN = ("fun c => match c with (depth, out0, index0, oks, groups, ns) => "
            "match submit_round depth out0 index0 oks groups ns with "
            "| ROk r => Some (map (fun s => (sb_index s, sb_group s, map (fun j => (jname j, jblocked j)) (sb_jobs s), sb_ok s)) (r_subs r), r_index r) "
            "| ROutOfFuel => None end end")
ROUND_EQB = ("option_eqb (prod_eqb (list_eqb (prod_eqb (prod_eqb (prod_eqb N.eqb N.eqb) (list_eqb (prod_eqb N.eqb (list_eqb N.eqb)))) Bool.eqb)) N.eqb)")
ROUND_IN = "N * N * N * list bool * list gparams * list cjob"
ROUND_OUT = "option (list (N * N * list (N * list N) * bool) * N)"


def run_rounds(chk, tmp, n_random, sig_prefix=""):
    import jade.jobs.cluster  # noqa: F401  (import errors surface here)
    cmp_ = core.CoqCompare("rd", IMPORTS, ROUND_FN, ROUND_EQB, ROUND_IN, ROUND_OUT, shard=200)
    dist = {"rounds": 0, "groups": {}, "with_prestate": 0, "batches": {}, "sbatch_failures": 0, "dry_run": 0,
            "queue_full_at_start": 0, "max_nodes": {}}
    scs = []
    # directed: D1 family through the whole round
    scs.append({"jobs": [{"name": "j2", "deps": ["j1"], "est": 3, "group": "g1", "cancel": False, "rc": 0},
                         {"name": "j3", "deps": [], "est": 4, "group": "g1", "cancel": False, "rc": 0},
                         {"name": "j1", "deps": [], "est": 5, "group": "g1", "cancel": False, "rc": 0}],
                "groups": [{"name": "g1", "size": 500, "time": True, "wall_min": 10, "nproc": 1, "try": True, "dry": False}],
                "max_nodes": None, "done": [], "submitted": [], "out0": 0, "index0": 1, "oks": []})
    for _ in range(n_random):
        scs.append(gen_round_scenario(chk.rng))
    for k, sc in enumerate(scs):
        obs = run_round_impl(sc, tmp)
        for sig, msg in round_oracle(sc, obs):
            chk.violation(sig_prefix + sig, msg, {"component": "HpcSubmitter.run (submission part)", "scenario": sc,
                                                 "impl_observation": {k2: v for k2, v in obs.items() if k2 != "out"}})
        inp, exp = round_terms(sc, obs)
        cmp_.add(inp, exp, {"scenario": sc, "impl": {k2: v for k2, v in obs.items() if k2 in ("batches", "error", "final_index")}})
        nb = len(obs["batches"])
        chk.count(("round", json.dumps(sc, sort_keys=True)), nontrivial=nb >= 1 and len(sc["jobs"]) >= 2)
        dist["rounds"] += 1
        dist["groups"][len(sc["groups"])] = dist["groups"].get(len(sc["groups"]), 0) + 1
        dist["with_prestate"] += bool(sc["done"] or sc["submitted"])
        dist["batches"][nb] = dist["batches"].get(nb, 0) + 1
        dist["sbatch_failures"] += sum(1 for b in obs["batches"] if b["ok"] is False)
        dist["dry_run"] += any(g["dry"] for g in sc["groups"])
        dist["queue_full_at_start"] += (sc["max_nodes"] is not None and sc["out0"] >= sc["max_nodes"])
        dist["max_nodes"][str(sc["max_nodes"])] = dist["max_nodes"].get(str(sc["max_nodes"]), 0) + 1
        if k in (1, 7):
            chk.sample({"kind": "round", "scenario": sc, "impl_batches": obs["batches"]})
    bad = cmp_.run()
    chk.oblige("correspondence Batch.submit_round vs HpcSubmitter.run on a real Cluster (%d rounds)" % len(cmp_.cases),
               not bad, "first differing: %s" % bad[:5])
    for i in bad[:3]:
        chk.tie_broken("correspondence Batch.submit_round vs HpcSubmitter.run",
                       json.dumps({"case": cmp_.cases[i][2], **cmp_.show(i)}, default=str)[:2500])
    chk.notes.setdefault("input_distribution", {})["rounds"] = dist
    return cmp_
