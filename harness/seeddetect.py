"""Coordinator tool: apply each confirmed seeded mutation to /repo, run the property's quick check,
undo it, and record the verdict in /verif/seeded/<id>/meta.json (detected_by).  Sequential on purpose."""
import json, os, subprocess, sys, glob, re, time, shutil
ROOT = os.path.dirname(os.path.dirname(os.path.abspath(__file__)))      # a copy of /verif can run its own sweep ...
REPO = os.environ.get("SEED_REPO", "/repo")                              # ... against its own clone of /repo
names = sys.argv[1:] or sorted(os.path.basename(d.rstrip("/")) for d in glob.glob(ROOT + "/seeded/*/"))
for name in names:
    d = f"{ROOT}/seeded/{name}"
    meta = json.load(open(f"{d}/meta.json"))
    pid = meta["property"]
    subprocess.run(f"git -C {REPO} checkout -- .", shell=True)
    r = subprocess.run(f"git -C {REPO} apply {d}/patch.diff", shell=True, capture_output=True, text=True)
    if r.returncode != 0:
        print(name, "patch does not apply to /repo", r.stderr[-200:]); continue
    t0 = time.time()
    # the evidence files committed under /verif/evidence must come from runs on the unchanged tree: keep them aside
    ev = f"{ROOT}/evidence/{pid}.json"
    bak = ev + ".keep"
    if os.path.exists(ev):
        shutil.copy(ev, bak)
    try:
        p = subprocess.run(f"./check {pid} --tier quick", shell=True, cwd=ROOT, capture_output=True, text=True, timeout=1500,
                           env=dict(os.environ, JADE_REPO=REPO, PYTHONPATH=f"{REPO}:{ROOT}"))
        out, rc = p.stdout + p.stderr, p.returncode
    except subprocess.TimeoutExpired:
        out, rc = "TIMEOUT", 124
    finally:
        subprocess.run(f"git -C {REPO} checkout -- .", shell=True)
        if os.path.exists(bak):
            shutil.move(bak, ev)
    viol = re.findall(r"VIOLATION property=\S+ replay=(\S+)( no-failing-input-found)?", out)
    sigs = []
    for path, nf in viol:
        try:
            obj = json.load(open(path))
            sigs.append((obj.get("signature") or obj.get("kind")) + (" [no-failing-input-found]" if nf else ""))
        except Exception:
            sigs.append(path)
    meta["detection"] = {"check": f"./check {pid} --tier quick", "exit": rc, "violations": sigs[:8], "wall_s": round(time.time() - t0, 1),
                         "concrete": any(not nf for _, nf in viol)}
    json.dump(meta, open(f"{d}/meta.json", "w"), indent=1)
    print(name, "exit", rc, "DETECTED" if rc == 1 and viol else "MISSED", sigs[:4], flush=True)
