"""Driver for C17: generators of configuration descriptions, the real-code runs (construct, dump,
create_config_from_file, JobSubmitter.run_submit_jobs with the cluster/HPC boundary intercepted),
conversion of dict-level values to terms of Config.json, the independent Python oracles.

A *description* (desc) is what a user writes: {"jobs": [kwargs of GenericCommandParameters ...],
"groups": [{"name", "submitter_params" (JSON of SubmitterParams.dict())} ...], "setup_command": ...}.
"""
import json
import os
import re
import shutil
import tempfile
import traceback
import types

from harness.core import cstr, clist

MODULE = "jade.extensions.generic_command.generic_command_configuration"
CLASS = "GenericCommandConfiguration"
LIFECYCLE = ("setup_command", "teardown_command", "node_setup_command", "node_teardown_command")


# --------------------------------------------------------------------------------------------------
# dict level <-> Coq terms
# --------------------------------------------------------------------------------------------------
class OutOfDomain(Exception):
    pass


def jterm(v):
    """Python value as json.load returns it -> term of Config.json"""
    if v is None:
        return "JNull"
    if isinstance(v, bool):
        return "(JBool true)" if v else "(JBool false)"
    if isinstance(v, int):
        return f"(JNum ({v})%Z)"
    if isinstance(v, str):
        if not v.isascii():
            raise OutOfDomain("non-ASCII text")
        return f"(JStr {cstr(v)})"
    if isinstance(v, list):
        return "(JList " + clist([jterm(x) for x in v]) + ")"
    if isinstance(v, dict):
        items = []
        for k, x in v.items():
            if not isinstance(k, str) or not k.isascii():
                raise OutOfDomain("non-string key")
            items.append(f"({cstr(k)}, {jterm(x)})")
        return "(JObj " + clist(items) + ")"
    raise OutOfDomain(f"value of type {type(v).__name__}")


def jsonify(data):
    """what json.dump(data, cls=ExtendedJSONEncoder) followed by json.load gives"""
    from jade.utils.utils import ExtendedJSONEncoder
    return json.loads(json.dumps(data, cls=ExtendedJSONEncoder))


def plain(obj):
    """object level -> plain data, not going through any dict()/serialize() of the code under test"""
    import enum
    from pydantic.v1 import BaseModel
    if isinstance(obj, BaseModel):
        return {k: plain(v) for k, v in obj.__dict__.items()}
    if isinstance(obj, enum.Enum):
        return obj.value
    if isinstance(obj, (set, frozenset)):
        return sorted(plain(x) for x in obj)
    if isinstance(obj, dict):
        return {k: plain(v) for k, v in obj.items()}
    if isinstance(obj, (list, tuple)):
        return [plain(x) for x in obj]
    return obj


def observe(cfg):
    """what a configuration object holds, read through its public attributes"""
    jobs = []
    for job in cfg.iter_jobs():
        d = plain(job.model)
        d["_name"] = job.name
        d["_blocking"] = sorted(job.get_blocking_jobs())
        d["_group"] = job.submission_group
        d["_estimate"] = job.estimated_run_minutes
        jobs.append(d)
    obs = {"jobs": jobs, "submission_groups": [plain(g) for g in cfg.submission_groups]}
    for k in LIFECYCLE:
        obs[k] = getattr(cfg, k)
    return obs


def canon(ser):
    """serialized configuration with blocked_by as sorted lists (it is a set)"""
    out = dict(ser)
    out["jobs"] = []
    for j in ser.get("jobs", []):
        j = dict(j)
        if isinstance(j.get("blocked_by"), list):
            j["blocked_by"] = sorted(j["blocked_by"], key=lambda x: (str(type(x)), x))
        out["jobs"].append(j)
    return out


def error_term(kind):
    k = kind[0]
    if k in ("EDuplicateName", "EGroupTwice", "EMustBeSame", "ERuntime"):
        return f"({k} {cstr(kind[1])})"
    if k == "EJobInvalidGroup":
        return f"(EJobInvalidGroup {cstr(kind[1])} {cstr(kind[2])})"
    return k


_MSG = [
    (re.compile(r"^job name (.*) is already stored$", re.S), lambda m: ("EDuplicateName", m.group(1))),
    (re.compile(r"^command cannot be emtpy", re.S), lambda m: ("EEmptyCommand",)),
    (re.compile(r"^submission group (.*) is listed twice$", re.S), lambda m: ("EGroupTwice", m.group(1))),
    (re.compile(r"^hpc_type values must be the same in all groups$"), lambda m: ("EHpcType",)),
    (re.compile(r"^(\w+) must be the same in all groups$"), lambda m: ("EMustBeSame", m.group(1))),
    (re.compile(r"^Job (.*) has an invalid submission group: (.*)$", re.S), lambda m: ("EJobInvalidGroup", m.group(1), m.group(2))),
    (re.compile(r"^Submitting batches by time requires"), lambda m: ("EMissingEstimate",)),
    (re.compile(r"^job ordering definitions are invalid$"), lambda m: ("EMissingBlocker",)),
    (re.compile(r"^job (.*) has estimated_run_minutes=", re.S), lambda m: ("ERuntime", m.group(1))),
]


def classify(exc):
    """exception of the real code -> (error constructor of Config.error ..., class name)"""
    from jade.exceptions import InvalidConfiguration
    name = type(exc).__name__
    if isinstance(exc, InvalidConfiguration):
        msg = str(exc)
        for rx, f in _MSG:
            m = rx.match(msg)
            if m:
                return f(m), name
        return ("EOther", msg), name
    if isinstance(exc, StopIteration):
        return ("ENoGroups",), name
    if isinstance(exc, AssertionError):
        fn = traceback.extract_tb(exc.__traceback__)[-1].name
        if fn == "_to_timedelta":
            return ("EWalltimeAssert",), name
        if fn == "check_submission_groups":
            return ("EFieldsAssert",), name
        return ("EOther", "assert in " + fn), name
    if isinstance(exc, KeyError):
        fn = traceback.extract_tb(exc.__traceback__)[-1].name
        if fn == "check_job_runtimes":
            return ("EGroupKey",), name
        return ("EParse",), name            # _job["extension"], data["configuration_module"]
    if name == "ValidationError":
        return ("EParse",), name
    if name == "InvalidParameter" and str(exc).startswith("Cannot deserialize"):
        return ("EParse",), name
    return ("EOther", f"{name}: {exc}"), name


# --------------------------------------------------------------------------------------------------
# generators
# --------------------------------------------------------------------------------------------------
NAME_CHARS = "abcXYZ019 _-.,;:'\"/\\=%{}[]()#@!?*+<>|&$~^`"
PADS = ["", "", "", " ", "  ", "\t", "\n", " \t", "\r\n", "\x0b", "\x0c", "\x1c", "\x1f "]
WALLS = ["4:00:00", "0:30:00", "00:05:00", "100:00:00", "1:90:30", "0:00:00", "2:00:01", "12:00:00"]
ODD_WALLS = ["1-00:00:00", "30:00", "abc", "x1:2:3y", "1:2", "::", "1:2:3:4", "01:02:03.5", "7", "1::2:3:4:5", "12a3:4:5",
             "9:9:9 ", "1:-2:3", "1:2:"]


def gen_name(rng, used=()):
    for _ in range(50):
        n = rng.randint(1, 10)
        s = "".join(rng.choice(NAME_CHARS) for _ in range(n)).strip()
        if s and s not in used:
            return s
    return "n%d" % rng.randint(0, 10 ** 9)


def pad(rng, s):
    return rng.choice(PADS) + s + rng.choice(PADS)


def gen_json(rng, depth=0):
    r = rng.random()
    if depth >= 2 or r < 0.6:
        return rng.choice([None, True, False, 0, 1, -7, 12345678901, "", "v", " x ", "a\"b", "c,d"])
    if r < 0.8:
        return [gen_json(rng, depth + 1) for _ in range(rng.randint(0, 3))]
    return {rng.choice(["k", "key 2", "", "a.b", "z"]) + str(i): gen_json(rng, depth + 1) for i in range(rng.randint(0, 3))}


def wall_seconds(w):
    """independent reading of the documented H:MM:SS format; None if not of that form"""
    m = re.fullmatch(r"([0-9]+):([0-9]+):([0-9]+)", w)
    if not m:
        return None
    return int(m.group(1)) * 3600 + int(m.group(2)) * 60 + int(m.group(3))


def make_params(rng, hpc_type, wall, max_nodes, poll_interval, batch_size=None):
    """JSON of SubmitterParams(...).dict() built by the real models"""
    from jade.models import SubmitterParams, HpcConfig
    if hpc_type == "slurm":
        hpc = {"account": rng.choice(["acct", "my-proj_1", "a b"]), "walltime": wall}
        for k, vals in (("partition", ["debug", "short,standard"]), ("qos", ["high"]), ("mem", ["80GB"]),
                        ("tmp", ["1TB"]), ("nodes", [1, 4]), ("ntasks", [36]), ("gres", ["gpu:2"]),
                        ("reservation", ["res 1"])):
            if rng.random() < 0.2:
                hpc[k] = rng.choice(vals)
    elif hpc_type == "fake":
        hpc = {"walltime": wall}
    else:
        hpc = {}
    kw = {"hpc_config": HpcConfig(hpc_type=hpc_type, hpc=hpc), "max_nodes": max_nodes, "poll_interval": poll_interval}
    if batch_size is None:
        batch_size = rng.choice([500, 500, 1, 10, 0])
    kw["per_node_batch_size"] = batch_size
    if rng.random() < 0.3:
        kw["num_parallel_processes_per_node"] = rng.choice([1, 4, 36])
    if rng.random() < 0.3:
        kw["time_based_batching"] = rng.choice([True, False])
    for k, vals in (("generate_reports", [False]), ("try_add_blocked_jobs", [False]), ("dry_run", [True]),
                    ("verbose", [True]), ("distributed_submitter", [False]), ("resource_monitor_interval", [None, 30]),
                    ("resource_monitor_type", ["periodic", "none"]), ("node_setup_script", ["setup.sh arg"]),
                    ("node_shutdown_script", ["down.sh"])):
        if rng.random() < 0.15:
            kw[k] = rng.choice(vals)
    if rng.random() < 0.1:
        kw["resource_monitor_stats"] = {"cpu": False, "disk": True, "process": True}
    # read the model's attributes, not its dict(): a dict() that drops or rewrites a value must not be able to hide
    # its own loss by also shaping the generator's input
    d = plain(SubmitterParams(**kw))
    for k in ("node_setup_script", "node_shutdown_script"):     # the two keys a group file omits when unset
        if d.get(k) is None:
            d.pop(k, None)
    return jsonify(d)


def gen_desc(rng, njobs=None, ngroups=None):
    """a description meant to be valid (the caller injects invalidities); returns (desc, info)"""
    ngroups = ngroups or rng.choice([1, 1, 2, 3])
    hpc_type = rng.choice(["slurm", "slurm", "fake", "local"])
    max_nodes = rng.choice([None, None, 1, 5])
    poll = rng.choice([10, 10, 1, 60])
    gnames = []
    groups = []
    for i in range(ngroups):
        gn = "default" if (i == 0 and rng.random() < 0.3) else gen_name(rng, gnames)
        gnames.append(gn)
        wall = rng.choice(WALLS)
        groups.append({"name": pad(rng, gn) if rng.random() < 0.3 else gn,
                       "submitter_params": make_params(rng, hpc_type, wall, max_nodes, poll)})
    njobs = rng.choice([0, 1, 2, 3, 4, 6, 9]) if njobs is None else njobs
    jobs = []
    names = []        # effective names decided so far
    next_id = 1
    for i in range(njobs):
        kw = {}
        explicit_id = rng.random() < 0.15
        named = rng.random() < 0.7
        if named:
            n = gen_name(rng, names)
            kw["name"] = pad(rng, n) if rng.random() < 0.3 else n
        elif rng.random() < 0.3:
            kw["name"] = None
        if explicit_id:
            jid = rng.choice([100 + i, 1000000 + i, -5 - i])
            kw["job_id"] = jid
        else:
            jid = next_id
            next_id += 1
        eff = n if named else str(jid)
        if eff in names:           # an unnamed job whose id text collides: give it a name
            eff = gen_name(rng, names)
            kw["name"] = eff
        kw["command"] = pad(rng, rng.choice(["echo hi", "python run.py --x=1 'a b'", "bash -c \"exit 1\"", "true", "sleep 1; ls"])) \
            if rng.random() < 0.3 else rng.choice(["echo hi", "python run.py --x=1 'a b'", "true", "./a.out < in > out"])
        # blockers: earlier and later jobs, given as names or (for unnamed jobs) as integers
        kw["_eff"] = eff
        kw["_int_ok"] = (not named) and eff == str(jid)
        kw["_jid"] = jid
        names.append(eff)
        jobs.append(kw)
    for i, kw in enumerate(jobs):
        bl = []
        if njobs > 1 and rng.random() < 0.5:
            for k in rng.sample(range(njobs), rng.randint(1, min(3, njobs))):
                if k == i:
                    continue
                o = jobs[k]
                if o["_int_ok"] and rng.random() < 0.6:
                    bl.append(o["_jid"])
                else:
                    bl.append(pad(rng, o["_eff"]) if rng.random() < 0.2 else o["_eff"])
            if bl and rng.random() < 0.2:
                bl.append(bl[0])
        if bl or rng.random() < 0.2:
            kw["blocked_by"] = bl
        g = rng.randrange(ngroups)
        if gnames[g] != "default" or rng.random() < 0.5:
            kw["submission_group"] = pad(rng, gnames[g]) if rng.random() < 0.15 else gnames[g]
        gp = groups[g]["submitter_params"]
        wall = gp["hpc_config"]["hpc"].get("walltime")
        wsec = wall_seconds(wall) if wall is not None else 0xFFFFFFFF
        need_est = gp["per_node_batch_size"] == 0
        if need_est or rng.random() < 0.5:
            kw["estimated_run_minutes"] = rng.choice([0, wsec // 60, max(0, wsec // 60 - 1), rng.randint(0, max(0, wsec // 60)), -3]) \
                if wsec < 10 ** 8 else rng.choice([0, 5, 100000])
        elif rng.random() < 0.2:
            kw["estimated_run_minutes"] = None
        for flag in ("cancel_on_blocking_job_failure", "append_job_name", "append_output_dir", "use_multi_node_manager"):
            r = rng.random()
            if r < 0.2:
                kw[flag] = True
            elif r < 0.3:
                kw[flag] = False
        if rng.random() < 0.25:
            kw["ext"] = {rng.choice(["k", "key 2", "a.b"]) + str(x): gen_json(rng) for x in range(rng.randint(0, 3))}
    for kw in jobs:
        for k in ("_eff", "_int_ok", "_jid"):
            kw.pop(k)
    desc = {"jobs": jobs, "groups": groups}
    for k in LIFECYCLE:
        r = rng.random()
        if r < 0.3:
            desc[k] = rng.choice(["bash setup.sh", " echo 'x y' ", "", "module load conda; conda activate \"my env\"", "  "])
        elif r < 0.4:
            desc[k] = None
    if rng.random() < 0.2:
        desc["user_data"] = {"u" + str(i): gen_json(rng) for i in range(rng.randint(0, 2))}
    return desc


def file_content(desc):
    """the config file a user would write for the description (dict level)"""
    data = {"configuration_module": MODULE, "configuration_class": CLASS, "format_version": "v0.2.0"}
    if "user_data" in desc:
        data["user_data"] = desc["user_data"]
    data["submission_groups"] = desc["groups"]
    for k in LIFECYCLE:
        if k in desc:
            data[k] = desc[k]
    data["jobs"] = [dict(kw, extension="generic_command") for kw in desc["jobs"]]
    return data


# ---- injections ---------------------------------------------------------------------------------
def _copy(desc):
    return json.loads(json.dumps(desc))


def _eff_names(desc):
    """effective names as the code will compute them (used only to aim the injections)"""
    out = []
    nid = 1
    for kw in desc["jobs"]:
        jid = kw.get("job_id")
        if jid is None:
            jid = nid
            nid += 1
        n = kw.get("name")
        out.append(n.strip() if n is not None else str(jid))
    return out


def inject(rng, desc, kind):
    """-> mutated copy or None if the kind does not apply"""
    d = _copy(desc)
    jobs, groups = d["jobs"], d["groups"]
    names = _eff_names(d)
    if kind == "missing_blocker":
        if not jobs:
            return None
        j = rng.choice(jobs)
        b = rng.choice(["no such job", "ghost", 987654, names[0] + "x", names[0].upper() + "_", " "])
        if isinstance(b, str) and b.strip() in names or str(b) in names:
            return None
        j["blocked_by"] = list(j.get("blocked_by") or []) + [b]
        return d
    if kind == "duplicate_name":
        if len(jobs) < 2:
            return None
        i, k = rng.sample(range(len(jobs)), 2)
        jobs[k]["name"] = rng.choice([names[i], pad(rng, names[i])])
        return d
    if kind == "duplicate_id_name":        # two unnamed jobs with the same id
        if len(jobs) < 2:
            return None
        i, k = rng.sample(range(len(jobs)), 2)
        for x in (i, k):
            jobs[x].pop("name", None)
            jobs[x]["job_id"] = 77
        return d
    if kind == "invalid_group":
        if not jobs:
            return None
        j = rng.choice(jobs)
        gn = [g["name"].strip() for g in groups]
        cand = rng.choice(["nogroup", gn[0] + "_", gn[0].upper() + "x", "", None])
        if cand is None:
            if "default" in gn:
                return None
            j.pop("submission_group", None)     # falls back to "default", which is not listed
        else:
            if cand in gn:
                return None
            j["submission_group"] = cand
        return d
    if kind in ("inconsistent_max_nodes", "inconsistent_poll_interval", "inconsistent_hpc_type"):
        if len(groups) < 2:
            return None
        g = groups[rng.randrange(1, len(groups))] if rng.random() < 0.7 else groups[0]
        p = g["submitter_params"]
        if kind == "inconsistent_max_nodes":
            p["max_nodes"] = 7 if p.get("max_nodes") != 7 else 8
        elif kind == "inconsistent_poll_interval":
            p["poll_interval"] = p["poll_interval"] + 1
        else:
            cur = p["hpc_config"]["hpc_type"]
            new = "fake" if cur != "fake" else "local"
            p["hpc_config"] = {"hpc_type": new, "job_prefix": "job", "hpc": {"walltime": "4:00:00"} if new == "fake" else {}}
        return d
    if kind == "duplicate_group":
        g = _copy(rng.choice(groups))
        groups.insert(rng.randint(0, len(groups)), g)
        return d
    if kind == "runtime_over_walltime":
        cands = []
        gmap = {g["name"].strip(): g for g in groups}
        for j in jobs:
            g = gmap.get((j.get("submission_group") or "default").strip())
            if g is None:
                continue
            w = g["submitter_params"]["hpc_config"]["hpc"].get("walltime")
            if w is None:
                continue
            cands.append((j, wall_seconds(w)))
        if not cands:
            return None
        j, wsec = rng.choice(cands)
        j["estimated_run_minutes"] = wsec // 60 + rng.choice([1, 1, 2, 1000])
        return d
    if kind == "missing_estimate":
        gmap = {g["name"].strip(): g for g in groups}
        cands = [j for j in jobs if (j.get("submission_group") or "default").strip() in gmap]
        if not cands:
            return None
        j = rng.choice(cands)
        gmap[(j.get("submission_group") or "default").strip()]["submitter_params"]["per_node_batch_size"] = 0
        j["estimated_run_minutes"] = None
        return d
    if kind == "no_groups":
        d["groups"] = []
        return d
    if kind == "odd_walltime":
        g = rng.choice(groups)
        hpc = g["submitter_params"]["hpc_config"]["hpc"]
        if "walltime" not in hpc:
            return None
        hpc["walltime"] = rng.choice(ODD_WALLS).strip()      # submitter_params stays in pydantic's normal form
        return d
    if kind == "empty_command":
        if not jobs:
            return None
        j = rng.choice(jobs)
        j["command"] = rng.choice(["", " ", "\t\n"])
        # (with use_multi_node_manager the `command` property is never empty and add_job accepts it)
        j.pop("use_multi_node_manager", None)
        return d
    raise ValueError(kind)


INVALIDITIES = ["missing_blocker", "duplicate_name", "duplicate_id_name", "invalid_group", "inconsistent_max_nodes",
                "inconsistent_poll_interval", "inconsistent_hpc_type", "duplicate_group", "runtime_over_walltime",
                "missing_estimate", "no_groups", "empty_command"]
# the kinds the property names (the others are further reasons for which the code rejects)
PROPERTY_KINDS = {"missing_blocker", "duplicate_name", "duplicate_id_name", "invalid_group", "inconsistent_max_nodes",
                  "inconsistent_poll_interval", "inconsistent_hpc_type", "duplicate_group", "runtime_over_walltime"}


# --------------------------------------------------------------------------------------------------
# the independent Python reading of "valid" over a *loaded* configuration's serialization
# --------------------------------------------------------------------------------------------------
def spec_invalid_reasons(obs):
    """reasons for which the property calls the configuration (an `observe` result) invalid.
    Returns (reasons, undecided) - undecided if a walltime is not H:MM:SS."""
    reasons = []
    undecided = False
    jobs = obs["jobs"]
    groups = obs["submission_groups"]
    names = [j["_name"] for j in jobs]
    if len(set(names)) != len(names):
        reasons.append("duplicate job names")
    for j in jobs:
        for b in j["_blocking"]:
            if b not in names:
                reasons.append(f"blocker {b!r} does not exist")
    gnames = [g["name"] for g in groups]
    if not groups:
        reasons.append("no submission group")
    if len(set(gnames)) != len(gnames):
        reasons.append("duplicate group names")
    for j in jobs:
        if j["_group"] not in gnames:
            reasons.append(f"job group {j['_group']!r} is not listed")
    for g in groups:
        p, p0 = g["submitter_params"], groups[0]["submitter_params"]
        for k in ("max_nodes", "poll_interval"):
            if p.get(k) != p0.get(k):
                reasons.append(f"{k} differs between groups")
        if p["hpc_config"]["hpc_type"] != p0["hpc_config"]["hpc_type"]:
            reasons.append("hpc_type differs between groups")
    walls = {}
    for g in groups:
        w = g["submitter_params"]["hpc_config"]["hpc"].get("walltime")
        if w is None:
            walls[g["name"]] = None
        else:
            sec = wall_seconds(w)
            if sec is None:
                undecided = True
            walls[g["name"]] = sec
    for j in jobs:
        est = j["_estimate"]
        g = j["_group"]
        if est is not None and g in walls and walls[g] is not None and est * 60 > walls[g]:
            reasons.append(f"estimate {est} min above walltime {walls[g]} s")
        if est is not None and g in walls and walls[g] is None and est * 60 > 0xFFFFFFFF:
            undecided = True       # no walltime: the code still bounds estimates by 2^32-1 s (136 years)
    for g in groups:
        if g["submitter_params"]["per_node_batch_size"] == 0:
            for j in jobs:
                if j["_group"] == g["name"] and j["_estimate"] is None:
                    reasons.append("missing estimate with per_node_batch_size == 0 (time-based batching)")
    return reasons, undecided


def roundtrip_differences(a, b):
    """the attributes the property lists, compared between two observations"""
    diffs = []
    ja, jb = a["jobs"], b["jobs"]
    if len(ja) != len(jb):
        diffs.append(f"jobs: {len(ja)} != {len(jb)}")
    for i, (x, y) in enumerate(zip(ja, jb)):
        if x["_name"] != y["_name"]:
            diffs.append(f"name: job {i} {x['_name']!r} != {y['_name']!r}")
        for k in ("command", "cancel_on_blocking_job_failure", "_group", "_estimate", "append_job_name",
                  "append_output_dir", "use_multi_node_manager", "_blocking", "blocked_by", "name", "job_id", "ext"):
            if x.get(k) != y.get(k):
                diffs.append(f"{k.lstrip('_')}: job {i} ({x['_name']!r}) {x.get(k)!r} != {y.get(k)!r}")
    if a["submission_groups"] != b["submission_groups"]:
        diffs.append("submission_groups: differ")
    for k in LIFECYCLE:
        if a.get(k) != b.get(k):
            diffs.append(f"{k}: {a.get(k)!r} != {b.get(k)!r}")
    return diffs


def _strip_all(v):
    if isinstance(v, str):
        return v.strip()
    if isinstance(v, list):
        return sorted(_strip_all(x) for x in v) if all(isinstance(x, str) for x in v) else v
    return v


def _subset(a, b):
    """every value written in the file (a) is held by the object (b)"""
    if isinstance(a, dict) and isinstance(b, dict):
        return all(k in b and _subset(v, b[k]) for k, v in a.items())
    if isinstance(a, list) and isinstance(b, list):
        return len(a) == len(b) and all(_subset(x, y) for x, y in zip(a, b))
    return a == b


def file_vs_loaded_differences(content, obs):
    """the attributes the property lists: what the file says (after the documented normalization:
    strings stripped, blockers as a set of strings) against what the loaded objects hold"""
    diffs = []
    fj = content.get("jobs") or []
    if len(fj) != len(obs["jobs"]):
        return [f"jobs: {len(fj)} in the file, {len(obs['jobs'])} loaded"]
    for i, (f, o) in enumerate(zip(fj, obs["jobs"])):
        want = {
            "name": f["name"].strip() if f.get("name") is not None else None,
            "command": f["command"].strip(),
            "_blocking": sorted({str(b).strip() for b in f.get("blocked_by") or []}),
            "cancel_on_blocking_job_failure": f.get("cancel_on_blocking_job_failure", False),
            "_estimate": f.get("estimated_run_minutes"),
            "_group": f.get("submission_group", "default").strip(),
            "append_job_name": f.get("append_job_name", False),
            "append_output_dir": f.get("append_output_dir", False) or f.get("use_multi_node_manager", False),
            "use_multi_node_manager": f.get("use_multi_node_manager", False),
            "ext": f.get("ext", {}),
        }
        if f.get("job_id") is not None:
            want["job_id"] = f["job_id"]
        if want["name"] is not None:
            want["_name"] = want["name"]
        for k, v in want.items():
            if _strip_all(o.get(k)) != _strip_all(v):       # (whether strings are stripped is not the property's business)
                diffs.append(f"{k.lstrip('_')}: job {i} file says {v!r}, loaded {o.get(k)!r}")
    fg = content.get("submission_groups") or []
    if len(fg) != len(obs["submission_groups"]):
        diffs.append(f"submission_groups: {len(fg)} in the file, {len(obs['submission_groups'])} loaded")
    else:
        for i, (f, o) in enumerate(zip(fg, obs["submission_groups"])):
            if f["name"].strip() != o["name"].strip() or not _subset(f["submitter_params"], o["submitter_params"]):
                diffs.append(f"submission_groups: group {i} differs from the file")
    for k in LIFECYCLE:
        if content.get(k) != obs.get(k):
            diffs.append(f"{k}: file says {content.get(k)!r}, loaded {obs.get(k)!r}")
    return diffs


# --------------------------------------------------------------------------------------------------
# real-code runs
# --------------------------------------------------------------------------------------------------
class Boundary:
    """Intercepts everything behind JobSubmitter.create in run_submit_jobs and every command runner."""

    def __init__(self):
        self.events = []
        self.commands = []
        self._saved = []

    def __enter__(self):
        import jade.jobs.job_submitter as jsm
        import jade.hpc.slurm_manager as slm
        import jade.utils.subprocess_manager as spm
        import jade.utils.run_command as rcm
        from jade.enums import Status
        from jade.extensions.generic_command.generic_command_configuration import GenericCommandConfiguration
        b = self

        class FakeCluster:
            def demote_from_submitter(self):
                pass

            def delete_files_internal(self):
                pass

        def fake_create(*a, **kw):
            b.events.append("EvClusterCreate")
            return FakeCluster()

        def fake_submit(self_, cluster, force_local=False):
            b.events.append("EvSubmitJobs")
            return Status.GOOD

        def fake_cmd(cmd, *a, **kw):
            b.commands.append(cmd)
            return 0

        orig_dump = GenericCommandConfiguration.dump

        def dump(self_, *a, **kw):
            b.events.append("EvDump")
            return orig_dump(self_, *a, **kw)

        def patch(obj, name, val):
            self._saved.append((obj, name, getattr(obj, name)))
            setattr(obj, name, val)
        patch(jsm, "Cluster", types.SimpleNamespace(create=fake_create))
        patch(jsm.JobSubmitter, "submit_jobs", fake_submit)
        patch(GenericCommandConfiguration, "dump", dump)
        patch(slm, "run_command", fake_cmd)
        patch(spm, "run_command", fake_cmd)
        patch(spm, "check_run_command", fake_cmd)
        patch(jsm, "run_command", fake_cmd)
        patch(jsm, "check_run_command", fake_cmd)
        patch(rcm, "_run_command", fake_cmd)
        return self

    def __exit__(self, *a):
        for obj, name, val in reversed(self._saved):
            setattr(obj, name, val)
        self._saved = []


def build_programmatically(desc):
    """the public API: GenericCommandConfiguration(...), add_job(GenericCommandParameters(**kwargs))"""
    from jade.extensions.generic_command.generic_command_configuration import GenericCommandConfiguration
    from jade.extensions.generic_command.generic_command_parameters import GenericCommandParameters
    kw = {k: desc[k] for k in LIFECYCLE if k in desc}
    if "user_data" in desc:
        kw["user_data"] = json.loads(json.dumps(desc["user_data"]))
    cfg = GenericCommandConfiguration(submission_groups=json.loads(json.dumps(desc["groups"])), **kw)
    for j in desc["jobs"]:
        cfg.add_job(GenericCommandParameters(**json.loads(json.dumps(j))))
    return cfg


def run_file(content, tmp):
    """write the file, load it with create_config_from_file, submit it with the boundary intercepted.
    -> dict(loaded=serialization|None, load_error, events, submit_error, exc_class, commands)"""
    from jade.jobs.job_configuration_factory import create_config_from_file
    from jade.jobs.job_submitter import JobSubmitter
    d = tempfile.mkdtemp(dir=tmp)
    res = {"loaded": None, "observed": None, "load_error": None, "events": [], "submit_error": None, "exc_class": None, "commands": []}
    try:
        f = os.path.join(d, "user_config.json")
        with open(f, "w") as fh:
            json.dump(content, fh, indent=2)
        with Boundary() as b:
            try:
                cfg = create_config_from_file(f)
            except Exception as e:          # noqa: BLE001 - every failure is an observation
                res["load_error"], res["exc_class"] = classify(e)
                res["events"], res["commands"] = list(b.events), list(b.commands)
                return res
            res["loaded"] = jsonify(cfg.serialize())
            res["observed"] = observe(cfg)
            out = os.path.join(d, "output")
            try:
                JobSubmitter.run_submit_jobs(cfg, out)
            except Exception as e:          # noqa: BLE001
                res["submit_error"], res["exc_class"] = classify(e)
            res["events"], res["commands"] = list(b.events), list(b.commands)
            res["after_checks"] = jsonify(cfg.serialize())
        return res
    finally:
        shutil.rmtree(d, ignore_errors=True)


def roundtrip(desc, tmp):
    """programmatic construction -> serialize -> dump(file) -> create_config_from_file -> serialize.
    -> dict(s1, s2, o1, o2) (serializations and object-level observations) or dict(error=...)"""
    from jade.jobs.job_configuration_factory import create_config_from_file
    d = tempfile.mkdtemp(dir=tmp)
    try:
        try:
            cfg = build_programmatically(desc)
        except Exception as e:              # noqa: BLE001
            return {"error": classify(e)}
        o1 = observe(cfg)
        s1 = jsonify(cfg.serialize())
        f = os.path.join(d, "config.json")
        cfg.dump(f)
        try:
            cfg2 = create_config_from_file(f)
        except Exception as e:              # noqa: BLE001
            return {"s1": s1, "o1": o1, "reload_error": classify(e)}
        return {"s1": s1, "o1": o1, "s2": jsonify(cfg2.serialize()), "o2": observe(cfg2)}
    finally:
        shutil.rmtree(d, ignore_errors=True)


def expected_term(res):
    """the value Config.load_and_submit must have for the observed run"""
    if res["load_error"] is not None:
        return "(Err " + error_term(res["load_error"]) + ")"
    ev = clist(res["events"])
    r = "(Ok tt)" if res["submit_error"] is None else "(Err " + error_term(res["submit_error"]) + ")"
    return f"(Ok ({jterm(res['loaded'])}, ({ev}, {r})))"
