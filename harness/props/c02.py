"""C02 - no job starts before every job blocking it has a recorded outcome
Proofs: coq/theories/Props/C02.v over the system model (System.v) - every accepted trace.
Tie: the real jade code runs in the virtual cluster (harness/vcluster.py) under generated scenarios,
schedules and faults; every impl trace must be accepted by System.step (coqc vm_compute) and satisfy the
Coq monitors; Python oracles judge impl's trace and final state directly (harness/syscheck.py)."""
from harness import core, syscheck

MODES = {'plain': 5, 'appendtimeout': 2, 'kill': 1, 'sbatchfail': 1, 'timeout': 1, 'hooks': 1, 'racing_try': 1, 'resubmit': 3, 'scanerror': 3}


def run(chk):
    ok = core.standard_proof_phase(chk, "C02", gen_needed=())
    chk.notes["system_theorems"] = ['c02_order', 'c02_monitor', 'c02_waiting_jobs_covered', 'c02_never_started_without_outcome']
    chk.notes["partial"] = "'recorded outcome' = row appended to a result file (A-FS); local mode is exercised by the C06/C04 component drivers, not by the system model; the second phase of the 'resubmit' mode (after jade resubmit-jobs) is outside the Coq system model and judged by the Python monitors only"
    syscheck.system_phase(chk, "C02", MODES, n_quick=140, n_thorough=2500, also=(), directed=("node_cancels_two_with_one_behind",))


def replay(path):
    return syscheck.replay_case(path)
