"""C16 - setup and teardown commands run exactly once, at the right time
Proofs: coq/theories/Props/C16.v over the system model (System.v) - every accepted trace.
Tie: the real jade code runs in the virtual cluster (harness/vcluster.py) under generated scenarios,
schedules with all 16 set/unset combinations of the four lifecycle commands; every impl trace must be accepted by System.step (coqc vm_compute) and satisfy the
Coq monitors; Python oracles judge impl's trace and final state directly (harness/syscheck.py)."""
from harness import core, syscheck

MODES = {'hooks': 8, 'local': 1, 'kill': 1, 'resubmit_hooks': 3}


def run(chk):
    ok = core.standard_proof_phase(chk, "C16", gen_needed=())
    chk.notes["system_theorems"] = ["c16_monitor", "c16_setup_once_before_any_batch", "c16_node_setup_precedes_launch", "c16_node_teardown_is_last"]
    chk.notes["partial"] = "environment variables of the hook commands and 'configuring hooks never prevents results from being recorded' are decided on impl by oracles; hook exit codes are the scenario's (0); local mode judged by oracles only"
    syscheck.system_phase(chk, "C16", MODES, n_quick=170, n_thorough=3000, also=())


def replay(path):
    return syscheck.replay_case(path)
