"""C01 - each job is handed to the HPC in exactly one batch and started at most once
Proofs: coq/theories/Props/C01.v, Props/C01_batch.v over the system model (System.v) - every accepted trace.
Tie: the real jade code runs in the virtual cluster (harness/vcluster.py) under generated scenarios,
schedules and faults; every impl trace must be accepted by System.step (coqc vm_compute) and satisfy the
Coq monitors; Python oracles judge impl's trace and final state directly (harness/syscheck.py)."""
from harness import core, syscheck

MODES = {'plain': 4, 'multigroup': 2, 'racing_try': 3, 'kill': 2, 'sbatchfail': 1, 'hooks': 1, 'write': 1}


def run(chk):
    ok = core.standard_proof_phase(chk, "C01", gen_needed=('BatchGen',))
    core.extra_props_phase(chk, "C01_batch")
    chk.notes["system_theorems"] = ['c01_no_double_placement', 'c01_monitor', 'c01_handed_protected', 'c01_make_batch_no_rehand', 'c01_round_disjoint', 'c01_batch_index_fresh']
    chk.notes["partial"] = "'started' means Popen was called by AsyncCliCommand.run (virtual process in the tie); launch uniqueness is derived (SystemLaunch.v) from batch disjointness and queue structure, not a guard of the acceptor"
    syscheck.system_phase(chk, "C01", MODES, n_quick=130, n_thorough=2500, also=(), directed=("write_fails_after_first_sbatch",))


def replay(path):
    return syscheck.replay_case(path)
