"""C04 - failure cancellation is exact.  Proofs: coq/theories/Props/C04.v (Cancel.v, CancelProofs.v over
Gen/ResultGen.v).  Correspondence: the real HpcSubmitter._update_completed_jobs (real Cluster, real result
files), the real JobQueue._check_completions (real AsyncCliCommand, scripted Popen) and whole multi-round
submissions against the Gallina models, evaluated by coqc.  Search for failing inputs: Python oracles over
what the real code did (reference outcome, canceled => never started / non-zero code / status canceled)."""
import itertools
import json
import logging
import shutil
import tempfile

from harness import core, canceldrv as cd
from harness.core import cZ, cbool, clist, cstr


def _tie(chk, cmp_, bad, which):
    for i in bad[:3]:
        chk.tie_broken(which, json.dumps({"case": cmp_.cases[i][2], **cmp_.show(i)}, default=str)[:2500])


# ---------------------------------------------------------------------------------------------
def run_classify(chk, tmp):
    """generated predicates and literal records vs the live Python objects"""
    from jade.result import Result
    from jade.enums import JobCompletionStatus
    cmp_ = core.CoqCompare("c04_cls", cd.IMPORTS, "fun c => (is_successful (fst c) (snd c), is_failed (fst c) (snd c), is_canceled (fst c) (snd c))",
                           "prod_eqb (prod_eqb Bool.eqb Bool.eqb) Bool.eqb", "Z * string", "bool * bool * bool")
    statuses = [s.value for s in JobCompletionStatus] + ["", "Finished", "cancelled"]
    for rc in (-9, -1, 0, 1, 2, 137, 255):
        for st in statuses:
            r = Result("x", rc, st, 0.0)
            got = (bool(r.is_successful()), bool(r.is_failed()), bool(r.is_canceled()))
            cmp_.add(f"({cZ(rc)}, {cstr(st)})", "(" + ", ".join(cbool(b) for b in got) + ")", {"rc": rc, "status": st, "impl": got})
            chk.count(("cls", rc, st))
            if st in ("finished", "canceled") and not (st == "canceled" and rc == 0) and sum(got) != 1:
                chk.violation("row-classification", f"a result with code {rc} status {st} is classified {got} (successful, failed, canceled)",
                              {"component": "Result.is_successful/is_failed/is_canceled", "return_code": rc, "status": st})
    for e in JobCompletionStatus:     # an enum status is stored as its value
        if Result("x", 1, e, 0.0).status != e.value:
            chk.violation("result-status-value", "Result does not store the status value", {"status": e.name})
    bad = cmp_.run()
    chk.oblige("correspondence Result predicates vs Gen/ResultGen.v (%d cases)" % len(cmp_.cases), not bad, "first differing: %s" % bad[:5])
    _tie(chk, cmp_, bad, "correspondence ResultGen predicates vs jade.result.Result")


# ---------------------------------------------------------------------------------------------
def run_sub(chk, tmp, extra_cases=()):
    n = 260 if chk.tier == "quick" else 5000
    cases = cd.directed_sub_cases()
    for k in range(n):
        cases.append(cd.gen_sub_case(chk.rng, arbitrary=(k % 4 == 3)))
    cmp_ = core.CoqCompare("c04_sub", cd.IMPORTS, cd.SUB_FN, cd.SUB_EQB, cd.SUB_IN, cd.SUB_OUT, shard=200)
    dist = {"cases": 0, "with_cancel": 0, "iterations": {}, "multi_portion": 0, "chains(>=2 canceled)": 0}
    for k, case in enumerate(cases):
        obs = cd.run_sub_case(case, tmp, chk.rng)
        for sig, msg in cd.sub_oracle(case, obs):
            chk.violation(sig, msg, {"component": "HpcSubmitter._update_completed_jobs", "kind": "sub", "case": case, "impl_observation": obs})
        inp, exp = cd.sub_terms(case, obs)
        cmp_.add(inp, exp, {"case": case, "impl": obs})
        chk.count(("sub", json.dumps(case, sort_keys=True)), nontrivial=bool(obs["canceled"]) or len(obs["newly"]) >= 2)
        dist["cases"] += 1
        dist["with_cancel"] += bool(obs["canceled"])
        dist["chains(>=2 canceled)"] += len(obs["canceled"]) >= 2
        dist["iterations"][obs["iterations"]] = dist["iterations"].get(obs["iterations"], 0) + 1
        dist["multi_portion"] += len(case["feeds"]) > 1
        if k in (0, 4):
            chk.sample({"kind": "sub", "case": case, "impl": {k2: obs[k2] for k2 in ("newly", "canceled", "iterations", "cancel_rows")}})
    for case, obs in extra_cases:
        inp, exp = cd.sub_terms(case, obs)
        cmp_.add(inp, exp, {"case": case, "impl": obs, "from": "whole submission"})
    bad = cmp_.run()
    chk.oblige("correspondence Cancel.update_completed vs HpcSubmitter._update_completed_jobs (%d calls, %d of them inside whole submissions)"
               % (len(cmp_.cases), len(extra_cases)), not bad, "first differing: %s" % bad[:5])
    _tie(chk, cmp_, bad, "correspondence Cancel.update_completed vs HpcSubmitter._update_completed_jobs")
    chk.notes.setdefault("input_distribution", {})["submitter_level"] = dist


# ---------------------------------------------------------------------------------------------
def run_node(chk, tmp):
    n = 140 if chk.tier == "quick" else 2500
    cmp_ = core.CoqCompare("c04_node", cd.IMPORTS, cd.NODE_FN, cd.NODE_EQB, cd.NODE_IN, cd.NODE_OUT, shard=300)
    dist = {"batches": 0, "calls": 0, "calls_with_cancel": 0, "calls_multi_iteration": 0, "outside_blocker": 0}
    directed = [
        {"batch": [{"name": "j3", "blocking": ["j2"], "flag": True, "rc": 0}, {"name": "j2", "blocking": ["j1"], "flag": True, "rc": 0},
                   {"name": "j1", "blocking": [], "flag": False, "rc": 2}], "depth": 2, "seed": 1},
        {"batch": [{"name": "j1", "blocking": [], "flag": False, "rc": 1}, {"name": "j2", "blocking": ["j1"], "flag": False, "rc": 0},
                   {"name": "j3", "blocking": ["j2"], "flag": True, "rc": 0}], "depth": 1, "seed": 2},
        {"batch": [{"name": "j4", "blocking": ["j2", "j3"], "flag": True, "rc": 0}, {"name": "j2", "blocking": ["j1"], "flag": True, "rc": 0},
                   {"name": "j3", "blocking": ["j1"], "flag": False, "rc": 0}, {"name": "j1", "blocking": [], "flag": False, "rc": -9}],
         "depth": 3, "seed": 3},
        {"batch": [{"name": "j1", "blocking": [], "flag": True, "rc": 0}, {"name": "j2", "blocking": [], "flag": True, "rc": 3},
                   {"name": "j3", "blocking": [], "flag": True, "rc": 0}], "depth": 1, "seed": 4},      # queued only because the node is full
    ]
    cases = directed + [cd.gen_node_case(chk.rng, arbitrary=(k % 5 == 4)) for k in range(n)]
    for k, case in enumerate(cases):
        calls, summary = cd.run_node_case(case, tmp)
        for sig, msg in cd.node_oracle(case, calls, summary):
            chk.violation(sig, msg, {"component": "JobQueue._check_completions / AsyncCliCommand.cancel", "kind": "node", "case": case,
                                     "impl_observation": summary})
        for call in calls:
            inp, exp = cd.node_terms(call)
            cmp_.add(inp, exp, {"case": case, "call": call})
            canc = sum(1 for r in call["rows"] if r[2] == "canceled")
            chk.count(("node", json.dumps(call, sort_keys=True)), nontrivial=bool(call["rows"]))
            dist["calls"] += 1
            dist["calls_with_cancel"] += bool(canc)
            dist["calls_multi_iteration"] += canc >= 1 and len(call["queued0"]) - len(call["queued1"]) >= 2
        dist["batches"] += 1
        dist["outside_blocker"] += any("ghost" in b["blocking"] for b in case["batch"])
        if k == 0:
            chk.sample({"kind": "node", "case": case, "impl": summary})
    bad = cmp_.run()
    chk.oblige("correspondence Cancel.check_completions vs JobQueue._check_completions (%d calls in %d batches)"
               % (len(cmp_.cases), dist["batches"]), not bad, "first differing: %s" % bad[:5])
    _tie(chk, cmp_, bad, "correspondence Cancel.check_completions vs JobQueue._check_completions")
    chk.notes.setdefault("input_distribution", {})["node_level"] = dist


# ---------------------------------------------------------------------------------------------
def small_exhaustive_e2e(max_n):
    """all DAGs over <= max_n jobs in listing order j1..jn with edges in both listing directions (a fixed
    topological order per edge set is not imposed: every acyclic edge set), all flag vectors, exit codes 0/1"""
    for n in range(2, max_n + 1):
        names = cd.JOBNAMES[:n]
        pairs = [(a, b) for a in names for b in names if a != b]
        for mask in range(1 << len(pairs)):
            deps = {x: [] for x in names}
            for k, (a, b) in enumerate(pairs):
                if mask >> k & 1:
                    deps[a].append(b)
            # acyclic?
            seen, ok = {}, True

            def visit(x):
                nonlocal ok
                if seen.get(x) == 1:
                    ok = False
                    return
                if seen.get(x) == 2:
                    return
                seen[x] = 1
                for d in deps[x]:
                    visit(d)
                seen[x] = 2
            for x in names:
                visit(x)
            if not ok or not any(deps.values()):
                continue
            for flags in itertools.product([False, True], repeat=n):
                if not any(flags):
                    continue
                for rcs in itertools.product([0, 1], repeat=n):
                    if not any(rcs):
                        continue
                    jobs = [{"name": x, "deps": deps[x], "cancel": f, "rc": r, "group": "g"} for x, f, r in zip(names, flags, rcs)]
                    for size, tr in ((1, True), (2, True), (500, True), (2, False)):
                        yield {"jobs": jobs, "groups": [{"name": "g", "size": size, "try": tr, "time": False}], "max_nodes": None,
                               "depth": 1 + (mask % 2), "node_p": 1.0, "seed": mask}


def run_e2e(chk, tmp):
    n = 70 if chk.tier == "quick" else 1500
    scs = cd.directed_e2e()
    for k in range(n):
        scs.append(cd.gen_e2e(chk.rng, shape=[None, None, None, "chain", "diamond"][k % 5]))
    if chk.tier == "thorough":
        scs += list(small_exhaustive_e2e(3))
    else:
        ex = list(small_exhaustive_e2e(3))
        scs += chk.rng.sample(ex, 60)
    ref_cmp = core.CoqCompare("c04_ref", cd.IMPORTS, "fun sc => map (fun j => reference sc (jname j)) sc", "list_eqb outcome_eqb",
                              "scenario", "list outcome", shard=400)
    dist = {"submissions": 0, "rounds": {}, "with_canceled": 0, "canceled_at_submitter": 0, "canceled_total": 0, "batch_sizes": {},
            "try_add_blocked": 0}
    sub_calls = []
    for k, sc in enumerate(scs):
        obs = cd.run_e2e(sc, tmp)
        for sig, msg in cd.e2e_oracle(sc, obs):
            chk.violation("e2e-" + sig, msg, {"component": "whole submission (HpcSubmitter.run rounds + JobQueue.run_jobs per batch)",
                                              "kind": "e2e", "scenario": sc,
                                              "impl_observation": {k2: v for k2, v in obs.items() if k2 != "sub_calls"}})
        ref = cd.reference(sc["jobs"])
        ref_cmp.add(cd.scenario_term(sc["jobs"]),
                    clist(["Canceled" if ref[j["name"]][1] == "canceled" else f"(Finished {cZ(ref[j['name']][0])})" for j in sc["jobs"]]),
                    {"scenario": sc["jobs"], "python_reference": ref})
        ncanc = sum(1 for r in obs.get("rows", []) if r[2] == "canceled")
        at_sub = sum(len(o["canceled"]) for _, o in obs["sub_calls"])
        chk.count(("e2e", json.dumps(sc, sort_keys=True)), nontrivial=ncanc > 0)
        dist["submissions"] += 1
        dist["rounds"][obs["rounds"]] = dist["rounds"].get(obs["rounds"], 0) + 1
        dist["with_canceled"] += ncanc > 0
        dist["canceled_total"] += ncanc
        dist["canceled_at_submitter"] += at_sub
        sz = sc["groups"][0]["size"]
        dist["batch_sizes"][sz] = dist["batch_sizes"].get(sz, 0) + 1
        dist["try_add_blocked"] += bool(sc["groups"][0]["try"])
        for case, o in obs["sub_calls"]:
            if o["canceled"] or len(sub_calls) < 400:
                sub_calls.append((case, o))
        if k in (2, 8):
            chk.sample({"kind": "e2e", "scenario": sc, "impl": {"rows": obs.get("rows"), "launched": obs.get("launched"), "rounds": obs["rounds"]}})
    dist["canceled_on_nodes"] = dist["canceled_total"] - dist["canceled_at_submitter"]
    bad = ref_cmp.run()
    chk.oblige("Cancel.reference = the Python reference used by the oracles (%d scenarios)" % len(ref_cmp.cases), not bad,
               "first differing: %s" % bad[:5])
    _tie(chk, ref_cmp, bad, "Cancel.reference vs harness reference")
    chk.notes.setdefault("input_distribution", {})["whole_submissions"] = dist
    return sub_calls


def _component_run(chk):
    proofs_ok = core.standard_proof_phase(chk, "C04", gen_needed=("ResultGen",))
    logging.disable(logging.CRITICAL)
    tmp = tempfile.mkdtemp(prefix="verif_c04_")
    model_ok = (core.THEORIES / "Cancel.vo").exists()
    try:
        sub_calls = []
        try:
            sub_calls = run_e2e(chk, tmp) if model_ok else []
        except core.BuildError as e:
            chk.oblige("coqc evaluation in run_e2e", False, str(e) + e.log[-800:])
            chk.tie_broken("model evaluation failed in run_e2e", e.log[-1200:])
        for part in (run_classify, lambda c, t: run_sub(c, t, sub_calls), run_node):
            if not model_ok:
                break
            try:
                part(chk, tmp)
            except core.BuildError as e:
                chk.oblige("coqc evaluation", False, str(e) + e.log[-800:])
                chk.tie_broken("model evaluation failed", e.log[-1200:])
        if not model_ok:
            # the model does not build (e.g. translator failed closed): still search the real code for a failing input
            for sc in cd.directed_e2e() + [cd.gen_e2e(chk.rng) for _ in range(150)]:
                obs = cd.run_e2e(sc, tmp)
                for sig, msg in cd.e2e_oracle(sc, obs):
                    chk.violation("e2e-" + sig, msg, {"kind": "e2e", "scenario": sc,
                                                      "impl_observation": {k2: v for k2, v in obs.items() if k2 != "sub_calls"}})
            for case in cd.directed_sub_cases() + [cd.gen_sub_case(chk.rng) for _ in range(200)]:
                obs = cd.run_sub_case(case, tmp, chk.rng)
                for sig, msg in cd.sub_oracle(case, obs):
                    chk.violation(sig, msg, {"kind": "sub", "case": case, "impl_observation": obs})
    finally:
        shutil.rmtree(tmp, ignore_errors=True)
    chk.notes["rule"] = ("cases = single calls of the submitter-level loop (random cluster states, results handed over in 1-3 portions, "
                         "directed chains/diamonds, dependents listed first, an arbitrary-state stream with duplicate rows and unknown names), "
                         "every _check_completions call of scripted node runs (random DAG batches, depth 1-8, process ends between loop "
                         "iterations, blockers outside the batch), whole submissions (random/chain/diamond DAGs, batch sizes 1..500, "
                         "try-add-blocked on/off, max-nodes, nodes run late) incl. a sample (quick) / all (thorough) of the DAGs on <= 3 jobs "
                         "x flags x exit codes x 4 batchings; non-trivial = something was canceled / several completions; distinct by content hash")
    chk.coverage["rule"] = chk.notes["rule"]
    chk.assumptions += ["one result row per job name reaches the submitter (C08/C01) - hypothesis `rows_unique` of update_completed_cancels_iff",
                        "blockers of a batched job are in the same batch (C07 contract of _make_batch) - guard of the Batch step in c04_level_agnostic",
                        "fault-free runs: no node or submitter dies between writing a row and recording it (C11/C12)",
                        "single-node batches (is_manager_node = True)"]


def _component_replay(path):
    core.ensure_env()
    logging.disable(logging.CRITICAL)
    obj = json.load(open(path))
    print(json.dumps({k: v for k, v in obj.items() if k != "impl_observation"}, indent=1)[:3000])
    tmp = tempfile.mkdtemp(prefix="verif_c04_replay_")
    try:
        if obj.get("kind") == "failing-input" and "scenario" in obj:
            obs = cd.run_e2e(obj["scenario"], tmp)
            probs = cd.e2e_oracle(obj["scenario"], obs)
            print("rows:", obs.get("rows"), "\nlaunched:", obs.get("launched"), "\nreference:", cd.reference(obj["scenario"]["jobs"]))
        elif "case" in obj and "batch" in obj["case"]:
            calls, summary = cd.run_node_case(obj["case"], tmp)
            probs = cd.node_oracle(obj["case"], calls, summary)
            print("summary:", summary)
        elif "case" in obj:
            case = obj["case"]
            case["feeds"] = [[tuple(r) for r in f] for f in case["feeds"]]
            obs = cd.run_sub_case(case, tmp)
            probs = cd.sub_oracle(case, obs)
            print("observation:", obs)
        else:
            print("nothing to re-run (no concrete input in this file)")
            return 0
        for sig, msg in probs:
            print("FAILS:", sig, "-", msg)
        return 1 if probs else 0
    finally:
        shutil.rmtree(tmp, ignore_errors=True)


# ------------------------------------------------------------------------------------------------
# system level (added by the coordinator): the real code in the virtual cluster, impl traces accepted
# by System.step, Coq monitors and Python oracles (harness/syscheck.py)
def run(chk):
    _component_run(chk)
    from harness import syscheck
    core.extra_props_phase(chk, "C04_system")
    syscheck.system_phase(chk, "C04", {'plain': 6, 'sbatchfail': 1, 'local': 1, 'resubmit': 8}, n_quick=160, n_thorough=2500, also=())


def replay(path):
    import json as _json
    try:
        obj = _json.load(open(path))
    except Exception:  # noqa
        obj = {}
    if isinstance(obj, dict) and "scenario" in obj and "schedule" in obj and "plan" in obj:
        from harness import syscheck
        return syscheck.replay_case(path)
    return _component_replay(path)
