"""C03 - final results are complete and independent of schedule and batching
Proofs: coq/theories/Props/C03.v over the system model (System.v) - every accepted trace.
Tie: the real jade code runs in the virtual cluster (harness/vcluster.py) under generated scenarios,
schedules and faults; every impl trace must be accepted by System.step (coqc vm_compute) and satisfy the
Coq monitors; Python oracles judge impl's trace and final state directly (harness/syscheck.py)."""
from harness import core, syscheck

MODES = {'plain': 5, 'racing_try': 4, 'local': 2, 'hooks': 1}


def run(chk):
    ok = core.standard_proof_phase(chk, "C03", gen_needed=("ResultGen",))
    chk.notes["system_theorems"] = ["c03_rows_are_reference_partial", "c03_independent", "c03_summary_faithful", "c03_complete_when_fault_free", "c03_rows_consistent", "c03_final_results_independent", "c03_acyclicb_sound", "c03_complete_when_checked", "c03_rows_are_the_reference", "c03_final_results_are_the_reference"]
    chk.notes["partial"] = "proved: rows = reference outcome, independence, summary faithful, completeness of every fault-free acyclic run that reaches its summary (c03_complete_when_fault_free; hypothesis SystemFault.fault_free evaluated on every fault-free impl trace). NOT proved in Coq: that the run reaches the summary (termination; acceptor has no scheduling) and local mode (outside the system model): decided on impl by the oracle results == reference evaluation over all explored schedules, parameter sets and local mode; exit status propagation is C19"
    syscheck.system_phase(chk, "C03", MODES, n_quick=200, n_thorough=4000, also=("C04",), directed=("try_races_with_last_node", "collector_reads_running_batch"))


def replay(path):
    return syscheck.replay_case(path)
