"""C09 - persisted status is always consistent and only moves forward.
Proofs: coq/theories/Props/C09.v over the model Status.v (jade/jobs/cluster.py status bookkeeping).
Correspondence: histories of operations through the real Cluster on real directories, files re-read
through the public API after every operation, against Status.trace evaluated by coqc; whole submitter
rounds through the real HpcSubmitter.run validate the round preconditions (round_ok).
Search for failing inputs: status_inv / monotonicity oracles in Python over impl's own snapshots."""
import json
import logging
import shutil
import tempfile

from harness import core, statusdrv as sd


def _cmp_trace(name):
    return core.CoqCompare(name, sd.IMPORTS, sd.TRACE_FN, "trace_eqb", sd.TRACE_IN, sd.TRACE_OUT, shard=60)


def _cmp_ok(name):
    return core.CoqCompare(name, sd.IMPORTS, "fun c => run_ok (create (fst c)) (snd c)", "Bool.eqb",
                           sd.TRACE_IN, "bool", shard=120)


def _inp(spec, ops):
    return f"({sd.spec_term(spec)}, {core.clist([sd.op_term(o) for o in ops])})"


def _finish_cmp(chk, cmp_, what, which):
    bad = cmp_.run()
    chk.oblige("correspondence %s (%d histories)" % (what, len(cmp_.cases)), not bad, "first differing: %s" % bad[:5])
    for i in bad[:3]:
        chk.tie_broken(which, json.dumps({"case": cmp_.cases[i][2], **cmp_.show(i)}, default=str)[:3000])
    return bad


def _report(chk, problems, component, spec, ops, snaps, err):
    for sig, msg in problems:
        chk.violation(sig, msg, {"component": component, "spec": spec, "ops": ops, "impl_snapshots": snaps, "impl_error": err})


def part_enum(chk):
    from jade.models import JobState
    members = [(m.name, m.value) for m in JobState]
    chk.oblige("JobState has exactly NOT_SUBMITTED/SUBMITTED/DONE",
               members == [("NOT_SUBMITTED", "not_submitted"), ("SUBMITTED", "submitted"), ("DONE", "done")], str(members))
    if members != [("NOT_SUBMITTED", "not_submitted"), ("SUBMITTED", "submitted"), ("DONE", "done")]:
        chk.tie_broken("JobState vocabulary differs from Status.jstate", str(members))


def part_histories(chk, tmp):
    rng = chk.rng
    quick = chk.tier == "quick"
    cmp_t = _cmp_trace("c09_trace")
    cmp_ok = _cmp_ok("c09_runok")
    dist = {"directed": 0, "valid": 0, "malformed": 0, "ops": {}, "errors": {}, "malformed_kinds": {}, "lengths": {},
            "valid_with_cancel": 0, "valid_with_resubmit": 0, "valid_completed": 0}

    def note_ops(ops, err):
        for o in ops:
            dist["ops"][o["op"]] = dist["ops"].get(o["op"], 0) + 1
        dist["errors"][str(err)] = dist["errors"].get(str(err), 0) + 1
        dist["lengths"][len(ops)] = dist["lengths"].get(len(ops), 0) + 1

    # directed
    for label, spec, ops, valid in sd.directed_histories():
        mid = []
        snaps, err = sd.run_history(spec, ops, tmp, mid)
        done_ops = ops[:len(snaps) - 1 + (1 if err else 0)]
        cmp_t.add(_inp(spec, done_ops), sd.trace_term(snaps, err), {"label": label, "spec": spec, "ops": done_ops, "impl_error": err,
                                                                    "impl_last": snaps[-1]})
        if valid:
            _report(chk, sd.unlocked_problems(ops, mid), "Cluster (directed history %s, reader scheduled after an unlocked write)" % label,
                    spec, ops, [m[2] for m in mid], err)
            rows_after = [set()]
            for o in ops[:len(snaps) - 1]:
                r = set(rows_after[-1])
                if o["op"] == "round":
                    r |= set(o["new_rows"])
                elif o["op"] == "resubmit":
                    r -= set(o["rerun"])
                rows_after.append(r)
            _report(chk, sd.history_problems(ops, snaps, err, rows_after), "Cluster (directed history %s)" % label, spec, ops, snaps, err)
            cmp_ok.add(_inp(spec, done_ops), "true", {"label": label, "spec": spec, "ops": done_ops})
        chk.count(("directed", label))
        dist["directed"] += 1
        note_ops(done_ops, err)
    # valid random histories
    n_valid = 120 if quick else 2500
    for k in range(n_valid):
        spec, ops, snaps, err, rows_after, mid = sd.gen_valid_history(rng, tmp, max_ops=10 if quick else 14)
        _report(chk, sd.history_problems(ops, snaps, err, rows_after), "Cluster (history of valid operations)", spec, ops, snaps, err)
        _report(chk, sd.unlocked_problems(ops, mid), "Cluster (history of valid operations, reader scheduled after an unlocked write)",
                spec, ops, [m[2] for m in mid], err)
        dist["unlocked_writes_probed"] = dist.get("unlocked_writes_probed", 0) + len(mid)
        cmp_t.add(_inp(spec, ops), sd.trace_term(snaps, err), {"kind": "valid", "spec": spec, "ops": ops, "impl_error": err,
                                                               "impl_last": snaps[-1]})
        cmp_ok.add(_inp(spec, ops), "true", {"kind": "valid", "spec": spec, "ops": ops})
        chk.count(("valid", json.dumps(spec), json.dumps(ops)), nontrivial=len(ops) >= 2)
        dist["valid"] += 1
        dist["valid_with_cancel"] += any(o["op"] == "round" and o["canceled"] for o in ops)
        dist["valid_with_resubmit"] += any(o["op"] == "resubmit" for o in ops)
        dist["valid_completed"] += any(o["op"] == "mark_complete" for o in ops)
        note_ops(ops, err)
        if k in (3, 17):
            chk.sample({"kind": "valid history", "spec": spec, "ops": ops, "impl_last_snapshot": snaps[-1]})
    # malformed stream
    n_bad = 120 if quick else 2500
    for k in range(n_bad):
        spec, ops, snaps, err, kinds = sd.gen_malformed_history(rng, tmp)
        cmp_t.add(_inp(spec, ops), sd.trace_term(snaps, err), {"kind": "malformed", "mutations": kinds, "spec": spec, "ops": ops,
                                                               "impl_error": err, "impl_last": snaps[-1]})
        chk.count(("malformed", json.dumps(spec), json.dumps(ops)), nontrivial=bool(kinds))
        dist["malformed"] += 1
        for kd in kinds:
            dist["malformed_kinds"][kd] = dist["malformed_kinds"].get(kd, 0) + 1
        note_ops(ops, err)
        if k == 5:
            chk.sample({"kind": "malformed history", "mutations": kinds, "spec": spec, "ops": ops, "impl_error": err})
    _finish_cmp(chk, cmp_t, "Status.trace vs real Cluster operations, files re-read after every operation",
                "correspondence Status.trace vs jade.jobs.cluster.Cluster")
    _finish_cmp(chk, cmp_ok, "generated valid histories satisfy Status.run_ok (the theorems' hypothesis)",
                "valid-history generator vs Status.run_ok")
    chk.notes.setdefault("input_distribution", {})["histories"] = dist


def part_submissions(chk, tmp):
    """whole submissions through the real JobSubmitter / HpcSubmitter.run / resubmit-jobs helpers: the
    recorded Cluster calls must satisfy run_ok (that is: round_ok is what real rounds guarantee) and
    match the model; the oracles judge impl's snapshots and the real processed-results file"""
    rng = chk.rng
    quick = chk.tier == "quick"
    cmp_t = _cmp_trace("c09_sub_trace")
    cmp_ok = _cmp_ok("c09_sub_runok")
    dist = {"submissions": 0, "rounds": 0, "rounds_with_cancel": 0, "rounds_with_completion": 0, "resubmissions": 0,
            "partial_resubmissions": 0, "cancels": 0, "batches_died": 0, "round_exceptions": 0, "forced_completions": 0}
    runs = []
    for label, spec, sc, script in sd.directed_submissions():
        runs.append((label, sd.run_submission(rng, tmp, spec, sc, script)))
    for k in range(40 if quick else 600):
        runs.append(("random", sd.run_submission(rng, tmp, max_procs=10 if quick else 14)))
    for label, r in runs:
        ops, snaps = r["ops"], r["snaps"]
        comp = "real submission (%s): JobSubmitter/HpcSubmitter.run/resubmit-jobs on a scripted SLURM" % label
        probs = sd.history_problems(ops, snaps, None, r["rows_after"])
        if r["error"]:
            probs.append(("round-exception", "a submitter process died: " + r["error"]))
            dist["round_exceptions"] += 1
        probs += sd.unlocked_problems(ops + [{"op": "?"}], r["mid"])
        for ev in r["events"]:
            if ev[0] == "unexpected-premutation":
                probs.append(("unexpected-premutation", "job %s changed state %s -> %s before update_job_status without being canceled" % ev[1:]))
        for sig, msg in probs:
            chk.violation(sig, msg, {"component": comp, "spec": r["spec"], "scenario": r["scenario"], "ops": ops,
                                     "impl_snapshots": snaps, "impl_error": r["error"], "events": r["events"]})
        cmp_t.add(_inp(r["spec"], ops), sd.trace_term(snaps, None), {"label": label, "scenario": r["scenario"], "ops": ops,
                                                                   "impl_last": snaps[-1]})
        cmp_ok.add(_inp(r["spec"], ops), "true", {"label": label, "scenario": r["scenario"], "ops": ops})
        rounds = [o for o in ops if o["op"] == "round"]
        chk.count(("submission", json.dumps(r["scenario"], sort_keys=True), json.dumps(ops)), nontrivial=len(rounds) >= 2)
        dist["submissions"] += 1
        dist["rounds"] += len(rounds)
        dist["rounds_with_cancel"] += sum(1 for o in rounds if o["canceled"])
        dist["rounds_with_completion"] += sum(1 for o in rounds if o["completed"])
        dist["resubmissions"] += sum(1 for o in ops if o["op"] == "resubmit")
        dist["partial_resubmissions"] += sum(1 for o in ops if o["op"] == "resubmit" and o.get("partial"))
        dist["cancels"] += sum(1 for o in ops if o["op"] == "mark_canceled")
        dist["batches_died"] += sum(1 for e in r["events"] if e[0] == "batch-died")
        dist["forced_completions"] += sum(1 for i, o in enumerate(ops) if o["op"] == "mark_complete"
                                          and any(j["state"] != "done" for j in snaps[i + 1]["jobs"]))
        if label == "random" and dist["submissions"] == 5:
            chk.sample({"kind": "real submission", "scenario": r["scenario"], "ops": ops})
    _finish_cmp(chk, cmp_t, "Status.trace vs whole submissions through the real HpcSubmitter.run / JobSubmitter / resubmit-jobs helpers",
                "correspondence Status.trace vs Cluster as driven by HpcSubmitter.run")
    _finish_cmp(chk, cmp_ok, "the Cluster calls of real submissions satisfy Status.run_ok (round_ok holds for real rounds)",
                "round_ok vs real HpcSubmitter.run rounds")
    chk.notes.setdefault("input_distribution", {})["submissions"] = dist


def part_exhaustive(chk, tmp):
    """every round over a two-job table (2520 combinations of arguments and pre-mutations from five base
    states): thorough = all, quick = a sample"""
    cases = list(sd.exhaustive_rounds())
    total = len(cases)
    if chk.tier == "quick":
        cases = chk.rng.sample(cases, 150)
    cmp_t = _cmp_trace("c09_exh")
    errs = {}
    for spec, ops in cases:
        snaps, err = sd.run_history(spec, ops, tmp)
        done_ops = ops[:len(snaps) - 1 + (1 if err else 0)]
        cmp_t.add(_inp(spec, done_ops), sd.trace_term(snaps, err), {"kind": "exhaustive", "spec": spec, "ops": done_ops,
                                                                    "impl_error": err, "impl_last": snaps[-1]})
        chk.count(("exh", json.dumps(ops)))
        errs[str(err)] = errs.get(str(err), 0) + 1
    _finish_cmp(chk, cmp_t, "Status.trace vs Cluster.update_job_status, small scope (%d of %d argument combinations)" % (len(cases), total),
                "correspondence Status.round vs Cluster._update_job_status (small scope)")
    chk.notes.setdefault("input_distribution", {})["exhaustive_rounds"] = {"total": total, "run": len(cases), "outcomes": errs}
    chk.notes["exhaustive_two_job_rounds"] = (chk.tier != "quick")


def part_regression_old_resubmit(chk, tmp):
    """the model of prepare_for_resubmission before /repo commit ce6353a must DISAGREE with impl on its
    witness (Props/C09.v c09_resubmit_old_formula_refuted)"""
    J = lambda n: {"name": n, "deps": [], "cancel": False}
    R = lambda **kw: dict({"op": "round", "pre": [], "submitted": [], "blocked": [], "canceled": [], "completed": [],
                           "hpc": [], "batch": 2, "new_rows": [], "aliased": True}, **kw)
    spec = [J("j1"), J("j2")]
    ops = [R(submitted=["j1"], hpc=["100"]), {"op": "mark_canceled"}, R(), {"op": "mark_complete"},
           {"op": "resubmit", "rerun": [], "upd": {}}]
    snaps, err = sd.run_history(spec, ops, tmp)
    _report(chk, sd.history_problems(ops, snaps, err), "Cluster.prepare_for_resubmission (witness of the repaired miscount)",
            spec, ops, snaps, err)
    cmp_ = core.CoqCompare(
        "c09_old_resubmit", sd.IMPORTS + "\nFrom Jade Require Import StatusProofs.",
        "fun _ : unit => match run (create old_witness_spec) old_witness_ops with "
        "| Ok s => match prepare_for_resubmission_old s [] [] with Ok s' => c_submitted (st_cfg s') | Err _ => (-1)%Z end "
        "| Err _ => (-2)%Z end",
        "fun a b => negb (Z.eqb a b)", "unit", "Z")
    cmp_.add("tt", core.cZ(snaps[-1]["submitted_jobs"] if err is None else -3), {"spec": spec, "ops": ops, "impl_last": snaps[-1]})
    bad = cmp_.run()
    chk.oblige("regression: impl disagrees with the pre-ce6353a model of prepare_for_resubmission on its witness", not bad,
               "impl submitted_jobs=%s" % snaps[-1]["submitted_jobs"])
    if bad:
        chk.tie_broken("impl agrees again with the refuted pre-ce6353a model of prepare_for_resubmission",
                       json.dumps({"spec": spec, "ops": ops, "impl_last": snaps[-1]})[:1500])
    chk.count(("regression-old-resubmit",))


def _component_run(chk):
    proofs_ok = core.standard_proof_phase(chk, "C09", gen_needed=("_none_",))
    logging.disable(logging.CRITICAL)
    tmp = tempfile.mkdtemp(prefix="verif_c09_")
    try:
        parts = [part_enum, lambda c: part_histories(c, tmp), lambda c: part_regression_old_resubmit(c, tmp), lambda c: part_exhaustive(c, tmp),
                 lambda c: part_submissions(c, tmp)]
        for part in parts:
            if not proofs_ok and not (core.THEORIES / "Status.vo").exists():
                break
            try:
                part(chk)
            except core.BuildError as e:
                chk.oblige("coqc evaluation in correspondence", False, str(e) + e.log[-800:])
                chk.tie_broken("model evaluation failed", e.log[-1500:])
    finally:
        shutil.rmtree(tmp, ignore_errors=True)
    chk.notes["schedule_probe"] = dict(sd.PROBE, what="status files written by Cluster while the lock file is absent are followed "
                                       "by a reader's observation, judged by the status_inv oracle")
    chk.notes["rule"] = ("cases = histories (job table + operations) executed on the real Cluster; directed lifecycles, random "
                         "histories of operations satisfying the round preconditions, a malformed stream breaking one "
                         "precondition per operation; non-trivial = at least two operations (valid) / at least one broken "
                         "precondition (malformed); distinct by content hash")
    chk.coverage["rule"] = chk.notes["rule"]
    chk.assumptions += ["every Cluster operation is one lock hold in the model; checked on impl by the schedule probe (reader after "
                        "every unlocked write), not proved",
                        "one live Cluster object at a time (stale objects / concurrent writers are C10)",
                        "hash(json) equality modelled as content equality (no hash collisions)",
                        "job names unique in the configuration (JobConfiguration.add_job enforces it)"]


def _component_replay(path):
    obj = json.load(open(path))
    print(json.dumps({k: v for k, v in obj.items() if k not in ("impl_snapshots",)}, indent=1)[:3000])
    if "spec" in obj and "ops" in obj:
        logging.disable(logging.CRITICAL)
        tmp = tempfile.mkdtemp(prefix="verif_c09_replay_")
        try:
            snaps, err = sd.run_history(obj["spec"], obj["ops"], tmp)
            probs = sd.history_problems(obj["ops"], snaps, err)
            print("replayed on", core.REPO, "->", "error=%s" % err, "problems:")
            for sig, msg in probs:
                print("  ", sig, "-", msg)
            print("last snapshot:", json.dumps(snaps[-1])[:1500])
            return 1 if probs else 0
        finally:
            shutil.rmtree(tmp, ignore_errors=True)
    return 0


# ------------------------------------------------------------------------------------------------
# system level (added by the coordinator): the real code in the virtual cluster, impl traces accepted
# by System.step, Coq monitors and Python oracles (harness/syscheck.py)
def run(chk):
    _component_run(chk)
    from harness import syscheck
    core.extra_props_phase(chk, "C09_system")
    syscheck.system_phase(chk, "C09", {'plain': 5, 'racing_try': 2, 'cancel': 2, 'sbatchfail': 1, 'resubmit_nofault': 3}, n_quick=140, n_thorough=2500, also=())


def replay(path):
    import json as _json
    try:
        obj = _json.load(open(path))
    except Exception:  # noqa
        obj = {}
    if isinstance(obj, dict) and "scenario" in obj and "schedule" in obj and "plan" in obj:
        from harness import syscheck
        return syscheck.replay_case(path)
    return _component_replay(path)
