"""C15 - pipeline stages run strictly in order, each exactly once.

Proofs: coq/theories/Props/C15.v over the model Pipeline.v, whose integer constants and hand-over
order are regenerated from /repo (harness/gen/pipeline.py -> Gen/PipelineGen.v).
Correspondence: the real PipelineManager / `jade pipeline submit` / `submit-next-stage` click
callbacks / JobSubmitter._handle_completion (harness/pipelinedrv.py) against the model, compared by coqc.
Search for failing inputs: property oracles in Python over impl's own outputs (below)."""
import itertools
import json
import logging
import os
import shutil
import tempfile

from harness import core
from harness import pipelinedrv as drv

IMPORTS = "From Coq Require Import String List ZArith Bool.\nFrom Jade Require Import Pipeline."
REJECTED = ("RErrExists", "RErrNoPipeline", "RErrAssert", "RErrInvalidParameter", "RErrIndexRc")
G = drv.GOOD_ENV


# ------------------------------------------------------------------------------------------------
# property oracles over impl's outputs (no model involved)
# ------------------------------------------------------------------------------------------------
def oracle_history(ops, steps, summary, cli_only=True):
    """-> list of (signature, what, detail).  ops as given, steps = [(result, obs, events, excname)]."""
    bad = []
    n = None
    accepted = {}          # k -> rc of the accepted submit-next-stage k
    accepted_order = []
    prev = None
    envs_ok = True
    for i, (op, (res, obs, evs, exc)) in enumerate(zip(ops, steps)):
        env = op[-1]
        if op[0] == "submit" and prev is None and obs is not None:
            n = len(op[1])
        rejected = res[0] in REJECTED
        # a rejected call changes nothing and submits nothing
        if rejected and (obs != prev or evs):
            bad.append(("rejected-call-changed-state", f"op {i} {op[:3]} was rejected ({exc}) but pipeline.json/events changed",
                        {"op_index": i, "before": prev, "after": obs, "events": evs}))
        if op[0] == "next" and op[2] is not None and not rejected:
            k, rc = op[1], op[2]
            if prev is None or k != prev[0] + 1:
                bad.append(("accepted-out-of-sequence", f"submit-next-stage {k} accepted while the current stage was "
                            f"{prev[0] if prev else None}", {"op_index": i, "before": prev, "after": obs}))
            if k in accepted:
                bad.append(("accepted-twice", f"submit-next-stage {k} accepted twice", {"op_index": i}))
            accepted.setdefault(k, rc)
            accepted_order.append(k)
        if not rejected and not (env["auto"] == "ok" and env["cfg"]):
            envs_ok = False
        if obs is not None and n is not None:
            stage, rcs, comp = obs
            want_rcs = [accepted.get(j + 1) for j in range(1, n + 1)]
            if rcs != want_rcs:
                bad.append(("return-codes-wrong", f"recorded return codes {rcs} but the accepted completions say {want_rcs}",
                            {"op_index": i, "accepted": accepted}))
            if stage != 1 + len(accepted_order):
                bad.append(("current-stage-wrong", f"stage_num {stage} after {len(accepted_order)} accepted completions",
                            {"op_index": i}))
            if comp != (n == 0 or (n + 1) in accepted):
                bad.append(("complete-flag-wrong", f"is_complete={comp} with accepted completions {sorted(accepted)} of {n} stages",
                            {"op_index": i, "obs": obs}))
            subs = [s["psn"] for s in summary["submissions"]]
            if comp and envs_ok and sorted(set(subs)) != list(range(1, n + 1)):
                bad.append(("complete-without-all-stages", f"pipeline complete but submitted stages are {subs}", {"op_index": i}))
        prev = obs
    if accepted_order != list(range(2, 2 + len(accepted_order))):
        bad.append(("completions-out-of-order", f"accepted submit-next-stage calls {accepted_order}", {}))
    for kind in ("submit", "auto", "read"):
        seq = [e[1] for e in summary["events"] if e[0] == kind]
        if any(b <= a for a, b in zip(seq, seq[1:])):
            bad.append((f"{kind}-repeated-or-out-of-order", f"stages at the {kind} boundary: {seq}", {"sequence": seq}))
        if n is not None and any(not (1 <= x <= n) for x in seq):
            bad.append((f"{kind}-out-of-range", f"stages at the {kind} boundary: {seq} (n={n})", {"sequence": seq}))
    subs = [s["psn"] for s in summary["submissions"]]
    if envs_ok and subs != list(range(1, len(subs) + 1)):
        bad.append(("submitted-not-a-prefix", f"submitted stages {subs} are not 1..m", {"submitted": subs}))
    for s in summary["submissions"]:
        if not (s["config_tag"] == s["psn"] and s["output"] == "output-stage%s" % s["psn"]):
            bad.append(("stage-mixup", f"run_submit_jobs got config of stage {s['config_tag']}, output {s['output']}, "
                        f"pipeline_stage_num {s['psn']}", {"submission": s}))
    return bad


def oracle_handover(world, n):
    bad = list(world.oracle_failures)
    evs = world.events
    for i, e in enumerate(evs):
        if e[0] in ("auto", "read", "submit") and e[1] > 1:
            if ("mark", e[1] - 1) not in evs[:i]:
                bad.append(("next-stage-before-complete", f"{e[0]} of stage {e[1]} before mark_complete of stage {e[1] - 1}",
                            {"events": evs, "index": i}))
            if ("submit", e[1] - 1) not in evs[:i]:
                bad.append(("next-stage-without-previous", f"{e[0]} of stage {e[1]} but stage {e[1] - 1} was never submitted",
                            {"events": evs, "index": i}))
    subs = [e[1] for e in evs if e[0] == "submit"]
    if subs != list(range(1, len(subs) + 1)):
        bad.append(("submitted-not-a-prefix", f"submitted stages {subs} are not 1..m", {"events": evs}))
    marks = getattr(world, "handover_marks", [])
    for i, m in enumerate(marks):
        if m[0] == "teardown" and not m[2]:
            bad.append(("teardown-before-results-summary", f"teardown of stage {m[1]} ran before results.json was written", {}))
        if m[0] == "mark_complete" and world.with_teardown:
            if not any(x[0] == "teardown" and x[1] == m[1] for x in marks[:i]):
                bad.append(("mark-complete-before-teardown", f"stage {m[1]} marked complete before its teardown command", {}))
    st = world.read_state()
    if st is not None and st[2]:
        for j in range(1, n + 1):
            if ("mark", j) not in evs or ("submit", j) not in evs:
                bad.append(("complete-without-all-stages", f"pipeline complete but stage {j} was not submitted+completed",
                            {"events": evs}))
    return bad


# ------------------------------------------------------------------------------------------------
# generators
# ------------------------------------------------------------------------------------------------
def rand_env(rng, p_bad):
    if rng.random() >= p_bad:
        return dict(G)
    r = rng.random()
    if r < 0.3:
        return dict(G, auto=rng.choice(["ret", "nofile"]))
    if r < 0.6:
        return dict(G, cfg=False)
    if r < 0.9:
        return dict(G, ret=rng.choice([1, 2, -1]))
    return {"auto": rng.choice(["ok", "ret", "nofile"]), "cfg": rng.random() < 0.5, "ret": rng.choice([0, 1])}


def rand_autos(rng, n):
    r = rng.random()
    if r < 0.35:
        return [True] * n
    if r < 0.6:
        return [False] * n
    return [rng.random() < 0.5 for _ in range(n)]


def rand_history(rng, kind):
    """kind: 'valid' (mostly the right calls, some noise), 'adversarial' (mostly wrong calls), 'raw' (API with None)"""
    n = rng.choice([1, 2, 2, 3, 3, 4])
    autos = rand_autos(rng, n)
    p_bad_env = {"valid": 0.0 if rng.random() < 0.6 else 0.15, "adversarial": 0.2, "raw": 0.1}[kind]
    ops = []
    cur = 0   # the generator's guess of the current stage (0 = not created); only steers the distribution
    length = rng.randint(n + 1, 2 * n + 8)
    for _ in range(length):
        r = rng.random()
        rc = rng.choice([0, 0, 0, 1, 1, 2, -1, 255])
        if cur == 0 and r < (0.85 if kind == "valid" else 0.5):
            ops.append(("submit", autos, rand_env(rng, p_bad_env)))
            cur = 1
            continue
        p_right = {"valid": 0.7, "adversarial": 0.3, "raw": 0.45}[kind]
        if r < p_right:
            k = cur + 1
            if cur <= n:
                cur += 1
        else:
            k = rng.choice([cur, cur, cur + 2, cur - 1, 1, 2, n + 1, n + 2, 0, -1, rng.randint(-2, n + 3)])
            if k == cur + 1 and 1 <= cur <= n:
                cur += 1
        if rng.random() < 0.06:
            ops.append(("submit", rand_autos(rng, rng.choice([1, 2, 3])), rand_env(rng, p_bad_env)))
            if cur == 0:
                cur = 1
                autos = ops[-1][1]
                n = len(autos)
            continue
        if kind == "raw" and rng.random() < 0.3:
            ops.append(("next", rng.choice([1, 1, 1, 2, 0, cur]), None, rand_env(rng, p_bad_env)))
        else:
            ops.append(("next", k, rc, rand_env(rng, p_bad_env)))
    return ops


def exhaustive_histories(n, maxlen):
    """all sequences over {submit, next k (k in 0..n+2)} up to maxlen, good environment, rc = position"""
    alphabet = [("submit",)] + [("next", k) for k in range(0, n + 3)]
    for L in range(1, maxlen + 1):
        for combo in itertools.product(alphabet, repeat=L):
            ops = []
            for i, a in enumerate(combo):
                if a[0] == "submit":
                    ops.append(("submit", [i % 2 == 0] * n if n != 2 else [True, False], dict(G)))
                else:
                    ops.append(("next", a[1], i % 3, dict(G)))
            yield ops


DIRECTED = [
    # before submit, wrong, repeated, beyond the end
    [("next", 2, 0, G), ("submit", [True, False, True], G), ("submit", [True], G), ("next", 3, 0, G), ("next", 2, 7, G),
     ("next", 2, 7, G), ("next", 3, 1, G), ("next", 3, 1, G), ("next", 4, 0, G), ("next", 4, 0, G), ("next", 5, 0, G),
     ("next", -1, 4, G)],
    # a stage completes twice (resubmitted stage): same k again at every point
    [("submit", [False, False, False, False], G), ("next", 2, 0, G), ("next", 2, 1, G), ("next", 3, 1, G), ("next", 2, 0, G),
     ("next", 3, 0, G), ("next", 4, 2, G), ("next", 4, 2, G), ("next", 5, 0, G), ("next", 5, 0, G), ("next", 2, 0, G)],
    # environment failures at every stage
    [("submit", [True, True, True], dict(G, auto="ret")), ("next", 2, 0, dict(G, auto="nofile")),
     ("next", 3, 0, dict(G, cfg=False)), ("next", 4, 1, G)],
    [("submit", [False, True], dict(G, cfg=False)), ("next", 2, 0, dict(G, ret=1)), ("next", 3, 1, dict(G, ret=1))],
    [("submit", [True], dict(G, ret=2)), ("next", 2, 1, G), ("next", 2, 1, G), ("next", 3, 1, G)],
    # raw API: return_code None
    [("submit", [False, False], G), ("next", 1, None, G), ("next", 2, None, G), ("next", 2, 0, G), ("next", 1, None, G),
     ("next", 3, 0, G), ("next", 1, None, G), ("next", 0, None, G)],
    [("next", 1, None, G), ("submit", [True], G), ("next", 1, None, dict(G, auto="ret"))],
]


def is_cli_history(ops):
    return all(not (op[0] == "next" and op[2] is None) for op in ops)


# ------------------------------------------------------------------------------------------------
def run_histories(chk, consts):
    rng = chk.rng
    quick = chk.tier == "quick"
    histories = [("directed", [tuple(o) for o in h]) for h in DIRECTED]
    for n, maxlen in ((1, 4), (2, 3)) if quick else ((1, 5), (2, 5), (3, 4)):
        histories += [("exhaustive", h) for h in exhaustive_histories(n, maxlen)]
    for kind, cnt in (("valid", 150), ("adversarial", 150), ("raw", 50)) if quick else (("valid", 4000), ("adversarial", 4000), ("raw", 1200)):
        histories += [(kind, rand_history(rng, kind)) for _ in range(cnt)]
    cmp_ = core.CoqCompare("c15_hist", IMPORTS, f"run_obs {consts} init_world", "list_eqbZ step_obs_eqb",
                           "list op", "list (presult * option (Z * list (option Z) * bool) * list pevent)", shard=400)
    dist = {"by_kind": {}, "ops": 0, "results": {}, "stages": {}, "completed_pipelines": 0, "bad_env_ops": 0}
    for kind, ops in histories:
        steps, summary = drv.run_history(ops)
        exp = "[" + "; ".join(f"({drv.result_term(r) if not r[0].startswith('RErrOther') else 'RErrOther'}, {drv.obs_term(o)}, {drv.events_term(ev)})"
                              for r, o, ev, _ in steps) + "]"
        meta = {"kind": kind, "ops": ops, "impl": [(r, o, ev, x) for r, o, ev, x in steps]}
        cmp_.add("[" + "; ".join(drv.op_term(o) for o in ops) + "]", exp, meta)
        nontrivial = any(r[0] == "ROkSubmitted" for r, _, _, _ in steps)
        chk.count(("hist", json.dumps(ops, default=str)), nontrivial=nontrivial)
        dist["by_kind"][kind] = dist["by_kind"].get(kind, 0) + 1
        dist["ops"] += len(ops)
        for r, _, _, _ in steps:
            dist["results"][r[0]] = dist["results"].get(r[0], 0) + 1
        first = next((o for o in ops if o[0] == "submit"), None)
        if first:
            dist["stages"][len(first[1])] = dist["stages"].get(len(first[1]), 0) + 1
        if summary["final"] and summary["final"][2]:
            dist["completed_pipelines"] += 1
        dist["bad_env_ops"] += sum(1 for o in ops if o[-1] != G)
        if is_cli_history(ops):
            for sig, what, detail in oracle_history(ops, steps, summary):
                chk.violation(sig, what, {"component": "PipelineManager.submit_next_stage / jade pipeline submit[-next-stage]",
                                          "history": ops, "observed": meta["impl"], "detail": detail,
                                          "how_to_replay": "./check C15 --replay <this file>"})
        if kind == "valid" and len(chk.coverage["samples"]) < 3:
            chk.sample({"kind": "history", "ops": ops, "final": summary["final"]})
    bad = cmp_.run()
    chk.oblige("correspondence PipelineManager histories vs Pipeline.run_obs (%d histories, %d calls)" % (len(cmp_.cases), dist["ops"]),
               not bad, "first differing histories: %s" % bad[:5])
    for i in bad[:3]:
        chk.tie_broken("correspondence Pipeline.step vs PipelineManager.submit_next_stage / pipeline CLI",
                       json.dumps({"case": cmp_.cases[i][2], **cmp_.show(i)}, default=str)[:3000])
    chk.notes.setdefault("input_distribution", {})["histories"] = dist


def handover_scenarios(rng, count):
    out = []
    # directed: straight runs for 1..4 stages, then with resubmitted stages completing twice
    for n in (1, 2, 3, 4):
        out.append((n, [True] * n, [("complete", k, True) for k in range(1, n + 1)], dict(G)))
        out.append((n, [False] * n, [("complete", k, k % 2 == 0) for k in range(1, n + 1)], dict(G)))
    out.append((3, [True, False, True], [("complete", 1, True), ("resubmit", 1), ("complete", 1, True), ("complete", 2, True),
                                         ("resubmit", 1), ("complete", 1, False), ("resubmit", 2), ("complete", 2, True),
                                         ("complete", 3, True), ("resubmit", 3), ("complete", 3, True)], dict(G)))
    for _ in range(count):
        n = rng.choice([1, 2, 3, 4])
        autos = rand_autos(rng, n)
        script = []
        done = []
        outstanding = [1]
        nxt = 2
        for _ in range(rng.randint(n, 2 * n + 3)):
            if outstanding and (rng.random() < 0.75 or not done):
                k = rng.choice(outstanding)
                outstanding.remove(k)
                script.append(("complete", k, rng.random() < 0.7))
                done.append(k)
                if k == nxt - 1 and nxt <= n:
                    outstanding.append(nxt)
                    nxt += 1
            elif done:
                k = rng.choice(done)
                if k not in outstanding:
                    script.append(("resubmit", k))
                    outstanding.append(k)
        out.append((n, autos, script, dict(G)))
    return out


def run_handover(chk, consts):
    """the real JobSubmitter._handle_completion per stage; `jade pipeline submit-next-stage` dispatched to the real click command"""
    rng = chk.rng
    scenarios = handover_scenarios(rng, 25 if chk.tier == "quick" else 400)
    cmp_ = core.CoqCompare("c15_sys", IMPORTS, f"sys_obs {consts}", "sys_obs_eqb", "list sys_op",
                           "option (option (Z * list (option Z) * bool) * list pevent)", shard=200)
    dist = {"scenarios": 0, "completions": 0, "resubmissions": 0, "rejected_second_completions": 0}
    for n, autos, script, env in scenarios:
        root = tempfile.mkdtemp(prefix="verif_c15h_")
        try:
            with drv.PipelineWorld(root, handover=True, with_teardown=True) as w:
                sys_ops = [f"(SysStart [{'; '.join('true' if a else 'false' for a in autos)}] {drv.env_term(env)})"]
                w.do(("submit", autos, env))
                trace = []
                # in some scenarios the completion flag of one stage cannot be persisted (the submitter's copy of the
                # config went stale, as when cancel-jobs races with the last round): nothing may be handed over then
                firsts = [i for i, a in enumerate(script) if a[0] == "complete" and not any(b[0] == "complete" and b[1] == a[1] for b in script[:i])]
                inject_at = rng.choice(firsts) if firsts and rng.random() < 0.25 else None
                for ai, act in enumerate(script):
                    if act[0] == "complete":
                        if not os.path.exists(os.path.join(w.out, "output-stage%d" % act[1], "cluster_config.json")):
                            continue
                        before = w.read_state()
                        first_completion = ("mark", act[1]) not in w.events
                        try:
                            out, psn = w.complete_stage(act[1], with_results=act[2], fail_mark=(ai == inject_at))
                        except Exception as e:   # the stand-ins could not even set the completion up
                            chk.tie_broken("hand-over: completing stage %d could not be driven (%s)" % (act[1], type(e).__name__),
                                           json.dumps({"scenario": [n, autos, script], "events": list(w.events)}, default=str)[:1500])
                            break
                        trace.append((act, out, w.read_state()))
                        # progress oracle (the environment is cooperative in these scenarios): the first completion of
                        # stage k submits stage k+1, or completes the pipeline if k was the last stage
                        if isinstance(out, int) and first_completion and env == G:
                            st = w.read_state()
                            k = act[1]
                            want = 0 if act[2] else 1    # all results present -> Status.GOOD, a job without result -> ERROR
                            if st and 1 <= k <= len(st[1]) and (st[1][k - 1] != out or out != want):
                                chk.violation("handover-return-code-wrong",
                                              f"stage {k} finished with status value {want} (returned {out}) but pipeline.json records {st[1][k - 1]}",
                                              {"component": "JobSubmitter._handle_completion -> jade pipeline submit-next-stage",
                                               "stages": n, "autos": autos, "script": script, "events": list(w.events),
                                               "final_pipeline_json": st})
                            if (k < n and ("submit", k + 1) not in w.events) or (k == n and not (st and st[2])):
                                chk.violation("no-progress-after-completion",
                                              f"stage {k} of {n} completed (first time) but " +
                                              (f"stage {k + 1} was not submitted" if k < n else "the pipeline was not marked complete"),
                                              {"component": "JobSubmitter._handle_completion -> jade pipeline submit-next-stage",
                                               "stages": n, "autos": autos, "script": script, "events": list(w.events),
                                               "final_pipeline_json": st})
                        if ai == inject_at and any(m[0] == "mark_rejected" for m in getattr(w, "handover_marks", [])):
                            dist["rejected_mark_complete"] = dist.get("rejected_mark_complete", 0) + 1
                            break       # the stage stays incomplete; the oracles below judge what was handed over
                        if not isinstance(out, int):
                            chk.tie_broken("hand-over: _handle_completion raised", json.dumps({"scenario": [n, autos, script], "raised": out}))
                            break
                        sys_ops.append(f"(SysComplete {drv.cZ(psn)} {drv.cZ(out)} {drv.env_term(env)})")
                        dist["completions"] += 1
                        if before == w.read_state():
                            dist["rejected_second_completions"] += 1
                    else:
                        if ("mark", act[1]) not in w.events:
                            continue
                        try:
                            w.resubmit_stage(act[1])
                        except Exception as e:
                            chk.tie_broken("hand-over: resubmitting stage %d could not be driven (%s)" % (act[1], type(e).__name__),
                                           json.dumps({"scenario": [n, autos, script], "events": list(w.events)}, default=str)[:1500])
                            break
                        sys_ops.append(f"(SysResubmit {drv.cZ(act[1])})")
                        dist["resubmissions"] += 1
                exp = f"(Some ({drv.obs_term(w.read_state())}, {drv.events_term(w.events)}))"
                meta = {"n": n, "autos": autos, "script": script, "events": list(w.events), "final": w.read_state(),
                        "marks": list(getattr(w, "handover_marks", []))}
                cmp_.add("[" + "; ".join(sys_ops) + "]", exp, meta)
                chk.count(("handover", n, tuple(autos), json.dumps(script)), nontrivial=len(script) > 0)
                dist["scenarios"] += 1
                for sig, what, detail in oracle_handover(w, n):
                    chk.violation(sig, what, {"component": "JobSubmitter._handle_completion -> jade pipeline submit-next-stage",
                                              "stages": n, "autos": autos, "script": script, "events": list(w.events),
                                              "final_pipeline_json": w.read_state(), "detail": detail})
                if dist["scenarios"] == 9:
                    chk.sample({"kind": "handover", "stages": n, "script": script, "events": list(w.events)})
        finally:
            shutil.rmtree(root, ignore_errors=True)
    # local mode: every stage runs to completion inside run_submit_jobs, so the hand-over to stage k+1 happens nested
    # inside PipelineManager._submit_next_stage of stage k (one process, stale in-memory pipeline state in the outer frames)
    chains = [(n, autos, dict(G)) for n in (1, 2, 3, 4) for autos in ([True] * n, [False] * n)]
    chains += [(3, [False, True, False], dict(G, auto="ret")), (4, [False, False, True, True], dict(G, auto="nofile")),
               (2, [True, True], dict(G, cfg=False))]
    for _ in range(4 if chk.tier == "quick" else 60):
        n = rng.choice([2, 3, 4])
        chains.append((n, rand_autos(rng, n), rand_env(rng, 0.3)))
    for n, autos, env in chains:
        env = dict(env, ret=0)
        root = tempfile.mkdtemp(prefix="verif_c15l_")
        try:
            with drv.PipelineWorld(root, handover=True, with_teardown=True, local_chain=True) as w:
                w.do(("submit", autos, env))
                sys_ops = [f"(SysStart [{'; '.join('true' if a else 'false' for a in autos)}] {drv.env_term(env)})"]
                crashed = [c for c in w.chain_results if not isinstance(c[1], int)]
                if crashed:
                    chk.tie_broken("hand-over (local chain): _handle_completion raised", json.dumps({"chain": [n, autos, env], "raised": crashed}))
                    continue
                for k, out in sorted(w.chain_results):
                    sys_ops.append(f"(SysComplete {drv.cZ(k)} {drv.cZ(out)} {drv.env_term(env)})")
                exp = f"(Some ({drv.obs_term(w.read_state())}, {drv.events_term(w.events)}))"
                meta = {"local_chain": True, "n": n, "autos": autos, "env": env, "events": list(w.events), "final": w.read_state()}
                cmp_.add("[" + "; ".join(sys_ops) + "]", exp, meta)
                chk.count(("chain", n, tuple(autos), json.dumps(env)), nontrivial=True)
                dist["local_chains"] = dist.get("local_chains", 0) + 1
                problems = oracle_handover(w, n)
                st = w.read_state()
                if env["auto"] == "ok" and env["cfg"] and not (st and st[2] and [e[1] for e in w.events if e[0] == "submit"] == list(range(1, n + 1))):
                    problems.append(("local-chain-incomplete", f"local pipeline of {n} stages did not run all stages to completion: {st}", {}))
                for sig, what, detail in problems:
                    chk.violation(sig, what, {"component": "local pipeline: run_submit_jobs -> _handle_completion -> submit-next-stage (nested)",
                                              "stages": n, "autos": autos, "env": env, "events": list(w.events),
                                              "final_pipeline_json": st, "detail": detail})
        finally:
            shutil.rmtree(root, ignore_errors=True)
    bad = cmp_.run()
    chk.oblige("correspondence hand-over (_handle_completion + submit-next-stage) vs Pipeline.sys_run (%d scenarios, %d completions)"
               % (len(cmp_.cases), dist["completions"]), not bad, "first differing: %s" % bad[:5])
    for i in bad[:3]:
        chk.tie_broken("correspondence Pipeline.sys_step vs JobSubmitter._handle_completion hand-over",
                       json.dumps({"case": cmp_.cases[i][2], **cmp_.show(i)}, default=str)[:3000])
    chk.notes.setdefault("input_distribution", {})["handover"] = dist


def run(chk):
    proofs_ok = core.standard_proof_phase(chk, "C15", gen_needed=("PipelineGen",))
    logging.disable(logging.CRITICAL)
    consts = "src_consts"
    model_ok = True
    if not proofs_ok:
        # the model (which follows the regenerated constants) is still needed for the correspondence
        try:
            core.build(["theories/Pipeline.vo"])
        except core.BuildError as e:
            model_ok = False
            chk.notes["model_build_error"] = str(e)
    for part in (run_histories, run_handover):
        try:
            if model_ok:
                part(chk, consts)
            else:
                _oracles_only(chk, part)
        except core.BuildError as e:
            chk.oblige("coqc evaluation in " + part.__name__, False, str(e) + e.log[-800:])
            chk.tie_broken("model evaluation failed in " + part.__name__, e.log[-1200:])
    chk.notes["rule"] = ("cases = call histories of `jade pipeline submit` / `submit-next-stage k rc` on the real PipelineManager "
                         "(directed + exhaustive over a small alphabet + random valid/adversarial/raw-API streams; 1-4 stages, "
                         "auto-config / file stages, failing auto-config/config/submission) and hand-over scenarios through the real "
                         "_handle_completion; non-trivial = at least one stage submitted; distinct by content hash")
    chk.coverage["rule"] = chk.notes["rule"]
    chk.assumptions += [
        "`jade pipeline submit --force` starts a new pipeline instance (not modelled as a continuation)",
        "at most one mark_complete per (re)submission of a stage (property C05) is a hypothesis of the system-level theorems",
        "auto-config commands are external programs: only 'ran before the stage's config is read' is observed",
        "JobSubmitter.run_submit_jobs is observed at its boundary (arguments, return status); what it does is C01-C14's business",
    ]


def _oracles_only(chk, part):
    """model not available (translator failed closed / model does not compile): still search impl for a failing input"""
    class _NoCmp:
        def __init__(self, *a, **k):
            self.cases = []

        def add(self, *a):
            self.cases.append(a)

        def run(self):
            return []

        def show(self, i):
            return {}
    saved = core.CoqCompare
    core.CoqCompare = _NoCmp
    try:
        part(chk, "src_consts")
    finally:
        core.CoqCompare = saved
    chk.obligations = [o for o in chk.obligations if not o[0].startswith("correspondence ")]
    chk.oblige("correspondence skipped in %s: model not available" % part.__name__, False, "see build error")


def replay(path):
    obj = json.load(open(path))
    print(json.dumps({k: obj[k] for k in obj if k not in ("observed",)}, indent=1, default=str)[:3000])
    if "history" in obj:
        logging.disable(logging.CRITICAL)
        ops = [tuple(o) for o in obj["history"]]
        steps, summary = drv.run_history(ops)
        for op, st in zip(ops, steps):
            print("  ", op[:3], "->", st[0], st[1], st[2], st[3])
        bad = oracle_history(ops, steps, summary)
        for sig, what, _ in bad:
            print("ORACLE FAILS:", sig, "-", what)
        return 1 if bad else 0
    return 0
