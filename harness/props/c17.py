"""C17 - configurations round-trip losslessly; invalid ones are rejected up front.

Proofs: coq/theories/Props/C17.v over the model Config.v and the generated Gen/ConfigGen.v.
Correspondence: generated configuration descriptions -> the real GenericCommandParameters /
GenericCommandConfiguration / create_config_from_file / JobSubmitter.run_submit_jobs (cluster and
command boundary intercepted) against Config.load_and_submit / deserialize / serialize / group_wall
evaluated by coqc.  Search for failing inputs: Python oracles over the real code's own outputs
(round trip of the listed attributes; every invalid configuration rejected before the boundary;
every valid one accepted)."""
import json
import logging
import shutil
import tempfile

from harness import core
from harness import configdrv as drv
from harness.core import cstr

IMPORTS = ("From Coq Require Import String Ascii List ZArith NArith Bool.\n"
           "From Jade Require Import Base Config.\nFrom Jade.Gen Require Import ConfigGen.")
LOAD_EQB = "result_eqb (prod_eqb json_eqb_sets (prod_eqb (list_eqb event_eqb) (result_eqb unit_eqb)))"
LOAD_TY = "result (json * (list event * result unit))"


def _short(obj, n=1800):
    return json.dumps(obj, default=str)[:n]


class Run:
    def __init__(self, chk, tmp):
        self.chk = chk
        self.tmp = tmp
        self.load = core.CoqCompare("c17_load", IMPORTS, "load_and_submit", LOAD_EQB, "json", LOAD_TY, shard=60)
        self.rt = core.CoqCompare(
            "c17_roundtrip", IMPORTS,
            "fun v => match deserialize v with Ok c => Ok (serialize c) | Err e => Err e end",
            "result_eqb json_eqb_sets", "json", "result json", shard=60)
        self.dist = {"base": 0, "jobs": 0, "groups": {1: 0, 2: 0, 3: 0}, "int_blockers": 0, "str_blockers": 0,
                     "unnamed_jobs": 0, "padded_strings": 0, "lifecycle_set": 0, "accepted": 0, "rejected": {},
                     "injected": {}, "out_of_domain": 0}

    # -- one file through the real code and into the model comparison --------------------------------
    def file_case(self, content, expect, label):
        """expect: 'valid' | 'invalid:<kind>' | None (decided by the oracle only)"""
        chk = self.chk
        res = drv.run_file(content, self.tmp)
        njobs = len(content.get("jobs") or [])
        chk.count(("file", json.dumps(content, sort_keys=True)), nontrivial=njobs > 0)
        err = res["load_error"] or res["submit_error"]
        reached = [e for e in res["events"] if e in ("EvClusterCreate", "EvSubmitJobs")] or res["commands"]
        accepted = err is None and "EvSubmitJobs" in res["events"]
        if err is not None:
            self.dist["rejected"][err[0]] = self.dist["rejected"].get(err[0], 0) + 1
        else:
            self.dist["accepted"] += 1
        replay = {"component": "create_config_from_file + JobSubmitter.run_submit_jobs", "label": label,
                  "file_content": content, "observed": res}
        # ---- property oracles on the real code's own outputs
        if err is not None and reached:
            chk.violation("rejected-after-boundary", "a configuration was rejected only after the cluster/HPC boundary was reached",
                          replay)
        if res["observed"] is not None:
            diffs = drv.file_vs_loaded_differences(content, res["observed"])
            if diffs:
                chk.violation("load-loss:" + diffs[0].split(":")[0],
                              "create_config_from_file does not deliver what the file says: " + "; ".join(diffs[:3]),
                              dict(replay, differences=diffs))
            reasons, undecided = drv.spec_invalid_reasons(res["observed"])
            if reasons and (err is None or reached):
                sig = "invalid-accepted:" + reasons[0].split(" ")[0]
                chk.violation(sig, "invalid configuration (%s) was not rejected before the HPC boundary" % reasons[0],
                              dict(replay, reasons=reasons))
            if not reasons and not undecided and not accepted:
                chk.violation("valid-rejected", "a valid configuration was rejected: %s" % (err,), replay)
        if expect == "valid" and not accepted:
            chk.violation("valid-rejected", "a valid configuration was rejected: %s" % (err,), replay)
        if expect and expect.startswith("invalid:") and (err is None or reached):
            chk.violation("invalid-accepted:" + expect[8:],
                          "configuration with injected invalidity %s was not rejected before the HPC boundary" % expect[8:],
                          replay)
        # ---- model
        if err is not None and err[0] == "EOther":
            chk.tie_broken("real code raised an error the model does not know", _short({"error": err, "content": content}))
            return res
        try:
            self.load.add(drv.jterm(content), drv.expected_term(res), {"label": label, "content": content, "observed": res})
        except drv.OutOfDomain:
            self.dist["out_of_domain"] += 1
        return res

    def roundtrip_case(self, desc, label):
        chk = self.chk
        r = drv.roundtrip(desc, self.tmp)
        if "error" in r:
            return None
        s1 = r["s1"]
        chk.count(("roundtrip", json.dumps(s1, sort_keys=True)), nontrivial=bool(r["o1"]["jobs"]))
        replay = {"component": "JobConfiguration.dump / create_config_from_file", "label": label, "description": desc,
                  "before": r["o1"]}
        if "reload_error" in r:
            chk.violation("roundtrip-unloadable", "a dumped configuration cannot be loaded back: %s" % (r["reload_error"],),
                          dict(replay, serialized=s1))
            return s1
        diffs = drv.roundtrip_differences(r["o1"], r["o2"])
        if diffs:
            chk.violation("roundtrip-loss:" + diffs[0].split(":")[0],
                          "dump + create_config_from_file changed the configuration: " + "; ".join(diffs[:3]),
                          dict(replay, after=r["o2"], differences=diffs))
        elif drv.canon(s1) != drv.canon(r["s2"]):
            chk.tie_broken("serialize() differs after the round trip although the objects agree",
                           _short({"before": s1, "after": r["s2"]}))
        try:
            self.rt.add(drv.jterm(s1), "(Ok " + drv.jterm(r["s2"]) + ")", {"label": label, "before": s1, "after": r["s2"]})
        except drv.OutOfDomain:
            self.dist["out_of_domain"] += 1
        return s1

    def finish(self, name):
        chk = self.chk
        for cmp_, what in ((self.load, "load_and_submit vs create_config_from_file + JobSubmitter.run_submit_jobs"),
                           (self.rt, "serialize (deserialize s) vs dump + create_config_from_file + serialize")):
            bad = cmp_.run()
            chk.oblige("correspondence %s: %s (%d cases)" % (name, what, len(cmp_.cases)), not bad,
                       "first differing cases: %s" % bad[:5])
            for i in bad[:3]:
                meta = cmp_.cases[i][2]
                shown = cmp_.show(i)
                chk.tie_broken("correspondence Config." + what,
                               _short({"label": meta.get("label"), "model": shown.get("model"), "case": meta}, 3000))


def _note_desc(dist, desc):
    dist["base"] += 1
    dist["jobs"] += len(desc["jobs"])
    dist["groups"][len(desc["groups"])] = dist["groups"].get(len(desc["groups"]), 0) + 1
    for j in desc["jobs"]:
        for b in j.get("blocked_by") or []:
            dist["int_blockers" if isinstance(b, int) else "str_blockers"] += 1
        if j.get("name") is None:
            dist["unnamed_jobs"] += 1
        if any(isinstance(v, str) and v != v.strip() for v in j.values()):
            dist["padded_strings"] += 1
    dist["lifecycle_set"] += sum(1 for k in drv.LIFECYCLE if desc.get(k) is not None)


def run_generated(chk, tmp):
    rng = chk.rng
    r = Run(chk, tmp)
    nbase = 70 if chk.tier == "quick" else 1200
    ninj = 3 if chk.tier == "quick" else 5
    for i in range(nbase):
        desc = drv.gen_desc(rng)
        _note_desc(r.dist, desc)
        r.roundtrip_case(desc, "generated-%d" % i)
        content = drv.file_content(desc)
        res = r.file_case(content, "valid", "generated-%d" % i)
        if i < 3:
            chk.sample({"kind": "generated valid configuration", "file_content": content,
                        "events": res["events"], "error": res["load_error"] or res["submit_error"]})
        # the loaded configuration written back (what JobSubmitter.create dumps) must load to itself
        kinds = rng.sample(drv.INVALIDITIES, ninj) + (["odd_walltime"] if rng.random() < 0.3 else [])
        for kind in kinds:
            d2 = drv.inject(rng, desc, kind)
            if d2 is None:
                continue
            r.dist["injected"][kind] = r.dist["injected"].get(kind, 0) + 1
            expect = None if kind == "odd_walltime" else "invalid:" + kind
            res2 = r.file_case(drv.file_content(d2), expect, "generated-%d+%s" % (i, kind))
            if kind in ("duplicate_name", "empty_command", "duplicate_id_name"):
                # the same through the programmatic API: add_job must refuse
                if "error" not in drv.roundtrip(d2, tmp):
                    chk.violation("invalid-accepted:" + kind, "add_job accepted a configuration with " + kind,
                                  {"component": "GenericCommandConfiguration.add_job", "description": d2})
            if i < 2:
                chk.sample({"kind": "injected " + kind, "error": res2["load_error"] or res2["submit_error"],
                            "events": res2["events"]})
    r.finish("generated")
    chk.notes.setdefault("input_distribution", {})["generated"] = r.dist


def run_directed(chk, tmp):
    """corner cases written by hand (each also goes through the oracles)"""
    rng = chk.rng
    r = Run(chk, tmp)
    p = drv.make_params(rng, "slurm", "1:00:00", None, 10, batch_size=500)
    p0 = drv.make_params(rng, "slurm", "1:00:00", None, 10, batch_size=0)
    plocal = drv.make_params(rng, "local", None, None, 10, batch_size=500)
    g = {"name": "default", "submitter_params": p}

    def content(jobs, groups=(g,), **top):
        return drv.file_content(dict({"jobs": jobs, "groups": list(groups)}, **top))
    J = dict
    cases = [
        ("int blocker names an unnamed job", content([J(command="a"), J(command="b", blocked_by=[1])]), "valid"),
        ("int blocker vs explicit name", content([J(command="a", name="A"), J(command="b", blocked_by=[1])]), "invalid:missing_blocker"),
        ("name '1' and unnamed job id 1 collide", content([J(command="a"), J(command="b", name="1")]), "invalid:duplicate_name"),
        ("name '2' then unnamed job id 2 collide", content([J(command="a", name="2"), J(command="b"), J(command="c")]), None),
        ("padded names collide", content([J(command="a", name="x"), J(command="b", name=" x\t")]), "invalid:duplicate_name"),
        ("blocker padded", content([J(command="a", name="x y"), J(command="b", blocked_by=["  x y\n"])]), "valid"),
        ("self blocker", content([J(command="a", name="x", blocked_by=["x"])]), "valid"),
        ("estimate equals walltime", content([J(command="a", estimated_run_minutes=60)]), "valid"),
        ("estimate one above walltime", content([J(command="a", estimated_run_minutes=61)]), "invalid:runtime_over_walltime"),
        ("negative estimate", content([J(command="a", estimated_run_minutes=-1)]), "valid"),
        ("estimate without walltime (local)", content([J(command="a", estimated_run_minutes=10 ** 6)],
                                                      groups=[{"name": "default", "submitter_params": plocal}]), "valid"),
        ("estimate above the no-walltime bound", content([J(command="a", estimated_run_minutes=71582789)],
                                                         groups=[{"name": "default", "submitter_params": plocal}]), None),
        ("batch size 0 with estimates", content([J(command="a", estimated_run_minutes=1)],
                                                groups=[{"name": "default", "submitter_params": p0}]), "valid"),
        ("batch size 0 without estimate", content([J(command="a")], groups=[{"name": "default", "submitter_params": p0}]),
         "invalid:missing_estimate"),
        ("batch size 0 in a group without jobs", content([J(command="a")], groups=[g, {"name": "other", "submitter_params": p0}]), "valid"),
        ("no groups", content([J(command="a")], groups=[]), "invalid:no_groups"),
        ("no jobs", content([]), "valid"),
        ("no jobs no groups", content([], groups=[]), "invalid:no_groups"),
        ("default group not listed", content([J(command="a")], groups=[{"name": "g1", "submitter_params": p}]), "invalid:invalid_group"),
        ("group name padded, job refers to stripped", content([J(command="a", submission_group="g1")],
                                                              groups=[{"name": " g1 ", "submitter_params": p}]), "valid"),
        ("two groups same name after strip", content([J(command="a", submission_group="g1")],
                                                     groups=[{"name": " g1", "submitter_params": p}, {"name": "g1 ", "submitter_params": p}]),
         "invalid:duplicate_group"),
        ("use_multi_node_manager forces append_output_dir", content([J(command="a", use_multi_node_manager=True, append_output_dir=False)]), "valid"),
        ("flags at defaults are elided", content([J(command="a", append_job_name=False, append_output_dir=False, ext={}, use_multi_node_manager=False)]), "valid"),
        ("explicit null fields", content([J(command="a", name=None, estimated_run_minutes=None, job_id=None, spark_config=None)]), "valid"),
        ("explicit ids do not advance the counter", content([J(command="a", job_id=5), J(command="b"), J(command="c", job_id=1)]), None),
        ("missing extension key", {**content([]), "jobs": [{"command": "a"}]}, None),
        ("unknown job key", content([J(command="a", colour="red")]), None),
        ("missing command", {**content([]), "jobs": [{"extension": "generic_command", "name": "x"}]}, None),
        ("empty command", content([J(command="")]), "invalid:empty_command"),
        ("whitespace command", content([J(command=" \t")]), "invalid:empty_command"),
        ("empty command of a multi-node job", content([J(command="", use_multi_node_manager=True)]), None),
        ("lifecycle commands kept verbatim", content([J(command="a")], setup_command="  s  ", teardown_command="", node_setup_command="x\ty",
                                                     node_teardown_command=None), "valid"),
        ("name is the empty string", content([J(command="a", name=""), J(command="b", blocked_by=[""])]), "valid"),
        ("name of blanks", content([J(command="a", name="  "), J(command="b", name="")]), "invalid:duplicate_name"),
        ("job id text 'None' is not special", content([J(command="a", name="None"), J(command="b")]), "valid"),
        ("negative job id", content([J(command="a", job_id=-3), J(command="b", blocked_by=[-3])]), "valid"),
        ("blocker list with duplicates after coercion", content([J(command="a"), J(command="b", blocked_by=[1, "1", " 1 "])]), "valid"),
        ("wrong configuration class", {**content([]), "configuration_class": "Other"}, None),
        ("format_version missing", {k: v for k, v in content([J(command="a")]).items() if k != "format_version"}, None),
    ]
    for w in drv.ODD_WALLS + drv.WALLS:
        pw = json.loads(json.dumps(p))
        pw["hpc_config"]["hpc"]["walltime"] = w.strip()      # submitter_params is in pydantic's normal form
        cases.append(("walltime %r" % w, content([J(command="a", estimated_run_minutes=5), J(command="b")],
                                                 groups=[{"name": "default", "submitter_params": pw}]), None))
    for label, c, expect in cases:
        try:
            res = r.file_case(c, expect, "directed: " + label)
        except Exception as e:      # a case outside what run_file handles (e.g. upgrade path touching files)
            chk.tie_broken("directed case crashed the driver: " + label, repr(e)[:300])
            continue
        obs = res["observed"]
        if obs is not None and expect == "valid":
            # the loaded configuration built again through the API, dumped and reloaded
            desc2 = {"jobs": [{k: v for k, v in j.items() if not k.startswith("_") and k not in ("extension", "spark_config")}
                              for j in obs["jobs"]],
                     "groups": [g for g in res["loaded"]["submission_groups"]], **{k: obs[k] for k in drv.LIFECYCLE}}
            r.roundtrip_case(desc2, "directed: " + label)
    r.finish("directed")
    chk.notes.setdefault("input_distribution", {})["directed"] = {"cases": len(cases)}


def run_walltime(chk, tmp):
    """SubmitterParams.get_wall_time against Config.group_wall"""
    from jade.models import SubmitterParams, HpcConfig
    rng = chk.rng
    texts = list(drv.ODD_WALLS + drv.WALLS)
    alphabet = "0123456789::::-a. "
    for _ in range(150 if chk.tier == "quick" else 3000):
        texts.append("".join(rng.choice(alphabet) for _ in range(rng.randint(0, 12))))
    cmp_ = core.CoqCompare("c17_wall", IMPORTS,
                           "fun w => group_wall {| g_name := \"g\"; g_params := [(\"hpc_config\", JObj [(\"hpc_type\", JStr \"fake\"); "
                           "(\"hpc\", match w with Some s => JObj [(\"walltime\", JStr s)] | None => JObj [] end)])] |}",
                           "option_eqb Z.eqb", "option string", "option Z", shard=400)
    n_assert = 0
    for w in [None] + texts:
        if w is None:
            sp = SubmitterParams(hpc_config=HpcConfig(hpc_type="local", hpc={}))
            stored = None
        else:
            sp = SubmitterParams(hpc_config=HpcConfig(hpc_type="fake", hpc={"walltime": w}))
            stored = sp.hpc_config.hpc.walltime
        try:
            td = sp.get_wall_time()
            secs = td.days * 86400 + td.seconds
            exp = f"(Some ({secs})%Z)"
            if stored is not None and drv.wall_seconds(stored) is not None and drv.wall_seconds(stored) != secs:
                chk.violation("walltime-misread", "walltime in H:MM:SS format read as a different duration",
                              {"component": "SubmitterParams.get_wall_time", "walltime": stored, "seconds": secs})
        except AssertionError:
            exp = "None"
            n_assert += 1
            if stored is not None and drv.wall_seconds(stored) is not None:
                chk.violation("walltime-rejected", "walltime in H:MM:SS format rejected",
                              {"component": "SubmitterParams.get_wall_time", "walltime": stored})
        except OverflowError:
            continue
        cmp_.add("None" if stored is None else f"(Some {cstr(stored)})", exp, {"walltime": stored, "impl": exp})
        chk.count(("wall", stored))
    bad = cmp_.run()
    chk.oblige("correspondence group_wall vs SubmitterParams.get_wall_time (%d strings)" % len(cmp_.cases), not bad,
               "first differing: %s" % bad[:5])
    for i in bad[:3]:
        chk.tie_broken("correspondence Config.group_wall vs SubmitterParams.get_wall_time",
                       _short({"case": cmp_.cases[i][2], **cmp_.show(i)}))
    chk.notes.setdefault("input_distribution", {})["walltime"] = {"strings": len(cmp_.cases), "assertion_errors": n_assert}


def run(chk):
    proofs_ok = core.standard_proof_phase(chk, "C17", gen_needed=("ConfigGen",))
    logging.disable(logging.CRITICAL)
    tmp = tempfile.mkdtemp(prefix="verif_c17_")
    try:
        for part in (run_directed, run_generated, run_walltime):
            if not proofs_ok and not (core.THEORIES / "Config.vo").exists():
                # the model itself did not build (e.g. translator failed closed): the oracles still run
                # on the real code, the model comparison is skipped inside CoqCompare via BuildError
                pass
            try:
                part(chk, tmp)
            except core.BuildError as e:
                chk.oblige("coqc evaluation in " + part.__name__, False, str(e) + e.log[-800:])
                chk.tie_broken("model evaluation failed in " + part.__name__, e.log[-1200:])
    finally:
        shutil.rmtree(tmp, ignore_errors=True)
        logging.disable(logging.NOTSET)
    chk.notes["rule"] = ("cases = configuration files (dict level) generated over the public job/group models: 0-9 jobs, 1-3 groups, "
                         "names over printable ASCII incl. blanks/quotes/commas with optional whitespace padding, integer and string "
                         "blockers, optional fields unset/null, lifecycle commands set/unset; each base case also with single injected "
                         "invalidities; hand-written corner cases; walltime strings.  non-trivial = at least one job; distinct by content")
    chk.coverage["rule"] = chk.notes["rule"]
    chk.assumptions += [
        "ASCII text; JSON files only; no floats; spark_config / job_global_config / jobs_directory / old-format upgrade not modelled",
        "pydantic (1.10 API) and json behave as documented below the dict level (exercised by the correspondence, not proved)",
        "submitter_params is opaque JSON in the normal form SubmitterParams.dict() produces; walltime oracle only for H:MM:SS",
    ]


def replay(path):
    """re-run the recorded configuration on the real code and show what happens"""
    core.ensure_env()
    logging.disable(logging.CRITICAL)
    obj = json.load(open(path))
    print(json.dumps({k: obj.get(k) for k in ("property", "signature", "what", "kind")}, indent=1))
    tmp = tempfile.mkdtemp(prefix="verif_c17_replay_")
    try:
        if "file_content" in obj:
            res = drv.run_file(obj["file_content"], tmp)
            print("file content:", json.dumps(obj["file_content"])[:3000])
            print("load error:", res["load_error"], " submit error:", res["submit_error"], " exception:", res["exc_class"])
            print("boundary events:", res["events"], " commands:", res["commands"])
            if res["observed"] is not None:
                print("invalid because:", drv.spec_invalid_reasons(res["observed"]))
        elif "description" in obj:
            r = drv.roundtrip(obj["description"], tmp)
            print("description:", json.dumps(obj["description"])[:3000])
            if "error" in r or "reload_error" in r:
                print("failed:", r.get("error") or r.get("reload_error"))
            else:
                print("differences after dump + load:", drv.roundtrip_differences(r["o1"], r["o2"]))
        else:
            print(json.dumps(obj, indent=1)[:4000])
    finally:
        shutil.rmtree(tmp, ignore_errors=True)
    return 0
