"""C11 - a submitter that dies or errors mid-round cannot cause double submission
Proofs: coq/theories/Props/C11.v over the system model (System.v) - every accepted trace.
Tie: the real jade code runs in the virtual cluster (harness/vcluster.py) under generated scenarios,
schedules, kill points and injected failures (sbatch, squeue, lock, every write site) under both lock-marker behaviours; every impl trace must be accepted by System.step (coqc vm_compute) and satisfy the
Coq monitors; Python oracles judge impl's trace and final state directly (harness/syscheck.py)."""
from harness import core, syscheck

MODES = {'kill': 5, 'write': 4, 'squeuefail': 3, 'sbatchfail': 1, 'timeout': 1, 'appendtimeout': 1, 'interrupt': 3}


def run(chk):
    ok = core.standard_proof_phase(chk, "C11", gen_needed=())
    chk.notes["system_theorems"] = ['c11_no_double_submission', 'c11_order', 'c11_rows_kept', 'c11_refuse_when_wedged', 'c11_kill_of_lock_owner_wedges', 'c11_error_exit_with_lock_wedges', 'c11_single_round', 'c11_squeue_transient', 'c11_round_order_of_the_source', 'c11_round_order_enforced']
    chk.notes["partial"] = "a kill inside a Python-level write (torn file) is modelled at the granularity of _serialize_file's steps, not bytes; atomicity of O_EXCL/rename is assumed (A-FS)"
    syscheck.system_phase(chk, "C11", MODES, n_quick=230, n_thorough=4000, also=('C01', 'C02', 'C08', 'C10'), directed=("write_fails_after_first_sbatch", "collect_append_fails"))


def replay(path):
    return syscheck.replay_case(path)
