"""C10 - only one submitter at a time; stale state never overwrites newer state.

Proofs: coq/theories/Props/C10.v over the model coq/theories/Cluster.v (unbounded: every operation
sequence, any number of handles / hosts).
Correspondence: REAL jade.jobs.cluster.Cluster handles (per-handle host names, real SoftFileLock) driven
through random and directed operation sequences by harness/clusterdrv.py; after every operation the
return value / exception class, the parsed content of the four files, the lock marker, and at the end
every handle's in-memory copies are compared with the model (evaluated by coqc, vm_compute).
The real CLI callbacks (try_submit_jobs, cancel_jobs, resubmit_jobs, JobSubmitter.run_submit_jobs,
JobRunner._complete_hpc_job) are run on prepared directories with a recording Cluster to validate
the call-site programs of Props/C10.v.
Search for failing inputs: property oracles in Python that judge impl's own outputs (bytes of the four
files before/after, return values), never the model."""
import json
import os
import shutil
import sys
import tempfile

from harness import core
from harness import clusterdrv as cd

IMPORTS = "From Coq Require Import List NArith Bool Arith.\nFrom Jade Require Import Base Cluster."

HOP_NAMES = ["Promote", "Demote", "MarkComplete", "MarkCanceled", "Serialize", "SerializeJobs", "Update",
             "CompleteHpc", "ReloadJobs"]


# ------------------------------------------------------------------------------------------------
# oracles on impl (one instance per sequence)
# ------------------------------------------------------------------------------------------------
class Oracles:
    """Judge the REAL Cluster directly.  Bookkeeping uses only impl's return values and files."""

    def __init__(self, chk, host0, kind):
        self.chk = chk
        self.host0 = host0
        self.kind = kind
        self.ops = []
        self.results = []
        self.role_held = True          # Cluster.create promotes the creator
        self.promoted = {0: True}      # handle -> the CLI's "promoted" knowledge (from return values)
        self.protocol_broken = False
        self.stale_writes = 0
        self.rejected = 0
        self.dirty = set()             # handles that keep in-memory changes of an operation that raised
        self.promotions = 0
        self.demotions = 0

    def _viol(self, sig, what, extra):
        self.chk.violation(sig, what, dict({"component": "jade.jobs.cluster.Cluster", "host0": self.host0,
                                            "ops": self.ops, "results": self.results, "generator": self.kind}, **extra))

    def on_step(self, w, k, op, before, stale, pre, r, after):
        self.ops.append(list(op))
        self.results.append(r)
        name = op[2] if op[0] == "Do" else op[0]
        changed = [f for f in before if before[f] != after[f]]
        failed = r.startswith("R") and r not in ("ROk", "RBool true", "RNoHandle") and not r.startswith("RLoaded")
        if r.startswith("EXC:"):
            self.chk.tie_broken("unexpected exception class from Cluster", json.dumps({"op": op, "result": r}))
        bd = _views(before)
        ad = _views(after)
        # O4: version file == version inside the object, always
        if ad["cfg"]["version"] != ad["cfg_vf"] or ad["js"]["version"] != ad["js_vf"]:
            self._viol("version-file-mismatch", "version file and object version disagree after an operation",
                       {"step": k, "after": ad})
        # O1: a handle holding an out-of-date copy cannot write
        hi = cd.op_handle(op)
        if stale is not None:
            cs, js = stale
            wc, wj = cd.op_writes(op)
            if (wc and cs) or (wj and js):
                self.stale_writes += 1
                ok_result = r in ("ROk", "RBool true")
                if changed or ok_result:
                    partial = name == "Update" and not cs and js
                    sig = "update-partial-write" if partial else ("stale-write:" + name)
                    self._viol(sig, "a handle with an out-of-date copy (config stale=%s, job status stale=%s) ran %s: "
                                    "result %s, files changed: %s" % (cs, js, name, r, changed),
                               {"step": k, "handle": hi, "changed_files": changed, "result": r,
                                "before": bd, "after": ad})
        # O1b: whatever is rejected leaves all four files byte-identical
        if failed or r == "RBool false":
            self.rejected += 1
            if changed:
                self._viol("rejected-op-changed-files:" + name,
                           "operation %s failed with %s but changed %s" % (name, r, changed),
                           {"step": k, "changed_files": changed, "before": bd, "after": ad})
        # O3: no lost update - a changed object comes from the latest version, version + 1, and differs from
        # the previous content only by what the operation itself changes
        if hi is not None and pre is not None:
            if "cfg" in changed or "cfg_vf" in changed:
                exp = None if hi in self.dirty else _expected_cfg(op, bd["cfg"], w.hosts[hi])
                if (pre["cfg"]["version"] != bd["cfg_vf"] or ad["cfg_vf"] != bd["cfg_vf"] + 1
                        or ad["cfg"]["version"] != ad["cfg_vf"] or (exp is not None and _strip(ad["cfg"]) != exp)):
                    self._viol("lost-update:config:" + name,
                               "config written by %s is not the latest content plus this operation's change" % name,
                               {"step": k, "handle_copy_before": pre, "before": bd, "after": ad, "expected_content": exp})
            if "js" in changed or "js_vf" in changed:
                exp = None if hi in self.dirty else _expected_js(op, bd["js"])
                pj = pre["js"]
                if (pj is None or pj["version"] != bd["js_vf"] or ad["js_vf"] != bd["js_vf"] + 1
                        or ad["js"]["version"] != ad["js_vf"] or (exp is not None and _strip(ad["js"]) != exp)):
                    self._viol("lost-update:job_status:" + name,
                               "job status written by %s is not the latest content plus this operation's change" % name,
                               {"step": k, "handle_copy_before": pre, "before": bd, "after": ad, "expected_content": exp})
        if hi is not None and failed and r != "RBlocked":
            # Python keeps the in-memory changes made before the exception; a later successful write of this
            # handle persists them (its copy still carries the latest version, nothing newer is lost)
            self.dirty.add(hi)
        # O2: promotions / demotions
        promoted_now = r == "RBool true" or (r.startswith("RLoaded") and r.endswith("true"))
        if promoted_now:
            self.promotions += 1
            who = int(r.split()[1]) if r.startswith("RLoaded") else hi
            if bd["cfg"]["submitter"] is not None:
                self._viol("promoted-while-submitter-set",
                           "promotion succeeded although cluster_config.json named a submitter (%s)" % bd["cfg"]["submitter"],
                           {"step": k, "before": bd, "after": ad})
            if self.role_held and not self.protocol_broken:
                self._viol("double-promotion", "two successful promotions without a demotion in between",
                           {"step": k, "before": bd, "after": ad})
            self.role_held = True
            self.promoted[who] = True
        if name == "Demote" and op[0] == "Do" and r == "ROk" and bd["cfg"]["submitter"] != w.hosts[hi]:
            # the code's own guard (am_i_submitter): only the host named in the file may give the role up
            self._viol("foreign-host-demote",
                       "demote_from_submitter succeeded for a handle on host %s while the file named submitter %s"
                       % (w.hosts[hi], bd["cfg"]["submitter"]), {"step": k, "handle": hi, "before": bd, "after": ad})
        if name == "Demote" and op[0] == "Do":
            if not self.promoted.get(hi, False) and hi < len(w.handles):
                self.protocol_broken = True     # the sequence itself leaves the CLI protocol
            if r == "ROk":
                self.demotions += 1
                self.role_held = False
                self.promoted[hi] = False
                if not self.protocol_broken and ad["cfg"]["submitter"] is not None:
                    self._viol("demote-left-submitter", "successful demotion left a submitter in the file",
                               {"step": k, "after": ad})
        if not self.protocol_broken:
            holder_hosts = [w.hosts[i] for i, p in self.promoted.items() if p]
            sub = ad["cfg"]["submitter"]
            if (sub is None) != (not holder_hosts) or (holder_hosts and holder_hosts[0] != sub) or len(holder_hosts) > 1:
                self._viol("holder-field-disagree",
                           "submitter field (%s) does not name the host of the one promoted handle (%s)" % (sub, holder_hosts),
                           {"step": k, "after": ad})


def _views(files):
    cfg = json.loads(files["cfg"])
    js = json.loads(files["js"])
    return {"cfg": cd.cfg_view(cfg), "cfg_vf": int(files["cfg_vf"].decode().strip()),
            "js": cd.js_view(js), "js_vf": int(files["js_vf"].decode().strip())}


def _strip(v):
    return {k: x for k, x in v.items() if k != "version"}


def _expected_cfg(op, cfg, host):
    """content (without version) the latest config must have after `op` by a handle on `host`"""
    c = _strip(cfg)
    if op[0] == "Prep":
        c["complete"] = False
        c["canceled"] = False
        c["submitted"] = 0      # recounted from the job table; every job of this driver is NOT_SUBMITTED
        return c
    name = op[2]
    if name == "Promote":
        c["submitter"] = host
    elif name == "Demote":
        c["submitter"] = None
    elif name == "MarkComplete":
        c["complete"] = True
    elif name == "MarkCanceled":
        c["canceled"] = True
    elif name == "Update":
        c["submitted"] += op[3]
    elif name != "Serialize":
        return None
    return c


def _expected_js(op, js):
    j = _strip(js)
    if op[0] == "Prep":
        return j
    name = op[2]
    if name == "Update":
        j["batch"] = op[4]
        j["ids"] = list(op[5])
    elif name == "CompleteHpc":
        ids = list(j["ids"])
        if op[3] in ids:
            ids.remove(op[3])
        j["ids"] = ids
    elif name != "SerializeJobs":
        return None
    return j


# ------------------------------------------------------------------------------------------------
# generators
# ------------------------------------------------------------------------------------------------
def random_op(rng, w, mode, promoted):
    """next operation given the real world's current shape (number of handles, marker present)"""
    n = len(w.handles)
    if w.wedged() and rng.random() < 0.6:
        return ("Unwedge",)
    x = rng.random()
    if x < 0.22 or n == 0:
        host = rng.choice([0, 0, 1, 1, 2])
        return ("Load", host, rng.random() < 0.65, rng.random() < 0.75)
    if x < 0.24:
        return ("Do", n + rng.randint(0, 1), rng.choice(["Demote", "Serialize"]))
    i = rng.randrange(n)
    if mode == "protocol":
        # mostly the current holder acts; demote only by promoted handles
        holders = [k for k, p in promoted.items() if p]
        if holders and rng.random() < 0.7:
            i = holders[0]
    names = ["Promote"] * 2 + ["Demote"] * 5 + ["MarkComplete"] * 2 + ["MarkCanceled"] * 2 + ["Serialize"] * 3 + \
            ["SerializeJobs"] * 3 + ["Update"] * 8 + ["CompleteHpc"] * 3 + ["ReloadJobs"] * 2 + ["Prep"] * 2
    name = rng.choice(names)
    if name == "Demote" and mode == "protocol" and not promoted.get(i, False):
        name = "Serialize"
    if name == "Prep":
        return ("Prep", i, rng.randint(0, cd.NUM_JOBS))
    if name == "Update":
        ids = [rng.randint(1, 6) for _ in range(rng.choice([0, 1, 2, 3]))]
        return ("Do", i, "Update", rng.choice([0, 0, 1, 2]), rng.randint(1, 9), ids)
    if name == "CompleteHpc":
        try:
            ids = w.disk_view()["js"]["ids"]
        except Exception:  # noqa: BLE001
            ids = []
        pick = rng.choice(ids) if ids and rng.random() < 0.8 else rng.randint(1, 6)
        return ("Do", i, "CompleteHpc", pick)
    return ("Do", i, name)


def run_adaptive(chk, patched, host0, length, mode, parent):
    """random sequence chosen step by step against the real world; returns (ops, result dict)"""
    w = cd.World(patched, host0, parent)
    orc = Oracles(chk, host0, "random-" + mode)
    try:
        ops, steps = [], []
        for k in range(length):
            op = random_op(chk.rng, w, mode, orc.promoted)
            _one_step(w, orc, k, op, ops, steps)
        handles = [w.handle_view(i) for i in range(len(w.handles))]
        if w.extra_files():
            chk.tie_broken("backup file left behind", str(w.extra_files()))
        return ops, {"steps": steps, "handles": handles}, orc
    finally:
        w.close()


def _one_step(w, orc, k, op, ops, steps):
    before = w.files()
    hi = cd.op_handle(op)
    ok = hi is not None and hi < len(w.handles)
    st = w.stale(hi) if ok else None
    pre = w.handle_view(hi) if ok else None
    r = w.apply(op)
    after = w.files()
    ops.append(op)
    steps.append((r, w.disk_view(), w.wedged()))
    orc.on_step(w, k, op, before, st, pre, r, after)


def run_fixed(chk, patched, host0, ops_in, kind, parent):
    w = cd.World(patched, host0, parent)
    orc = Oracles(chk, host0, kind)
    try:
        ops, steps = [], []
        for k, op in enumerate(ops_in):
            _one_step(w, orc, k, tuple(op), ops, steps)
        handles = [w.handle_view(i) for i in range(len(w.handles))]
        return ops, {"steps": steps, "handles": handles}, orc
    finally:
        w.close()


DIRECTED = {
    # the defect repaired by "reject a stale job-status copy before the cluster config is written"
    "update-partial-write": (0, [("Do", 0, "Demote"), ("Load", 1, False, True), ("Do", 0, "Update", 0, 2, [11]),
                                 ("Do", 1, "Update", 1, 7, [99]), ("Unwedge",), ("Do", 1, "Serialize")]),
    "prep-js-stale": (0, [("Do", 0, "MarkComplete"), ("Load", 1, False, True), ("Do", 0, "SerializeJobs"),
                          ("Prep", 1, 2), ("Prep", 0, 1)]),
    "stale-everything": (0, [("Load", 1, False, True), ("Do", 0, "Demote"), ("Do", 1, "Promote"), ("Unwedge",),
                             ("Do", 1, "Demote"), ("Unwedge",), ("Do", 1, "MarkComplete"), ("Unwedge",),
                             ("Do", 1, "MarkCanceled"), ("Unwedge",), ("Do", 1, "Serialize"), ("Unwedge",),
                             ("Do", 1, "Update", 2, 3, [5]), ("Unwedge",), ("Do", 0, "Update", 1, 2, [4, 5]),
                             ("Do", 1, "SerializeJobs"), ("Unwedge",), ("Do", 1, "CompleteHpc", 4), ("Unwedge",),
                             ("Prep", 1, 1), ("Do", 1, "ReloadJobs"), ("Do", 1, "CompleteHpc", 4),
                             ("Do", 1, "Update", 1, 5, [])]),
    # D5 (repaired in resubmit_jobs): a same-host handle that was NOT promoted demotes; the sequence itself
    # leaves the CLI protocol, Cluster cannot tell the two handles apart
    "same-host-demote": (0, [("Load", 0, True, True), ("Do", 1, "Demote"), ("Load", 1, True, True)]),
    "cross-host-demote": (0, [("Load", 1, True, True), ("Do", 1, "Demote"), ("Unwedge",), ("Load", 2, True, False)]),
    "promote-race": (0, [("Do", 0, "Demote"), ("Load", 1, False, False), ("Load", 2, False, False), ("Do", 1, "Promote"),
                         ("Do", 2, "Promote"), ("Unwedge",), ("Load", 2, True, True), ("Do", 1, "Demote"),
                         ("Load", 2, True, True), ("Do", 3, "Promote"), ("Do", 4, "Promote")]),
    "noop-serialize": (0, [("Do", 0, "Serialize"), ("Do", 0, "Serialize"), ("Do", 0, "SerializeJobs"),
                           ("Do", 0, "Update", 0, 1, []), ("Do", 0, "Update", 0, 1, []), ("Load", 0, False, False),
                           ("Do", 1, "Serialize"), ("Do", 0, "Serialize")]),
    "wedge-blocks": (0, [("Do", 0, "MarkComplete"), ("Do", 0, "MarkComplete"), ("Load", 1, True, True), ("Do", 0, "Demote"),
                         ("Prep", 0, 2), ("Unwedge",), ("Do", 0, "Demote"), ("Do", 0, "Demote")]),
    "no-jobs-loaded": (0, [("Load", 1, False, False), ("Do", 1, "Update", 1, 2, [3]), ("Unwedge",), ("Do", 1, "SerializeJobs"),
                           ("Unwedge",), ("Do", 1, "CompleteHpc", 3), ("Unwedge",), ("Do", 0, "MarkComplete"),
                           ("Load", 1, False, False), ("Prep", 2, 1), ("Do", 2, "ReloadJobs"), ("Prep", 2, 1)]),
}


def correspondence(chk, tmp):
    quick = chk.tier == "quick"
    n_random = 140 if quick else 2500
    cmp_ = core.CoqCompare("c10_seq", IMPORTS, "fun c => observe (create (fst c)) (snd c)", "obs_eqb",
                           "N * list dop", "list sview * list hview", shard=40 if quick else 160)
    dist = {"sequences": 0, "ops": 0, "by_op": {}, "by_result": {}, "stale_write_attempts": 0, "rejected_ops": 0,
            "promotions": 0, "demotions": 0, "protocol_sequences": 0, "chaos_sequences": 0, "directed": len(DIRECTED),
            "max_handles": 0}

    def account(ops, res, orc, host0, meta):
        cmp_.add(cd.input_term(host0, ops), cd.expected_term(res), meta)
        chk.count(("seq", host0, tuple(map(tuple, map(_flat, ops)))), nontrivial=orc.promotions + orc.stale_writes > 0)
        dist["sequences"] += 1
        dist["ops"] += len(ops)
        dist["stale_write_attempts"] += orc.stale_writes
        dist["rejected_ops"] += orc.rejected
        dist["promotions"] += orc.promotions
        dist["demotions"] += orc.demotions
        dist["max_handles"] = max(dist["max_handles"], len(res["handles"]))
        for op, (r, _, _) in zip(ops, res["steps"]):
            nm = op[2] if op[0] == "Do" else op[0]
            dist["by_op"][nm] = dist["by_op"].get(nm, 0) + 1
            rk = r.split()[0] if not r.startswith("EXC") else "EXC"
            dist["by_result"][rk] = dist["by_result"].get(rk, 0) + 1

    with cd.Patched() as p:
        for name, (host0, ops_in) in DIRECTED.items():
            ops, res, orc = run_fixed(chk, p, host0, ops_in, "directed:" + name, tmp)
            account(ops, res, orc, host0, {"kind": "directed:" + name, "host0": host0, "ops": ops,
                                           "impl_results": [s[0] for s in res["steps"]]})
        for k in range(n_random):
            mode = "protocol" if k % 2 == 0 else "chaos"
            host0 = chk.rng.choice([0, 1])
            length = chk.rng.choice([6, 10, 14, 20, 28])
            ops, res, orc = run_adaptive(chk, p, host0, length, mode, tmp)
            dist[mode + "_sequences"] += 1
            account(ops, res, orc, host0, {"kind": "random-" + mode, "host0": host0, "ops": ops,
                                           "impl_results": [s[0] for s in res["steps"]]})
            if k < 2:
                chk.sample({"kind": "random-" + mode, "host0": host0, "ops": ops, "results": [s[0] for s in res["steps"]]})
    bad = cmp_.run()
    chk.oblige("correspondence Cluster handles vs model: results, four files, lock marker per step, handle copies "
               "(%d sequences, %d operations)" % (dist["sequences"], dist["ops"]), not bad, "first differing: %s" % bad[:5])
    for i in bad[:3]:
        chk.tie_broken("correspondence Cluster.observe vs jade.jobs.cluster.Cluster",
                       json.dumps({"case": cmp_.cases[i][2], **cmp_.show(i)}, default=str)[:3000])
    chk.notes.setdefault("input_distribution", {})["cluster_sequences"] = dist


def _flat(op):
    return tuple(tuple(x) if isinstance(x, list) else x for x in op)



# ------------------------------------------------------------------------------------------------
# the real CLI call sites
# ------------------------------------------------------------------------------------------------
NEUTRAL_HOPS = {"mark_complete": "HMarkComplete", "mark_canceled": "HMarkCanceled",
                "update_job_status": "(HUpdate 0 0 [])", "complete_hpc_job_id": "(HCompleteHpc 0)",
                "prepare_for_resubmission": "(HPrepare 0)", "serialize": "HSerialize",
                "serialize_jobs": "HSerializeJobs", "deserialize_jobs": "HReloadJobs",
                "promote_to_submitter": "HPromote", "demote_from_submitter": "HDemote"}


class Recorder:
    """Wraps the real Cluster class: per handle object the list of local events
    ('Loaded', promoted) / (method, result)."""

    def __init__(self, cl):
        self.cl = cl
        self.events = {}      # id(handle) -> list
        self.order = []       # handles in creation order
        self._saved = {}

    def _new(self, h, first):
        self.events[id(h)] = [first]
        self.order.append(h)

    def __enter__(self):
        C = self.cl.Cluster
        rec = self
        self._saved["deserialize"] = C.__dict__["deserialize"]
        self._saved["create"] = C.__dict__["create"]
        orig_des = C.deserialize.__func__
        orig_create = C.create.__func__

        def deserialize(cls, path, try_promote_to_submitter=False, deserialize_jobs=False):
            c, promoted = orig_des(cls, path, try_promote_to_submitter=try_promote_to_submitter,
                                   deserialize_jobs=deserialize_jobs)
            rec._new(c, ("Loaded", bool(promoted)))
            return c, promoted

        def create(cls, *a, **k):
            c = orig_create(cls, *a, **k)
            rec._new(c, ("Created", True))
            return c
        C.deserialize = classmethod(deserialize)
        C.create = classmethod(create)
        for name in NEUTRAL_HOPS:
            orig = getattr(C, name)
            self._saved[name] = orig

            def wrapper(self_, *a, __orig=orig, __name=name, **k):
                try:
                    val = __orig(self_, *a, **k)
                except Exception as e:  # noqa: BLE001
                    rec.events.setdefault(id(self_), []).append((__name, cd.classify(e)))
                    raise
                r = "ROk"
                if __name == "promote_to_submitter":
                    r = "RBool true" if val else "RBool false"
                rec.events.setdefault(id(self_), []).append((__name, r))
                return val
            setattr(C, name, wrapper)
        return self

    def __exit__(self, *a):
        C = self.cl.Cluster
        for name, orig in self._saved.items():
            setattr(C, name, orig)


def _lev_term(ev):
    if ev[0] in ("Loaded",):
        return "LLoaded %s" % cd.t_bool(ev[1])
    r = ev[1]
    if r.startswith("EXC:"):
        r = "RValueError"
    return "LOp %s %s" % (NEUTRAL_HOPS[ev[0]], cd.t_result(r))


def _local_ok(events, promoted0):
    """Python twin of the CLI bookkeeping: a demote while no own promotion is outstanding -> index"""
    p = promoted0
    for k, ev in enumerate(events):
        if ev[0] in ("Loaded", "Created"):
            p = ev[1]
        elif ev[0] == "promote_to_submitter" and ev[1] == "RBool true":
            p = True
        elif ev[0] == "demote_from_submitter":
            if not p:
                return k
            if ev[1] == "ROk":
                p = False
    return None


class _Patches:
    def __init__(self):
        self.saved = []

    def set(self, obj, name, val):
        self.saved.append((obj, name, getattr(obj, name)))
        setattr(obj, name, val)

    def undo(self):
        for obj, name, val in reversed(self.saved):
            setattr(obj, name, val)


def _body(kind, cluster):
    """what the stubbed JobSubmitter methods do with the cluster"""
    from jade.enums import Status
    if kind == "raise":
        raise RuntimeError("submit failed")
    if kind == "update":
        cluster.update_job_status([], [], [], set(), ["7"], 2)
        return Status.IN_PROGRESS
    if kind == "complete":
        cluster.update_job_status([], [], [None], set(), [], 2)
        cluster.mark_complete()
        return Status.GOOD
    if kind == "update-raise":
        cluster.update_job_status([], [], [], set(), ["7"], 2)
        raise RuntimeError("after update")
    return Status.IN_PROGRESS


def callsites(chk, tmp):
    import jade.cli.try_submit_jobs as m_try
    import jade.cli.cancel_jobs as m_cancel
    import jade.cli.resubmit_jobs as m_resub
    import jade.jobs.job_submitter as m_js
    import jade.jobs.job_runner as m_jr
    progs = {"try_submit_jobs": "prog_try_submit", "cancel_jobs": "prog_cancel", "resubmit_jobs": "prog_resubmit",
             "run_submit_jobs": "prog_run_submit", "_complete_hpc_job": "prog_complete_hpc"}
    cmp_ = core.CoqCompare("c10_cli", IMPORTS, "fun c => accepts (fst c) (snd c)", "Bool.eqb", "prog * list lev", "bool")
    dist = {"runs": 0, "by_cli": {}, "handles": 0, "promoted_handles": 0, "demotes": 0, "exceptions_in_body": 0}
    bodies = ["ok", "update", "complete", "raise", "update-raise"]
    # (role held by: None | "other-host" | "same-host", submission complete?)
    situations = [(None, False), (None, True), ("other-host", False), ("other-host", True), ("same-host", False),
                  ("same-host", True)]

    class StubSubmitter:
        kind = "ok"

        def submit_jobs(self, cluster, force_local=False):
            return _body(StubSubmitter.kind, cluster)

        def cancel_jobs(self, cluster):
            if StubSubmitter.kind in ("raise", "update-raise"):
                raise RuntimeError("cancel failed")
            cluster.mark_canceled()

    with cd.Patched() as p:
        for cli in progs:
            for held, complete in situations:
                for body in bodies:
                    if cli == "run_submit_jobs" and (held is not None or complete):
                        continue
                    w = None
                    pt = _Patches()
                    try:
                        # --- prepare the directory with real Cluster calls
                        if cli != "run_submit_jobs":
                            w = cd.World(p, 0, tmp)
                            creator = w.handles[0]
                            if complete:
                                creator.mark_complete()
                            creator.demote_from_submitter()
                            holder = None
                            if held:
                                p.host = cd.hostname(1 if held == "other-host" else 0)
                                holder, ok = w.Cluster.deserialize(w.dir, try_promote_to_submitter=True, deserialize_jobs=True)
                                assert ok
                            outdir = w.dir
                        else:
                            outdir = tempfile.mkdtemp(prefix="verif_c10_rs_", dir=tmp)
                        before = None if w is None else w.disk_view()
                        p.host = cd.hostname(0)
                        StubSubmitter.kind = body
                        noop = lambda *a, **k: __import__("logging").getLogger("verif")  # noqa: E731
                        for m in (m_try, m_cancel, m_resub):
                            pt.set(m, "setup_logging", noop)
                            if hasattr(m, "setup_event_logging"):
                                pt.set(m, "setup_event_logging", noop)
                            pt.set(m.JobSubmitter, "load", classmethod(lambda cls, out: StubSubmitter()))
                        pt.set(m_cancel.time, "sleep", lambda s: None)
                        pt.set(m_cancel, "run_command", lambda *a, **k: 0)
                        pt.set(m_resub, "_get_jobs_to_resubmit", lambda *a, **k: {"j0", "j1"})
                        pt.set(m_resub, "_update_with_blocking_jobs", lambda *a, **k: {})
                        pt.set(m_resub, "_reset_results", lambda *a, **k: None)
                        pt.set(m_js.JobSubmitter, "submit_jobs", lambda self, cluster, force_local=False: _body(body, cluster))
                        pt.set(m_jr.time, "sleep", lambda s: None)
                        outcome = None
                        import contextlib
                        import io
                        with Recorder(p.cl) as rec, contextlib.redirect_stdout(io.StringIO()), contextlib.redirect_stderr(io.StringIO()):
                            try:
                                if cli == "try_submit_jobs":
                                    m_try.try_submit_jobs.callback(outdir, False)
                                elif cli == "cancel_jobs":
                                    m_cancel.cancel_jobs.callback(outdir, True, False)
                                elif cli == "resubmit_jobs":
                                    m_resub.resubmit_jobs.callback(outdir, True, True, False, None, False)
                                elif cli == "run_submit_jobs":
                                    m_js.JobSubmitter.run_submit_jobs(cd.jade_config(), outdir)
                                else:
                                    jr = object.__new__(m_jr.JobRunner)
                                    jr._output = outdir
                                    jr._intf = type("I", (), {"get_current_job_id": lambda self: "7"})()
                                    # a job id to complete: put it there unless the body wants the call to raise
                                    if body not in ("raise", "update-raise") and holder is None:
                                        hh, ok = w.Cluster.__dict__["deserialize"].__func__(w.Cluster, w.dir, True, True)
                                        rec.events.pop(id(hh), None)
                                        rec.order.remove(hh)
                                        hh.update_job_status([], [], [], set(), ["7"], 2)
                                        hh.demote_from_submitter()
                                        rec.events.pop(id(hh), None)
                                    jr._complete_hpc_job()
                                outcome = "returned"
                            except SystemExit as e:
                                outcome = "exit %s" % (e.code,)
                            except Exception as e:  # noqa: BLE001
                                outcome = "raised " + type(e).__name__
                            handles = [(h, rec.events.get(id(h), [])) for h in rec.order]
                        after = None
                        try:
                            cfgf = os.path.join(outdir, p.cl.Cluster.CLUSTER_CONFIG_FILE)
                            if os.path.exists(cfgf):
                                after = cd.cfg_view(json.load(open(cfgf)))
                        except Exception:  # noqa: BLE001
                            after = None
                        dist["runs"] += 1
                        dist["by_cli"][cli] = dist["by_cli"].get(cli, 0) + 1
                        if body in ("raise", "update-raise"):
                            dist["exceptions_in_body"] += 1
                        meta_base = {"cli": cli, "role_held_by": held, "submission_complete": complete, "body": body,
                                     "outcome": outcome}
                        any_promoted = False
                        for h, evs in handles:
                            dist["handles"] += 1
                            created = evs and evs[0][0] == "Created"
                            promoted0 = bool(created)
                            if any(e[0] in ("Loaded", "Created") and e[1] for e in evs):
                                dist["promoted_handles"] += 1
                                any_promoted = True
                            dist["demotes"] += sum(1 for e in evs if e[0] == "demote_from_submitter")
                            bad_at = _local_ok(evs, promoted0)
                            if bad_at is not None:
                                chk.violation("cli-demote-without-promotion:" + cli,
                                              "%s called demote_from_submitter although its own promotion was not outstanding" % cli,
                                              dict(meta_base, events=evs, at=bad_at, component="jade/cli call site"))
                            lev = [e for e in evs if e[0] != "Created"]
                            cmp_.add("(%s, [%s])" % (progs[cli], "; ".join(_lev_term(e) for e in lev)), "true",
                                     dict(meta_base, events=evs))
                            chk.count(("cli", cli, held, complete, body, tuple(map(tuple, evs))))
                        # D5: a CLI that was not promoted must leave a foreign role untouched
                        if held and not any_promoted and before is not None and after is not None:
                            if after["submitter"] != before["cfg"]["submitter"]:
                                chk.violation("cli-cleared-foreign-role:" + cli,
                                              "%s was not promoted but the submitter field changed from %s to %s"
                                              % (cli, before["cfg"]["submitter"], after["submitter"]),
                                              dict(meta_base, before=before["cfg"], after=after,
                                                   events=[e for _, e in handles], component="jade/cli call site"))
                        if dist["runs"] in (3, 40):
                            chk.sample(dict(meta_base, events=[e for _, e in handles]))
                    finally:
                        pt.undo()
                        if w is not None:
                            w.close()
    bad = cmp_.run()
    chk.oblige("call-site programs accept every observed life of a handle in the real CLI callbacks (%d handles in %d runs)"
               % (len(cmp_.cases), dist["runs"]), not bad, "first differing: %s" % bad[:5])
    for i in bad[:3]:
        chk.tie_broken("call-site program of Cluster.v does not accept what the real CLI did",
                       json.dumps(cmp_.cases[i][2], default=str)[:2000])
    chk.notes.setdefault("input_distribution", {})["cli_callsites"] = dist

# ------------------------------------------------------------------------------------------------
def _component_run(chk):
    proofs_ok = core.standard_proof_phase(chk, "C10", gen_needed=())
    import logging
    logging.disable(logging.CRITICAL)
    tmp = tempfile.mkdtemp(prefix="verif_c10_")
    try:
        parts = [correspondence, callsites]
        for part in parts:
            if not proofs_ok and not (core.THEORIES / "Cluster.vo").exists():
                break
            try:
                part(chk, tmp)
            except core.BuildError as e:
                chk.oblige("coqc evaluation in " + part.__name__, False, str(e) + e.log[-800:])
                chk.tie_broken("model evaluation failed in " + part.__name__, e.log[-1200:])
    finally:
        shutil.rmtree(tmp, ignore_errors=True)
    chk.notes["rule"] = ("cases = operation sequences over real Cluster handles: directed corner cases + random sequences "
                         "(protocol-following and arbitrary), chosen step by step against the real directory; "
                         "non-trivial = at least one promotion or stale write attempt; distinct by content hash")
    chk.coverage["rule"] = chk.notes["rule"]
    chk.assumptions += ["operations are atomic (they run under the cluster lock; A-FS: O_EXCL lock file creation is atomic)",
                        "equality of Python hash() of the JSON text is modelled as equality of content",
                        "a process killed between the two file writes of one serialize is C11's subject, not modelled here"]


def _component_replay(path):
    """Re-run the recorded operation sequence on the real code and print what happens."""
    core.ensure_env()
    obj = json.load(open(path))
    print(json.dumps({k: v for k, v in obj.items() if k not in ("before", "after")}, indent=1)[:3000])
    if "ops" in obj and "host0" in obj:
        with cd.Patched() as p:
            res = cd.run_sequence(p, obj["host0"], [tuple(o) for o in obj["ops"]])
        for op, (r, d, wd) in zip(obj["ops"], res["steps"]):
            print(op, "->", r, d, "marker" if wd else "")
    return 0


# ------------------------------------------------------------------------------------------------
# system level (added by the coordinator): the real code in the virtual cluster, impl traces accepted
# by System.step, Coq monitors and Python oracles (harness/syscheck.py)
def run(chk):
    _component_run(chk)
    from harness import syscheck
    core.extra_props_phase(chk, "C10_system")
    syscheck.system_phase(chk, "C10", {'plain': 3, 'racing_try': 4, 'cancel': 2, 'kill': 2, 'squeuefail': 1}, n_quick=120, n_thorough=2500, also=())


def replay(path):
    import json as _json
    try:
        obj = _json.load(open(path))
    except Exception:  # noqa
        obj = {}
    if isinstance(obj, dict) and "scenario" in obj and "schedule" in obj and "plan" in obj:
        from harness import syscheck
        return syscheck.replay_case(path)
    return _component_replay(path)
