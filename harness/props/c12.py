"""C12 - every job is accounted for when batches fail, are killed or time out
Proofs: coq/theories/Props/C12.v over the system model (System.v) - every accepted trace.
Tie: the real jade code runs in the virtual cluster (harness/vcluster.py) under generated scenarios,
schedules, sbatch failures, node kills and time-outs, dependency cycles; every impl trace must be accepted by System.step (coqc vm_compute) and satisfy the
Coq monitors; Python oracles judge impl's trace and final state directly (harness/syscheck.py)."""
from harness import core, syscheck

MODES = {'sbatchfail': 3, 'timeout': 3, 'kill': 2, 'cyclic': 2, 'plain': 1, 'appendtimeout': 1, 'suspend': 2, 'bigloss': 2}


def run(chk):
    ok = core.standard_proof_phase(chk, "C12", gen_needed=())
    chk.notes["system_theorems"] = ['c12_accounting_partial', 'c12_no_start_after_missing', 'c12_rows_kept', 'c12_completion_after_loss_partial', 'c12_forced_completion_only_when_nothing_active']
    chk.notes["partial"] = 'proved: a round from a quiescent state that reaches its completion check submits or completes; NOT proved in Coq: that it reaches the check (oracle on impl); known finding: a node that dies while holding a result-file or cluster lock with markers never broken wedges collection'
    syscheck.system_phase(chk, "C12", MODES, n_quick=200, n_thorough=3500, also=(), directed=("node_dies_holding_result_lock", "try_races_with_last_node"))


def replay(path):
    return syscheck.replay_case(path)
