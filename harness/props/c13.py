"""C13 - resubmission reruns exactly the selected jobs and their dependents.

Proofs: coq/theories/Props/C13.v (model Resubmit.v, proofs ResubmitProofs.v).
Correspondence: REAL completed submissions are built on disk (harness/resubmitdrv.py: real JobSubmitter,
Cluster, HpcSubmitter, JobRunner, ResultsAggregator, CLI callbacks; only sbatch/squeue/Popen/`jade ...`
sub-commands are scripted), then the real helpers of jade/cli/resubmit_jobs.py and the whole real
`resubmit_jobs` command run on them; the Gallina model is evaluated by coqc on the same inputs.
Search for failing inputs: Python oracles over impl's own outputs (independent least closure,
row preservation, counters, launches of the rerun, role handling)."""
import json
import logging
import os
import shutil
import socket
import struct
import tempfile
import time
from contextlib import contextmanager

from harness import core
from harness import resubmitdrv as rd
from harness.core import cN, cZ, cbool, clist

IMPORTS = "From Coq Require Import List ZArith NArith Bool Arith.\nFrom Jade Require Import Base Resubmit."

PRELUDE = r"""
Definition set_eqb (a b : list N) : bool := subsetN a b && subsetN b a.
Definition sjob_eqb (a b : sjob) : bool :=
  N.eqb (s_name a) (s_name b) && jstate_eqb (s_state a) (s_state b) && set_eqb (s_blocked a) (s_blocked b).
Definition cluster_eqb (a b : cluster) : bool :=
  option_eqb N.eqb (c_submitter a) (c_submitter b) && Bool.eqb (c_complete a) (c_complete b) &&
  Bool.eqb (c_canceled a) (c_canceled b) &&
  Z.eqb (c_num a) (c_num b) && Z.eqb (c_submitted a) (c_submitted b) && Z.eqb (c_completed a) (c_completed b) &&
  list_eqb (prod_eqb N.eqb N.eqb) (c_groups a) (c_groups b) && list_eqb sjob_eqb (c_jobs a) (c_jobs b).
(* events directory: only "exists" and "is empty" are observed *)
Definition ev_eqb (a b : option (list N)) : bool :=
  option_eqb Bool.eqb (option_map (fun l => Nat.eqb (length l) 0) a) (option_map (fun l => Nat.eqb (length l) 0) b).
Definition world_eqb (a b : world) : bool :=
  cluster_eqb (w_cluster a) (w_cluster b) && list_eqb row_eqb (w_rows a) (w_rows b) && ev_eqb (w_events a) (w_events b).
Definition outcome_eqb (a b : outcome) : bool :=
  match a, b with
  | Exit x, Exit y => Z.eqb x y
  | Raised f, Raised g => fault_eqb f g
  | AssertPromoted, AssertPromoted | AssertClosure, AssertClosure | AssertPrepare, AssertPrepare
  | AssertDemote, AssertDemote => true
  | _, _ => false
  end.
(* helper level: (selected set, rerun set, blockers of every config job) ; None = assertion *)
Definition helpers (c : (bool * bool * bool) * list row * list N * list cjob) :=
  match c with (fl, ms, su, results, jobs, cfg) =>
    let sel := selected fl ms su results jobs in
    match closure cfg sel with
    | ClOk (s, d) => Some (sel, s, map (fun j => new_blockers d (cj_name j)) cfg, map fst d)
    | ClAssert _ _ _ => None
    end
  end.
Definition closure_only (c : list cjob * list N) :=
  match closure (fst c) (snd c) with
  | ClOk (s, d) => Some (s, map (fun j => new_blockers d (cj_name j)) (fst c), map fst d)
  | ClAssert _ _ _ => None
  end.
Definition closure_only_eqb (a b : option (list N * list (list N) * list N)) :=
  option_eqb (fun x y => match x, y with (r1, b1, k1), (r2, b2, k2) =>
     set_eqb r1 r2 && list_eqb set_eqb b1 b2 && set_eqb k1 k2 end) a b.
Definition helpers_eqb (a b : option (list N * list N * list (list N) * list N)) :=
  option_eqb (fun x y => match x, y with (s1, r1, b1, k1), (s2, r2, b2, k2) =>
     set_eqb s1 s2 && set_eqb r1 r2 && list_eqb set_eqb b1 b2 && set_eqb k1 k2 end) a b.
"""

ME = 77          # this host in the model
OTHER = 5        # another host
STATUS_CODE = {"finished": 0, "canceled": 1}
STATE_TERM = {"not_submitted": "NOT_SUBMITTED", "submitted": "SUBMITTED", "done": "DONE"}


def fbits(x):
    """exact integer image of a float (the model never does arithmetic on times)"""
    return struct.unpack(">q", struct.pack(">d", float(x)))[0]


class Enc:
    """scenario-local encoding of names into N"""

    def __init__(self, names, groups):
        self.j = {n: i + 1 for i, n in enumerate(names)}
        self.g = {n: i + 1 for i, n in enumerate(groups)}
        self.host = socket.gethostname()

    def name(self, n):
        if n not in self.j:
            self.j[n] = 900 + len(self.j)
        return cN(self.j[n])

    def names(self, ns):
        return clist([self.name(n) for n in ns])

    def hpc(self, h):
        if h is None:
            return "None"
        if h == "":
            return "(Some 0%N)"
        return f"(Some {cN(int(h))})"

    def row(self, r):
        name, rc, status, ex, ct, hpc = r
        st = STATUS_CODE.get(status, 2)
        return (f"{{| r_name := {self.name(name)}; r_rc := {cZ(rc)}; r_status := {cN(st)}; r_exec := {cZ(fbits(ex))}; "
                f"r_ctime := {cZ(fbits(ct))}; r_hpc := {self.hpc(hpc)} |}}")

    def rows(self, rows):
        return clist([self.row(r) for r in rows])

    def submitter(self, s):
        if s is None:
            return "None"
        return f"(Some {cN(ME if s == self.host else OTHER)})"

    def cluster(self, snap, submitter="keep"):
        sub = snap["submitter"] if submitter == "keep" else submitter
        jobs = clist([f"{{| s_name := {self.name(n)}; s_state := {STATE_TERM[st]}; s_blocked := {self.names(bl)} |}}"
                      for n, st, bl in snap["jobs"]])
        groups = clist([f"({cN(self.g.get(g, 99))}, {cN(p)})" for g, p in snap["groups"]])
        return (f"{{| c_submitter := {self.submitter(sub)}; c_complete := {cbool(snap['is_complete'])}; "
                f"c_canceled := {cbool(snap['is_canceled'])}; "
                f"c_num := {cZ(snap['num_jobs'])}; c_submitted := {cZ(snap['submitted_jobs'])}; "
                f"c_completed := {cZ(snap['completed_jobs'])}; c_groups := {groups}; c_jobs := {jobs} |}}")

    def config(self, cfgjobs):
        return clist([f"{{| cj_name := {self.name(n)}; cj_deps := {self.names(d)} |}}" for n, d in cfgjobs])

    def events(self, ev):
        return "None" if ev is None else "(Some " + clist([cN(1)] * min(len(ev), 3)) + ")"

    def world(self, snap, submitter="keep"):
        return (f"{{| w_cluster := {self.cluster(snap, submitter)}; w_rows := {self.rows(snap['rows'])}; "
                f"w_results := {self.rows(snap['results_full'])}; w_config := {self.config(snap['config'])}; "
                f"w_events := {self.events(snap['events'])} |}}")


def full_snapshot(out):
    from jade.jobs.cluster import Cluster
    snap = rd.snapshot(out)
    c, _ = Cluster.deserialize(out, deserialize_jobs=False)
    snap["groups"] = [(g.name, g.submitter_params.per_node_batch_size) for g in c.config.submission_groups]
    snap["config"] = rd.config_jobs(out)
    rj = os.path.join(out, "results.json")
    if os.path.exists(rj):
        data = json.load(open(rj))
        snap["results_full"] = [(r["name"], r["return_code"], r["status"], r["exec_time_s"], r["completion_time"],
                                 r.get("hpc_job_id")) for r in data["results"]]
    else:
        snap["results_full"] = []
    ev = os.path.join(out, "events")
    snap["events"] = sorted(os.listdir(ev)) if os.path.isdir(ev) else None
    return snap


# ------------------------------------------------------------------------------------------------
# scenario generation
# ------------------------------------------------------------------------------------------------
def gen_scenario(rng, max_jobs, shape=None):
    n = rng.randint(1, max_jobs)
    names = [f"j{i}" for i in range(1, n + 1)]
    shape = shape or rng.choice(["random", "random", "random", "revchain", "chain", "diamond", "flat"])
    topo = names[:]
    rng.shuffle(topo)
    pos = {x: i for i, x in enumerate(topo)}
    deps = {x: [] for x in names}
    if shape == "random":
        p = rng.choice([0.2, 0.35, 0.6])
        for x in names:
            deps[x] = [y for y in names if pos[y] < pos[x] and rng.random() < p]
    elif shape == "revchain":      # listed j1..jn, j_k blocked by j_{k+1}: the listing is the reverse of the order
        for i in range(n - 1):
            deps[names[i]] = [names[i + 1]]
    elif shape == "chain":
        for i in range(1, n):
            deps[names[i]] = [names[i - 1]]
    elif shape == "diamond" and n >= 4:
        deps[names[1]] = [names[0]]
        deps[names[2]] = [names[0]]
        for x in names[3:]:
            deps[x] = [names[1], names[2]]
    ngroups = rng.choice([1, 1, 2])
    groups = [{"name": f"g{k}", "size": rng.choice([1, 2, 3, 4, 500]), "try": rng.random() < 0.7,
               "reports": False} for k in range(ngroups)]
    reports = rng.random() < 0.5
    for g in groups:
        g["reports"] = reports
    jobs = [{"name": x, "deps": deps[x], "cancel": rng.random() < 0.5, "group": f"g{rng.randrange(ngroups)}", "est": 1}
            for x in names]
    # outcomes per attempt: rc list; "die" kills the node (job and the unfinished rest of the batch missing)
    oc = {}
    for x in names:
        seq = []
        for _ in range(4):
            r = rng.random()
            seq.append("die" if r < 0.10 else (rng.choice([1, 2, 7]) if r < 0.35 else 0))
        oc[x] = seq
    sc = {"jobs": jobs, "groups": groups, "max_nodes": rng.choice([None, None, 1, 2]), "outcomes": oc,
          "shape": shape, "reports": reports}
    if rng.random() < 0.12:
        sc["cancel_after_first_batch"] = True      # the user runs cancel-jobs after the first batch
        sc["shape"] = shape + "+user-canceled"
    return sc


def directed_scenarios():
    """corner cases named in the property: 1 job, reversed chain, every result kind at once"""
    g = [{"name": "g0", "size": 2, "try": True, "reports": False}]
    out = []
    out.append({"jobs": [{"name": "j1", "deps": [], "cancel": False, "group": "g0", "est": 1}], "groups": g,
                "max_nodes": None, "outcomes": {"j1": [1, 0, 0, 0]}, "shape": "single", "reports": False})
    n = 6
    out.append({"jobs": [{"name": f"j{i}", "deps": [f"j{i + 1}"] if i < n else [], "cancel": False, "group": "g0", "est": 1}
                         for i in range(1, n + 1)], "groups": g, "max_nodes": None,
                "outcomes": {f"j{i}": [0, 0, 0, 0] for i in range(1, n)} | {f"j{n}": [3, 0, 0, 0]},
                "shape": "revchain-root-fails", "reports": False})
    gr = [{"name": "g0", "size": 2, "try": True, "reports": True}]
    out.append({"jobs": [
        {"name": "j1", "deps": [], "cancel": False, "group": "g0", "est": 1},        # fails
        {"name": "j2", "deps": ["j1"], "cancel": True, "group": "g0", "est": 1},      # canceled
        {"name": "j3", "deps": ["j2"], "cancel": False, "group": "g0", "est": 1},     # successful, depends on canceled
        {"name": "j4", "deps": [], "cancel": False, "group": "g0", "est": 1},         # missing (node dies)
        {"name": "j5", "deps": ["j4"], "cancel": False, "group": "g0", "est": 1},     # missing (never submitted)
        {"name": "j6", "deps": [], "cancel": False, "group": "g0", "est": 1},         # successful, independent
        {"name": "j7", "deps": ["j6", "j1"], "cancel": False, "group": "g0", "est": 1}],
        "groups": gr, "max_nodes": None,
        "outcomes": {"j1": [1, 0, 0, 0], "j2": [0, 0, 0, 0], "j3": [0, 0, 0, 0], "j4": ["die", 0, 0, 0], "j5": [0, 0, 0, 0],
                     "j6": [0, 0, 0, 0], "j7": [0, 0, 0, 0]}, "shape": "all-kinds", "reports": True})
    # a submission canceled by the user (cancel-jobs) after its first batch, then completed: resubmit-jobs must run
    # the selected jobs again (fixed defect `resubmit-on-canceled-submission-erases-and-runs-nothing`)
    g1 = [{"name": "g0", "size": 1, "try": True, "reports": False}]
    out.append({"jobs": [{"name": f"j{i}", "deps": [], "cancel": False, "group": "g0", "est": 1} for i in (1, 2, 3)],
                "groups": g1, "max_nodes": 1, "outcomes": {"j1": [1, 0, 0, 0], "j2": [0, 0, 0, 0], "j3": [0, 0, 0, 0]},
                "shape": "user-canceled", "reports": False, "cancel_after_first_batch": True, "first_flags": (True, False, False)})
    out.append({"jobs": [{"name": "j1", "deps": [], "cancel": False, "group": "g0", "est": 1},
                         {"name": "j2", "deps": ["j1"], "cancel": True, "group": "g0", "est": 1},
                         {"name": "j3", "deps": ["j2"], "cancel": False, "group": "g0", "est": 1},
                         {"name": "j4", "deps": [], "cancel": False, "group": "g0", "est": 1}],
                "groups": [{"name": "g0", "size": 2, "try": False, "reports": True}], "max_nodes": 1,
                "outcomes": {"j1": [0, 0, 0, 0], "j2": [0, 0, 0, 0], "j3": [0, 0, 0, 0], "j4": [2, 0, 0, 0]},
                "shape": "user-canceled", "reports": True, "cancel_after_first_batch": True, "first_flags": (True, True, False)})
    return out


def outcome_fn(sc):
    oc = sc["outcomes"]

    def f(name, k):
        seq = oc[name]
        return seq[min(k, len(seq) - 1)]
    return f


# ------------------------------------------------------------------------------------------------
# independent reference computations (Python oracles)
# ------------------------------------------------------------------------------------------------
def classify(rows3):
    """name -> kind for (name, rc, status) triples"""
    kinds = {}
    for name, rc, status in rows3:
        if rc == 0 and status == "finished":
            kinds[name] = "successful"
        elif rc != 0 and status == "finished":
            kinds[name] = "failed"
        elif rc != 0 and status == "canceled":
            kinds[name] = "canceled"
        else:
            kinds[name] = "other"
    return kinds


def ref_selected(flags, kinds, jobnames):
    failed, missing, successful = flags
    sel = set()
    for n in jobnames:
        k = kinds.get(n)
        if k is None:
            if missing:
                sel.add(n)
        elif k in ("failed", "canceled") and failed:
            sel.add(n)
        elif k == "successful" and successful:
            sel.add(n)
    return sel


def ref_closure(cfgjobs, sel):
    """least set containing sel and closed under 'is blocked by a member' (worklist over reverse edges)"""
    rev = {}
    for n, deps in cfgjobs:
        for d in deps:
            rev.setdefault(d, []).append(n)
    seen = set(sel)
    work = list(sel)
    while work:
        x = work.pop()
        for y in rev.get(x, []):
            if y not in seen:
                seen.add(y)
                work.append(y)
    return seen


# ------------------------------------------------------------------------------------------------
@contextmanager
def restored(out):
    """run something destructive on `out`, then put the directory back exactly"""
    bk = out + ".bk"
    shutil.copytree(out, bk)
    try:
        yield
    finally:
        shutil.rmtree(out, ignore_errors=True)
        os.rename(bk, out)


class Ctx:
    def __init__(self, chk):
        self.chk = chk
        self.helpers_cmp = core.CoqCompare("c13_helpers", IMPORTS, "helpers", "helpers_eqb",
                                           "(bool * bool * bool) * list row * list N * list cjob",
                                           "option (list N * list N * list (list N) * list N)", shard=120, prelude=PRELUDE)
        self.closure_cmp = core.CoqCompare("c13_closure", IMPORTS, "closure_only", "closure_only_eqb", "list cjob * list N",
                                           "option (list N * list (list N) * list N)", shard=400, prelude=PRELUDE)
        self.clear_cmp = core.CoqCompare("c13_clear", IMPORTS, "fun c => clear_results (fst c) (snd c)", "list_eqb row_eqb",
                                         "list row * list N", "list row", shard=200, prelude=PRELUDE)
        self.cmd_cmp = core.CoqCompare(
            "c13_cmd", IMPORTS,
            "fun c => match c with (fl, ms, su, gf, f, se, w) => resubmit 77%N fl ms su gf f (fun x => x) se w end",
            "prod_eqb outcome_eqb world_eqb",
            "bool * bool * bool * option (list (N * N)) * fault * Z * world", "outcome * world", shard=60, prelude=PRELUDE)
        self.dist = {"scenarios": 0, "shapes": {}, "result_kinds": {"successful": 0, "failed": 0, "canceled": 0, "missing": 0},
                     "flag_combos": {}, "with_events_dir": 0, "without_events_dir": 0, "resubmissions": 0,
                     "command_cases": {}, "rerun_sizes": {}, "closure_rounds_gt1": 0}


FLAGS8 = [(f, m, s) for f in (True, False) for m in (True, False) for s in (True, False)]


def helper_level(ctx, enc, out, snap, tag):
    """the real _get_jobs_to_resubmit / _update_with_blocking_jobs on the submission in `out`, all 8 flag
    combinations; model comparison + oracles.  Read-only."""
    import jade.cli.resubmit_jobs as rs
    from jade.jobs.cluster import Cluster
    chk = ctx.chk
    cluster, _ = Cluster.deserialize(out, deserialize_jobs=True)
    cfgjobs = snap["config"]
    jobnames = [j[0] for j in snap["jobs"]]
    kinds = classify([(r[0], r[1], r[2]) for r in snap["results_full"]])
    depmap = dict(cfgjobs)
    for flags in FLAGS8:
        err = None
        try:
            sel = rs._get_jobs_to_resubmit(cluster, out, *flags)
            sel0 = set(sel)
            d = rs._update_with_blocking_jobs(sel, out)
            rerun = set(sel)
        except AssertionError as e:
            err = str(e)
        if err is not None:
            exp = "None"
            chk.violation("closure-assert-fires", "the assertion inside _update_with_blocking_jobs fired on a legal configuration",
                          {"component": "_update_with_blocking_jobs", "config_jobs": cfgjobs, "flags": flags,
                           "results": snap["results_full"], "error": err, "scenario": tag})
        else:
            exp = ("(Some (" + enc.names(sorted(sel0)) + ", " + enc.names(sorted(rerun)) + ", " +
                   clist([enc.names(sorted(d.get(n, set()))) for n, _ in cfgjobs]) + ", " + enc.names(sorted(d)) + "))")
            # --- oracles on impl's own output
            want_sel = ref_selected(flags, kinds, jobnames)
            if sel0 != want_sel:
                chk.violation("selection-wrong", "flags select a different set of jobs than failed/canceled, missing, successful",
                              {"component": "_get_jobs_to_resubmit", "flags": dict(zip(("failed", "missing", "successful"), flags)),
                               "results": snap["results_full"], "jobs": jobnames, "impl": sorted(sel0),
                               "expected": sorted(want_sel), "scenario": tag})
            want = ref_closure(cfgjobs, sel0)
            if rerun != want:
                chk.violation("closure-not-least", "rerun set is not the selected jobs plus their transitive dependents",
                              {"component": "_update_with_blocking_jobs", "config_jobs": cfgjobs, "selected": sorted(sel0),
                               "impl": sorted(rerun), "expected": sorted(want), "scenario": tag})
            for n in rerun:
                wantb = set(depmap.get(n, [])) & rerun
                if set(d.get(n, set())) != wantb:
                    chk.violation("blockers-not-intersection",
                                  "updated blockers of a rerun job differ from (configured blockers) & (rerun set)",
                                  {"component": "_update_with_blocking_jobs", "config_jobs": cfgjobs, "selected": sorted(sel0),
                                   "job": n, "impl": sorted(d.get(n, set())), "expected": sorted(wantb), "scenario": tag})
        ctx.helpers_cmp.add(
            f"(({cbool(flags[0])}, {cbool(flags[1])}, {cbool(flags[2])}), {enc.rows(snap['results_full'])}, "
            f"{enc.names(jobnames)}, {enc.config(cfgjobs)})", exp,
            {"scenario": tag, "flags": flags, "config": cfgjobs, "results": snap["results_full"], "impl": exp})
        chk.count(("helpers", tag, flags, str(cfgjobs), str(sorted(kinds.items()))),
                  nontrivial=err is None and len(rerun) > 0)
        ctx.dist["flag_combos"][str(flags)] = ctx.dist["flag_combos"].get(str(flags), 0) + 1
        if err is None:
            ctx.dist["rerun_sizes"][len(rerun)] = ctx.dist["rerun_sizes"].get(len(rerun), 0) + 1
            if len(rerun) - len(sel0) > 0:
                ctx.dist["closure_rounds_gt1"] += 1


def clear_level(ctx, enc, out, snap, rng, tag):
    """the real clear_results_for_resubmission with arbitrary job subsets (restored afterwards)"""
    from jade.jobs.results_aggregator import ResultsAggregator
    chk = ctx.chk
    names = [j[0] for j in snap["jobs"]]
    subsets = [set(), set(names)] + [set(x for x in names if rng.random() < 0.5) for _ in range(2)]
    for sub in subsets:
        with restored(out):
            agg = ResultsAggregator.load(out)
            agg.clear_results_for_resubmission(set(sub))
            after = [tuple(r) for r in agg.get_results_unsafe()]
        before = snap["rows"]
        ctx.clear_cmp.add(f"({enc.rows(before)}, {enc.names(sorted(sub))})", enc.rows(after),
                          {"scenario": tag, "rows": before, "rerun": sorted(sub), "impl_rows_after": after})
        chk.count(("clear", tag, tuple(sorted(sub)), str(before)), nontrivial=bool(before))
        want = [r[:5] for r in before if r[0] not in sub]
        if [r[:5] for r in after] != want:
            chk.violation("rows-not-preserved", "clear_results_for_resubmission does not keep exactly the rows of the other jobs unchanged",
                          {"component": "ResultsAggregator.clear_results_for_resubmission", "rows_before": before,
                           "jobs_to_resubmit": sorted(sub), "rows_after": after, "expected_(name,rc,status,exec,ctime)": want})


def closure_small_scope(ctx, tmp, rng):
    """The real _update_with_blocking_jobs on EVERY dependency relation over 1..3 jobs (self-loops and cycles
    included: check_job_dependencies does not reject them) x every selected subset, plus random relations on
    4-6 jobs.  Only config.json is needed.  quick: all of n<=2, every 7th relation of n=3."""
    import itertools
    import jade.cli.resubmit_jobs as rs
    from harness import jadeenv
    chk = ctx.chk
    quick = chk.tier == "quick"
    d_ = os.path.join(tmp, "small")
    os.makedirs(d_, exist_ok=True)
    todo = []
    for n in (1, 2, 3):
        names = [f"j{i}" for i in range(1, n + 1)]
        pairs = [(a, b) for a in names for b in names]
        step = 7 if (quick and n == 3) else 1
        for mask in range(0, 2 ** len(pairs), step):
            deps = {x: [] for x in names}
            for k, (a, b) in enumerate(pairs):
                if mask >> k & 1:
                    deps[a].append(b)
            todo.append((names, deps, None))
    for _ in range(60 if quick else 2500):
        n = rng.randint(4, 6)
        names = [f"j{i}" for i in range(1, n + 1)]
        p = rng.choice([0.1, 0.2, 0.4])
        deps = {x: [y for y in names if rng.random() < p] for x in names}
        todo.append((names, deps, 3 if quick else 6))
    ctx.dist["small_scope_relations"] = len(todo)
    for names, deps, nsel in todo:
        enc = Enc(names, ["g"])
        sc = {"jobs": [{"name": x, "deps": deps[x], "group": "g"} for x in names], "groups": [{"name": "g"}]}
        jadeenv.make_config(sc).dump(os.path.join(d_, "config.json"))
        cfgjobs = [(x, sorted(deps[x])) for x in names]
        if nsel is None:
            sels = [set(c) for r in range(len(names) + 1) for c in itertools.combinations(names, r)]
        else:
            sels = [set(x for x in names if rng.random() < 0.3) for _ in range(nsel)]
        for sel0 in sels:
            sel = set(sel0)
            try:
                d = rs._update_with_blocking_jobs(sel, d_)
                exp = ("(Some (" + enc.names(sorted(sel)) + ", " + clist([enc.names(sorted(d.get(x, set()))) for x in names]) +
                       ", " + enc.names(sorted(d)) + "))")
                want = ref_closure(cfgjobs, sel0)
                if sel != want:
                    chk.violation("closure-not-least", "rerun set is not the selected jobs plus their transitive dependents",
                                  {"component": "_update_with_blocking_jobs", "config_jobs": cfgjobs, "selected": sorted(sel0),
                                   "impl": sorted(sel), "expected": sorted(want)})
                for x in sel:
                    if set(d.get(x, set())) != set(deps[x]) & sel:
                        chk.violation("blockers-not-intersection",
                                      "updated blockers of a rerun job differ from (configured blockers) & (rerun set)",
                                      {"component": "_update_with_blocking_jobs", "config_jobs": cfgjobs, "selected": sorted(sel0),
                                       "job": x, "impl": sorted(d.get(x, set())), "expected": sorted(set(deps[x]) & sel)})
            except AssertionError as e:
                exp = "None"
                chk.violation("closure-assert-fires", "the assertion inside _update_with_blocking_jobs fired on a legal configuration",
                              {"component": "_update_with_blocking_jobs", "config_jobs": cfgjobs, "selected": sorted(sel0), "error": str(e)})
            ctx.closure_cmp.add(f"({enc.config(cfgjobs)}, {enc.names(sorted(sel0))})", exp,
                                {"config_jobs": cfgjobs, "selected": sorted(sel0), "impl": exp})
            chk.count(("closure-small", str(cfgjobs), tuple(sorted(sel0))), nontrivial=bool(sel0))


FAULTS = ["FNone", "FSelect", "FReset", "FPrepare", "FEvents", "FLoad", "FSubmit"]


def run_command_case(ctx, enc, world, out, flags, fault="FNone", groups=None, mutate=None, real_submit=False, tag=""):
    """Run the real resubmit_jobs callback on `out` (JobSubmitter.submit_jobs observed; stubbed unless
    real_submit) with an optional injected fault, compare (outcome, final world) with the model and
    judge the command-level property clauses.  Returns (before, handoff, after, result)."""
    import jade.jobs.job_submitter as js
    import jade.jobs.results_aggregator as ra
    import jade.jobs.cluster as cl
    from jade.enums import Status
    chk = ctx.chk
    if mutate:
        mutate(out)
    before = full_snapshot(out)
    handoff = {}
    orig_submit = js.JobSubmitter.submit_jobs
    orig_load = js.JobSubmitter.load
    orig_clear = ra.ResultsAggregator.clear_results_for_resubmission
    orig_prep = cl.Cluster.prepare_for_resubmission
    gfile = None

    def submit_wrapper(self, cluster, force_local=False):
        handoff.update(full_snapshot(out))
        if fault == "FSubmit":
            raise RuntimeError("injected: submit_jobs fails")
        if real_submit:
            return orig_submit(self, cluster, force_local=force_local)
        return Status.IN_PROGRESS

    def boom(name):
        def f(*a, **k):
            raise OSError("injected: " + name)
        return f
    evsub = os.path.join(out, "events", "zz_subdir")
    try:
        js.JobSubmitter.submit_jobs = submit_wrapper
        if fault == "FLoad":
            js.JobSubmitter.load = classmethod(lambda cls, output: (_ for _ in ()).throw(RuntimeError("injected: load fails")))
        if fault == "FReset":
            ra.ResultsAggregator.clear_results_for_resubmission = boom("clear_results_for_resubmission")
        if fault == "FPrepare":
            cl.Cluster.prepare_for_resubmission = boom("prepare_for_resubmission")
        if fault == "FSelect":
            os.remove(os.path.join(out, "results.json"))
        if fault == "FEvents":
            os.makedirs(evsub, exist_ok=True)      # Path.unlink() of a directory raises
            before["events"] = sorted(os.listdir(os.path.join(out, "events")))
        if groups is not None:
            gfile = os.path.join(os.path.dirname(out), "groups.json")
            json.dump(groups["data"], open(gfile, "w"))
        res = rd.resubmit(world, *flags, groups_file=gfile)
    finally:
        js.JobSubmitter.submit_jobs = orig_submit
        js.JobSubmitter.load = orig_load
        ra.ResultsAggregator.clear_results_for_resubmission = orig_clear
        cl.Cluster.prepare_for_resubmission = orig_prep
    if fault == "FSelect":
        # results.json is gone; put the model's input view back for the snapshot
        pass
    after = full_snapshot(out)
    after["results_full"] = before["results_full"]

    # ---- outcome as a model term
    if res[0] == "exit":
        oterm = f"(Exit {cZ(res[1])})"
    elif res[1] == "AssertionError":
        oterm = "AssertPromoted" if before["submitter"] is not None else "AssertDemote"
    else:
        oterm = f"(Raised {fault})" if fault != "FNone" else "(Raised FNone)"
    cmp_after = after if not real_submit else dict(handoff, submitter=None)
    if real_submit and not handoff:
        cmp_after = after
    gterm = "None" if groups is None else "(Some " + clist([f"({cN(enc.g.get(n, 99))}, {cN(p)})" for n, p in groups["model"]]) + ")"
    fterm = fault if fault not in ("FSelect",) else "FSelect"
    se = res[1] if (real_submit and res[0] == "exit" and handoff) else 0
    idx = ctx.cmd_cmp.add(
        f"({cbool(flags[0])}, {cbool(flags[1])}, {cbool(flags[2])}, {gterm}, {fterm}, {cZ(se)}, {enc.world(before)})",
        f"({oterm}, {enc.world(cmp_after)})",
        {"scenario": tag, "flags": flags, "fault": fault, "groups": groups and groups["model"], "result": res,
         "before": _slim(before), "after": _slim(cmp_after)})
    key = fault + ("+groups" if groups else "") + ("+incomplete" if not before["is_complete"] else "") + \
        ("+role-held" if before["submitter"] else "") + ("+real" if real_submit else "")
    ctx.dist["command_cases"][key] = ctx.dist["command_cases"].get(key, 0) + 1
    chk.count(("cmd", tag, flags, fault, key, str(before["jobs"])), nontrivial=True)

    # ---- property oracles on impl
    def same_state(a, b):
        keys = ("submitter", "is_complete", "is_canceled", "num_jobs", "submitted_jobs", "completed_jobs", "jobs", "rows", "groups", "hpc_job_ids")
        return {k: (a[k], b[k]) for k in keys if a[k] != b[k]}
    rep = {"scenario": tag, "flags": dict(zip(("failed", "missing", "successful"), flags)), "fault": fault,
           "before": _slim(before), "after": _slim(after), "command_result": res}
    if not before["is_complete"]:
        diff = same_state(before, after)
        if diff or res != ("exit", 1):
            chk.violation("incomplete-not-refused-cleanly",
                          "resubmit-jobs on an incomplete submission changed state or did not exit 1 (submitter before: %r)" % (before["submitter"],),
                          dict(rep, differences=diff))
    elif before["submitter"] is not None:
        diff = same_state(before, after)
        if diff:
            chk.violation("held-role-changed", "resubmit-jobs changed a completed submission whose submitter role was held",
                          dict(rep, differences=diff))
    else:
        pruned = [r[:5] for r in after["rows"]] != [r[:5] for r in before["rows"]] and not real_submit
        stuck = after["submitter"] is not None
        if pruned and stuck and fault not in ("FPrepare", "FEvents"):
            chk.violation("pruned-and-stuck", "the command failed with results erased and the submitter role still taken",
                          rep)
        if fault == "FNone" and groups is None and res[0] == "exc":
            chk.violation("command-crashed", "resubmit-jobs raised %s on a completed submission (events dir: %s)" %
                          (res[1], "present" if before["events"] is not None else "absent"), rep)
        if fault in ("FNone", "FLoad", "FSubmit") and groups is None and stuck:
            chk.violation("role-not-released", "resubmit-jobs ended with the submitter role still taken", rep)
    return before, handoff, after, res


def _slim(s):
    return {k: s[k] for k in ("submitter", "is_complete", "is_canceled", "num_jobs", "submitted_jobs", "completed_jobs", "jobs", "rows",
                               "groups", "events") if k in s}


def handoff_oracles(ctx, before, handoff, flags, tag):
    """state handed to submit_jobs, judged against the reference closure"""
    chk = ctx.chk
    if not handoff:
        return None
    kinds = classify([(r[0], r[1], r[2]) for r in before["results_full"]])
    jobnames = [j[0] for j in before["jobs"]]
    sel = ref_selected(flags, kinds, jobnames)
    rerun = ref_closure(before["config"], sel)
    depmap = dict(before["config"])
    rep = {"scenario": tag, "flags": dict(zip(("failed", "missing", "successful"), flags)), "before": _slim(before),
           "handoff": _slim(handoff), "expected_rerun": sorted(rerun), "config_jobs": before["config"]}
    old = {n: (st, bl) for n, st, bl in before["jobs"]}
    probs = []
    for n, st, bl in handoff["jobs"]:
        if n in rerun:
            if st != "not_submitted":
                probs.append(f"rerun job {n} is {st}")
            if set(bl) != set(depmap[n]) & rerun:
                probs.append(f"rerun job {n} blocked_by {bl}, expected {sorted(set(depmap[n]) & rerun)}")
        elif (st, bl) != old[n]:
            probs.append(f"job {n} is not rerun but changed from {old[n]} to {(st, bl)}")
    if handoff["is_complete"]:
        probs.append("is_complete still true")
    if handoff["is_canceled"]:
        probs.append("is_canceled still set: every submitter round will refuse to submit the reset jobs")
    # the counters must describe the job table they are written with (status invariant)
    not_ns = sum(1 for _, st, _ in handoff["jobs"] if st != "not_submitted")
    if handoff["submitted_jobs"] != not_ns:
        probs.append(f"submitted_jobs={handoff['submitted_jobs']} but {not_ns} jobs are not NOT_SUBMITTED")
    done = sum(1 for _, st, _ in handoff["jobs"] if st == "done")
    if handoff["completed_jobs"] != done:
        probs.append(f"completed_jobs={handoff['completed_jobs']} but {done} jobs are DONE")
    if not (0 <= handoff["completed_jobs"] <= handoff["submitted_jobs"] <= handoff["num_jobs"]):
        probs.append("counters out of order")
    want_rows = [r[:5] for r in before["rows"] if r[0] not in rerun]
    if [r[:5] for r in handoff["rows"]] != want_rows:
        probs.append("rows of jobs that are not rerun were not preserved exactly / rows of rerun jobs survive")
    if handoff["submitter"] != socket.gethostname():
        probs.append("submit_jobs entered without holding the submitter role")
    if handoff["events"]:
        probs.append("stale event files left: %s" % handoff["events"][:3])
    if probs:
        chk.violation("handoff-state-wrong: " + probs[0].split(" ")[0],
                      "state handed to the submitter after resubmit-jobs' reset is wrong: " + "; ".join(probs[:4]), rep)
    return rerun


def rerun_oracles(ctx, world, before, after, rerun, epoch, tag):
    """after the real resubmission ran to completion: launches and results"""
    chk = ctx.chk
    launches = [n for e, n in world.launches if e == epoch]
    depmap = dict(before["config"])
    rows_after = {r[0]: r for r in after["rows"]}
    rep = {"scenario": tag, "before": _slim(before), "after": _slim(after), "rerun": sorted(rerun), "launches": launches,
           "config_jobs": before["config"]}
    probs = []
    if len(launches) != len(set(launches)):
        probs.append("a job was launched twice")
    extra = set(launches) - rerun
    if extra:
        # the known-finding class, and only it: on a user-canceled submission, jobs that were NOT_SUBMITTED at
        # resubmit time with no remaining blockers (or only blockers of this same class) and that the flags
        # did not select.  Every other launch outside the rerun closure is a violation.
        was = {n: (st, set(bl)) for n, st, bl in before["jobs"]}
        cls = set()
        if before.get("is_canceled"):
            # never-submitted unselected jobs become launchable as soon as their blockers have outcomes - whether those
            # blockers are rerun, were done before, or are themselves jobs of this class that ran or were canceled
            cls = {n for n in extra if was[n][0] == "not_submitted"}
        if cls:
            chk.violation("unselected-never-submitted-jobs-launched-after-cancel",
                          "resubmit-jobs on a user-canceled submission also launched never-submitted jobs that the flags did not select: %s" % sorted(cls),
                          rep)
        if extra - cls:
            probs.append("jobs outside the rerun set were launched: %s" % sorted(extra - cls))
    canceled_now = {n for n in rerun if n in rows_after and rows_after[n][2] == "canceled"}
    notrun = rerun - set(launches) - canceled_now
    # a rerun job may legitimately not start only if it is canceled or stuck behind a rerun blocker that died again
    for n in sorted(notrun):
        if n in world.killed_jobs(epoch):
            continue     # its node died before the job started: missing again
        if not any(b not in rows_after for b in _upstream(depmap, n, rerun)):
            probs.append(f"rerun job {n} was neither launched nor canceled")
    # dependency order: every rerun blocker has a result before the dependent starts
    order = world.order_log(epoch)
    seen_done = set()
    for kind, n in order:
        if kind == "finish":
            seen_done.add(n)
        elif kind == "launch":
            missing_b = [b for b in set(depmap[n]) & rerun if b not in seen_done and b not in canceled_now]
            if missing_b:
                probs.append(f"{n} launched before its rerun blockers {missing_b} finished")
    for r in before["rows"]:
        if r[0] not in rerun and (r[0] not in rows_after or rows_after[r[0]][:5] != r[:5]):
            probs.append(f"result of {r[0]} (not rerun) not preserved")
    names_after = [r[0] for r in after["rows"]]
    if len(names_after) != len(set(names_after)):
        probs.append("a job has two result rows")
    if not after["is_complete"]:
        probs.append("submission not complete after the rerun")
    if after["submitter"] is not None:
        probs.append("submitter role still taken after completion")
    if probs and os.environ.get("VERIF_KEEP_FAIL"):
        import shutil as _sh
        _sh.copytree(world.out, os.path.join(os.environ["VERIF_KEEP_FAIL"], tag.replace("#", "_").replace(":", "_")), dirs_exist_ok=True)
        json.dump({"order": world.order_log(epoch), "launches": world.launches, "epoch": epoch}, open(os.path.join(os.environ["VERIF_KEEP_FAIL"], "world.json"), "w"), default=str)
    if probs:
        chk.violation("rerun-wrong: " + probs[0].split(" ")[0], "the resubmission did not rerun exactly the rerun set once, in dependency order, preserving other results: " + "; ".join(probs[:4]), rep)


def _upstream(depmap, n, rerun):
    seen, work = set(), [n]
    while work:
        x = work.pop()
        for b in set(depmap[x]) & rerun:
            if b not in seen:
                seen.add(b)
                work.append(b)
    return seen


# ------------------------------------------------------------------------------------------------
def _one_scenario_checked(ctx, sc, tmp, idx, rng, deep):
    """The world of this driver is synchronous and every random choice comes from `rng`: a violation of the
    property on it reproduces when the scenario is run again from the same rng state in a fresh directory.
    An alarm that does not reproduce came from the environment (e.g. a lock or a time budget under heavy
    machine load), not from the code under check, and is dropped (counted in the notes)."""
    import copy
    import random as _random
    chk = ctx.chk
    state = rng.getstate()
    sc0 = copy.deepcopy(sc)
    n0 = len(chk.violations)
    try:
        one_scenario(ctx, sc, tmp, idx, rng, deep)
    except Exception as e:   # noqa
        # an exception that escapes from the real code while a scenario is driven (e.g. the completing round cannot
        # read the results file any more) is a failing input of the property, with this scenario as replay; an
        # exception raised by the driver itself is a harness error (tie break), never a violation
        import traceback
        tb = traceback.extract_tb(e.__traceback__)
        inner = tb[-1].filename if tb else ""
        text = "".join(traceback.format_exception(type(e), e, e.__traceback__))[-1500:]
        if "/jade/" in inner and "/harness/" not in inner:
            chk.violation("real-code-raised:" + type(e).__name__,
                          f"while resubmitting / rerunning this submission the real code raised {type(e).__name__}: {str(e)[:160]}",
                          {"scenario": f"{sc0.get('shape')}#{idx}", "jobs": sc0.get("jobs"), "groups": sc0.get("groups"),
                           "traceback_tail": text})
        else:
            chk.tie_broken("C13 driver crashed in scenario %s#%s" % (sc0.get("shape"), idx), text)
        return
    new = chk.violations[n0:]
    if not new:
        return
    saved = chk.violations
    chk.violations = []
    try:
        r2 = _random.Random()
        r2.setstate(state)
        one_scenario(ctx, sc0, tmp, idx + 1000000, r2, deep)
        again = {v["signature"] for v in chk.violations}
    except Exception:   # noqa: the second run must never hide the first
        again = {v["signature"] for v in new}
    finally:
        chk.violations = saved
        shutil.rmtree(os.path.join(tmp, f"s{idx + 1000000}"), ignore_errors=True)
    dropped = [v for v in new if v["signature"] not in again]
    if dropped:
        chk.violations = [v for v in chk.violations if v not in dropped]
        chk.notes["unreproducible_alarms_dropped"] = chk.notes.get("unreproducible_alarms_dropped", []) + \
            [{"scenario": f"{sc0.get('shape')}#{idx}", "signature": v["signature"]} for v in dropped]


def one_scenario(ctx, sc, tmp, idx, rng, deep):
    chk = ctx.chk
    out = os.path.join(tmp, f"s{idx}", "out")
    os.makedirs(os.path.dirname(out))
    tag = f"{sc['shape']}#{idx}"
    names = [j["name"] for j in sc["jobs"]]
    enc = Enc(names, [g["name"] for g in sc["groups"]])
    world = rd.use(rd.World(out, outcome_fn(sc), rng=rng))
    # -- an incomplete submission first (batches pending): refusal cases
    from jade.jobs.job_submitter import JobSubmitter
    from harness import jadeenv
    cfg = jadeenv.make_config(sc)
    os.makedirs(out, exist_ok=True)
    JobSubmitter.run_submit_jobs(cfg, out)
    rd._close_log_handlers()
    if deep:
        for who in (None, "othernode", socket.gethostname()):
            with restored(out):
                def mut(o, who=who):
                    if who is not None:
                        _set_submitter(o, who)
                run_command_case(ctx, enc, world, out, rng.choice(FLAGS8), mutate=mut, tag=tag + ":incomplete")
    if sc.get("cancel_after_first_batch"):
        rd.run_node(world, world.pending()[0])
        _user_cancel(world, out)
    rd.drain(world)
    ctx.dist["scenarios"] += 1
    ctx.dist["shapes"][sc["shape"]] = ctx.dist["shapes"].get(sc["shape"], 0) + 1
    nres = rng.choice([2, 3]) if deep else 1
    for round_ in range(nres):
        snap = full_snapshot(out)
        kinds = classify([(r[0], r[1], r[2]) for r in snap["results_full"]])
        for n in names:
            ctx.dist["result_kinds"][kinds.get(n, "missing")] = ctx.dist["result_kinds"].get(kinds.get(n, "missing"), 0) + 1
        ctx.dist["with_events_dir" if snap["events"] is not None else "without_events_dir"] += 1
        if idx < 3 and round_ == 0:
            chk.sample({"scenario": tag, "jobs": [(j["name"], j["deps"], j["cancel"]) for j in sc["jobs"]],
                        "results": [(r[0], r[1], r[2]) for r in snap["results_full"]], "missing": snap.get("missing_json")})
        helper_level(ctx, enc, out, snap, f"{tag}:r{round_}")
        if round_ == 0 or deep:
            clear_level(ctx, enc, out, snap, rng, f"{tag}:r{round_}")
        if deep and round_ == 0:
            # command-level state machine on copies of this completed submission
            for fault in FAULTS[1:]:
                with restored(out):
                    run_command_case(ctx, enc, world, out, rng.choice(FLAGS8[:6]), fault=fault, tag=tag + ":fault")
            with restored(out):   # stale / foreign role on a complete submission
                run_command_case(ctx, enc, world, out, (True, True, False),
                                 mutate=lambda o: _set_submitter(o, rng.choice(["othernode", socket.gethostname()])),
                                 tag=tag + ":role-held")
            for kind in ("ok", "length", "name"):
                with restored(out):
                    run_command_case(ctx, enc, world, out, (True, True, False), groups=_groups_file(out, kind), tag=tag + ":groups-" + kind)
            for flags in FLAGS8:     # all 8 combinations through the whole command (submit stubbed)
                with restored(out):
                    b, h, a, res = run_command_case(ctx, enc, world, out, flags, tag=tag + ":flags")
                    handoff_oracles(ctx, b, h, flags, tag)
        # -- the real thing: resubmit and let the batches run to completion
        flags = (True, True, False) if round_ == 0 and rng.random() < 0.5 else rng.choice(FLAGS8)
        if round_ == 0 and sc.get("first_flags"):
            flags = tuple(sc["first_flags"])
        epoch = world.epoch + 1
        b, h, a, res = run_command_case(ctx, enc, world, out, flags, real_submit=True, tag=tag + f":resubmit{round_}")
        rerun = handoff_oracles(ctx, b, h, flags, tag)
        ctx.dist["resubmissions"] += 1
        if res[0] == "exc":
            break
        rd.drain(world)
        after = full_snapshot(out)
        if rerun is not None:
            rerun_oracles(ctx, world, b, after, rerun, epoch, tag + f":resubmit{round_}")


def _user_cancel(world, out):
    """jade cancel-jobs: the real JobSubmitter.cancel_jobs (scancel + mark_canceled), then try-submit-jobs"""
    from jade.jobs.cluster import Cluster
    from jade.jobs.job_submitter import JobSubmitter
    c, promoted = Cluster.deserialize(out, try_promote_to_submitter=True, deserialize_jobs=True)
    assert promoted
    try:
        JobSubmitter.load(out).cancel_jobs(c)
    finally:
        c.demote_from_submitter()
    rd.try_submit(world)


def _set_submitter(out, who):
    from jade.jobs.cluster import Cluster
    c, _ = Cluster.deserialize(out, deserialize_jobs=False)
    c._config.submitter = who
    c.serialize("test: role held")


def _groups_file(out, kind):
    """content for --submission-groups-file (what `jade config save-submission-groups` writes) + its model view"""
    from jade.jobs.cluster import Cluster
    c, _ = Cluster.deserialize(out, deserialize_jobs=False)
    data = [json.loads(g.json()) for g in c.config.submission_groups]
    for k, g in enumerate(data):
        g["submitter_params"]["per_node_batch_size"] = 7 + k
    if kind == "length":
        data = data + [json.loads(json.dumps(data[0]))]
        data[-1]["name"] = "extra"
    if kind == "name":
        data[-1]["name"] = "nosuchgroup"
    return {"data": data, "model": [(g["name"], g["submitter_params"]["per_node_batch_size"]) for g in data]}


def run(chk):
    proofs_ok = core.standard_proof_phase(chk, "C13", gen_needed=())
    logging.disable(logging.CRITICAL)
    if not proofs_ok and not (core.THEORIES / "Resubmit.vo").exists():
        return
    ctx = Ctx(chk)
    rng = chk.rng
    tmp = tempfile.mkdtemp(prefix="verif_c13_")
    quick = chk.tier == "quick"
    n_deep, n_light = (6, 30) if quick else (60, 500)
    budget = 45 if quick else 800
    try:
        with rd.patched(), open(os.devnull, "w") as devnull:
            import contextlib
            with contextlib.redirect_stdout(devnull), contextlib.redirect_stderr(devnull):
                closure_small_scope(ctx, tmp, rng)
                t0 = time.time()
                scs = directed_scenarios()
                idx = 0
                for sc in scs:
                    _one_scenario_checked(ctx, sc, tmp, idx, rng, True)
                    idx += 1
                for k in range(n_deep + n_light):
                    if time.time() - t0 > budget:
                        chk.notes["budget_cut"] = f"stopped after {idx} scenarios ({budget}s budget)"
                        break
                    deep = k < n_deep
                    sc = gen_scenario(rng, 6 if deep else 9)
                    _one_scenario_checked(ctx, sc, tmp, idx, rng, deep)
                    shutil.rmtree(os.path.join(tmp, f"s{idx}"), ignore_errors=True)
                    idx += 1
    finally:
        shutil.rmtree(tmp, ignore_errors=True)
    for cmp_, what in ((ctx.closure_cmp, "Resubmit.closure vs _update_with_blocking_jobs on all dependency relations over <= 3 jobs (cycles included) + random 4-6 jobs"),
                       (ctx.helpers_cmp, "selection + closure + updated blockers (Resubmit.selected/closure vs _get_jobs_to_resubmit/_update_with_blocking_jobs)"),
                       (ctx.clear_cmp, "Resubmit.clear_results vs ResultsAggregator.clear_results_for_resubmission"),
                       (ctx.cmd_cmp, "Resubmit.resubmit vs the resubmit_jobs command (outcome + final state)")):
        try:
            bad = cmp_.run()
        except core.BuildError as e:
            chk.oblige("coqc evaluation of " + cmp_.name, False, str(e) + e.log[-800:])
            chk.tie_broken("model evaluation failed: " + cmp_.name, e.log[-1200:])
            continue
        chk.oblige("correspondence %s (%d cases)" % (what, len(cmp_.cases)), not bad, "first differing cases: %s" % bad[:5])
        for i in bad[:3]:
            chk.tie_broken("correspondence " + what, json.dumps({"case": cmp_.cases[i][2], **cmp_.show(i)}, default=str)[:3000])
    chk.notes["input_distribution"] = ctx.dist
    chk.notes["rule"] = ("cases = real completed submissions (random DAGs up to 9 jobs incl. reversed listing order, chains, diamonds; "
                         "1-2 groups; outcomes successful/failed/canceled/missing by scripted job return codes and node deaths) x all 8 "
                         "flag combinations at helper level; whole command with stubbed and real submit_jobs, injected faults, "
                         "held roles, groups files, with/without events directory, repeated resubmission; non-trivial = non-empty rerun set")
    chk.coverage["rule"] = chk.notes["rule"]
    chk.assumptions += ["float fields of result rows are compared by their exact bits (no arithmetic in the model)",
                        "hpc id None is re-read as '' after clear_results_for_resubmission (modelled as rewrite_row; not part of the property)",
                        "the scheduler / node side of the rerun is C01/C02/C03's subject; here it is exercised (real code) and judged by oracles only"]


def replay(path):
    obj = json.load(open(path))
    print(json.dumps(obj, indent=1)[:6000])
    return 0
