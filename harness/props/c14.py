"""C14 - cancel is final
Proofs: coq/theories/Props/C14.v over the system model (System.v) - every accepted trace.
Tie: the real jade code runs in the virtual cluster (harness/vcluster.py) under generated scenarios,
schedules and cancel moments (batches queued, running, some finished, jobs unsubmitted), followed by further try-submit-jobs; every impl trace must be accepted by System.step (coqc vm_compute) and satisfy the
Coq monitors; Python oracles judge impl's trace and final state directly (harness/syscheck.py)."""
from harness import core, syscheck

MODES = {'cancel': 9, 'plain': 1}


def run(chk):
    ok = core.standard_proof_phase(chk, "C14", gen_needed=())
    chk.notes["system_theorems"] = ['c14_no_sbatch_after_cancel', 'c14_monitor', 'c14_results_kept']
    chk.notes["partial"] = "'every active batch is asked to be canceled' and 'jobs that never ran are reported missing' are decided on impl by oracles; resubmission (which clears the flag) is outside the system model"
    syscheck.system_phase(chk, "C14", MODES, n_quick=150, n_thorough=3000, also=())


def replay(path):
    return syscheck.replay_case(path)
