"""C14 - cancel is final
Proofs: coq/theories/Props/C14.v over the system model (System.v) - every accepted trace.
Tie: the real jade code runs in the virtual cluster (harness/vcluster.py) under generated scenarios,
schedules and cancel moments (batches queued, running, some finished, jobs unsubmitted), followed by further try-submit-jobs; every impl trace must be accepted by System.step (coqc vm_compute) and satisfy the
Coq monitors; Python oracles judge impl's trace and final state directly (harness/syscheck.py)."""
from harness import core, syscheck

MODES = {'cancel': 8, 'plain': 1, 'suspendcancel': 2}


def run(chk):
    ok = core.standard_proof_phase(chk, "C14", gen_needed=())
    chk.notes["system_theorems"] = ['c14_no_sbatch_after_cancel', 'c14_monitor', 'c14_results_kept', 'c14_listed_batches_canceled', 'c14_canceled_submission_completes_partial']
    chk.notes["partial"] = "'every active batch is asked to be canceled' and 'jobs that never ran are reported missing' are decided on impl by oracles; resubmission (which clears the flag) is outside the system model"
    cancel_without_active_batches(chk)
    syscheck.system_phase(chk, "C14", MODES, n_quick=150, n_thorough=3000, also=())


def cancel_without_active_batches(chk):
    """Directed: cancel-jobs' inner steps on an incomplete submission that has no active batch recorded
    (all batches of the last round already ended and were dropped, jobs still unsubmitted): the
    submission must still end up marked canceled, and a later round must submit nothing."""
    import logging
    import os
    import shutil
    import tempfile
    logging.disable(logging.CRITICAL)
    import jade.hpc.slurm_manager as sm
    from jade.jobs.cluster import Cluster
    from jade.jobs.job_submitter import JobSubmitter
    from harness import jadeenv
    sc = {"jobs": [{"name": n, "deps": [], "group": "g", "est": 1, "rc": 0} for n in ("a", "b", "c")],
          "groups": [{"name": "g", "size": 1, "time": False, "try": True, "nproc": 1}], "max_nodes": 1}
    tmp = tempfile.mkdtemp(prefix="verif_c14_")
    out = os.path.join(tmp, "out")
    os.makedirs(out)
    fake = jadeenv.FakeSlurm()
    orig = sm.run_command
    sm.run_command = fake
    saved = JobSubmitter._save_repository_info
    JobSubmitter._save_repository_info = lambda self, reg: None
    try:
        cfg = jadeenv.make_config(sc)
        mgr = JobSubmitter.create(cfg, output=out)
        cluster = Cluster.create(out, mgr.config)          # incomplete, no hpc ids yet, this process is submitter
        from jade.jobs.results_aggregator import ResultsAggregator
        ResultsAggregator.create(out)
        JobSubmitter.load(out).cancel_jobs(cluster)        # what the cancel-jobs command does once promoted
        cluster.demote_from_submitter()
        c2, _ = Cluster.deserialize(out, deserialize_jobs=True)
        chk.count(("cancel-without-active", 0))
        if not c2.is_canceled():
            chk.violation("cancel-did-not-mark", "cancel-jobs on an incomplete submission without active batches did not mark it canceled "
                          "(the remaining jobs are submitted by the next round)", {"scenario": sc, "steps": ["create", "cancel_jobs", "demote", "reload"],
                                                                                  "is_canceled": c2.is_canceled(), "hpc_job_ids": list(c2.job_status.hpc_job_ids)})
        # the next round must not submit
        c3, promoted = Cluster.deserialize(out, try_promote_to_submitter=True, deserialize_jobs=True)
        n0 = len([x for x in fake.log if x[0] == "sbatch"])
        try:
            JobSubmitter.load(out).submit_jobs(c3)
        finally:
            c3.demote_from_submitter()
        n1 = len([x for x in fake.log if x[0] == "sbatch"])
        if n1 > n0:
            chk.violation("sbatch-after-cancel", f"{n1 - n0} batches were handed to the HPC by a round after cancel-jobs",
                          {"scenario": sc, "steps": ["create", "cancel_jobs", "demote", "try-submit round"], "sbatch_calls": fake.log[-3:]})
        chk.oblige("directed: cancel without active batches marks the submission canceled and stops submission", True, "")
    finally:
        sm.run_command = orig
        JobSubmitter._save_repository_info = saved
        shutil.rmtree(tmp, ignore_errors=True)


def replay(path):
    return syscheck.replay_case(path)
