"""C05 - a submission makes progress and completes exactly once
Proofs: coq/theories/Props/C05.v over the system model (System.v) - every accepted trace.
Tie: the real jade code runs in the virtual cluster (harness/vcluster.py) under generated scenarios,
schedules; every impl trace must be accepted by System.step (coqc vm_compute) and satisfy the
Coq monitors; Python oracles judge impl's trace and final state directly (harness/syscheck.py)."""
from harness import core, syscheck

MODES = {'plain': 6, 'racing_try': 4, 'hooks': 1, 'cyclic': 1, 'cancel': 2}


def run(chk):
    ok = core.standard_proof_phase(chk, "C05", gen_needed=())
    chk.notes["system_theorems"] = ['c05_complete_once_partial', 'c05_monitor', 'c05_summary_before_completion', 'c05_progress', 'c05_rounds_bounded', 'c05_complete_only_when_all_done', 'c05_round_maximal', 'c05_canceled_submission_completes_partial']
    chk.notes["partial"] = 'proved: safety half, progress of a round from a quiescent state (c05_progress), bound on successful submissions (c05_rounds_bounded). completion flag only when every job has a result in fault-free acyclic runs (c05_complete_only_when_all_done); no starvation below max-nodes is a guard of the acceptor (round_maximal) every impl trace must satisfy (c05_round_maximal) and is proved for the batching function (c07_round_maximal). NOT proved in Coq: a started round reaches its completion check (no scheduling in an acceptor): decided on impl by oracles over all explored fault-free schedules (incl. the refused-last-node race)'
    syscheck.system_phase(chk, "C05", MODES, n_quick=160, n_thorough=3000, also=(), directed=("try_races_with_last_node",))


def replay(path):
    return syscheck.replay_case(path)
