"""C18 - SLURM boundary.  Proofs: coq/theories/Props/C18.v (over the generated tables).
Correspondence: the real SlurmManager / HpcManager / AsyncHpcSubmitter / HpcStatusCollector /
run_command against the Gallina model (Slurm.v, Retry.v), evaluated by coqc.
Search for failing inputs: property oracles in Python applied to impl's own outputs."""
import itertools
import json
import os
import shutil
import tempfile
import types

from harness import core
from harness.core import cstr, clist, cbool, cZ, cnat

IMPORTS = "From Coq Require Import String Ascii List ZArith NArith Bool.\nFrom Jade Require Import Base Slurm Retry.\nFrom Jade.Gen Require Import SlurmGen."

SLURM_STATES = ["BOOT_FAIL", "CANCELLED", "COMPLETED", "CONFIGURING", "COMPLETING", "DEADLINE", "FAILED", "NODE_FAIL",
                "OUT_OF_MEMORY", "PENDING", "PREEMPTED", "RUNNING", "RESV_DEL_HOLD", "REQUEUE_FED", "REQUEUE_HOLD",
                "REQUEUED", "RESIZING", "REVOKED", "SIGNALING", "SPECIAL_EXIT", "STAGE_OUT", "STOPPED", "SUSPENDED",
                "TIMEOUT"]
ACTIVE = ["PENDING", "CONFIGURING", "RUNNING", "SUSPENDED", "STOPPED", "RESIZING", "REQUEUED", "REQUEUE_HOLD",
          "REQUEUE_FED", "RESV_DEL_HOLD", "SIGNALING", "STAGE_OUT", "SPECIAL_EXIT", "REVOKED"]
TERMINAL = ["COMPLETED", "COMPLETING", "FAILED", "CANCELLED", "TIMEOUT", "NODE_FAIL", "PREEMPTED", "BOOT_FAIL",
            "DEADLINE", "OUT_OF_MEMORY"]
OPTIONAL = ["gres", "mem", "nodes", "ntasks", "ntasks_per_node", "partition", "qos", "tmp", "reservation"]


def _mk_manager(outdir, hpc_fields):
    from jade.models import SubmitterParams, HpcConfig, SubmissionGroup
    from jade.hpc.hpc_manager import HpcManager
    hpcc = HpcConfig(hpc_type="slurm", hpc=hpc_fields)
    group = SubmissionGroup(name="g", submitter_params=SubmitterParams(hpc_config=hpcc))
    return HpcManager({"g": group}, outdir), group


# ---------------------------------------------------------------------------------------------
def squeue_cases(rng, n):
    """(text, queried ids, wellformed, entries)"""
    pads = ["", " ", "  ", "\t", "      ", " \t ", "\r", "\x0b", "\x0c "]
    seps = [" ", "  ", "\t", "          ", " \t", "\x1c"]
    odd_states = ["completed", "Running", "FOO", "COMPLETED+", "RUNNING1", "PD", "R", "CG", "NONE", "UNKNOWN"]
    out = []
    for k in range(n):
        nlines = rng.choice([0, 1, 1, 2, 3, 5, 8])
        entries = []
        lines = []
        wellformed = True
        ids = [str(rng.randint(1, 30)) for _ in range(max(1, nlines))]
        for i in range(nlines):
            r = rng.random()
            if r < 0.08:
                lines.append("")
                continue
            st = rng.choice(SLURM_STATES) if rng.random() < 0.8 else rng.choice(odd_states)
            jid = rng.choice(ids)
            if r < 0.14 and k % 3 == 0:   # malformed stream
                bad = rng.choice([jid, f"{jid} {st} extra", "   ", "\t"])
                lines.append(bad)
                wellformed = False
                continue
            if rng.random() < 0.5:   # the real --Format output: fixed-width 20-character columns
                lines.append(f"{jid:<20}{st:<20}")
            else:
                lines.append(rng.choice(pads) + jid + rng.choice(seps) + st + rng.choice(pads))
            entries.append((jid, st))
        text = "\n".join(lines)
        if rng.random() < 0.5 and lines:
            text += "\n"
        queried = sorted(set(ids + ["9999"]))
        out.append((text, queried, wellformed, entries))
    # directed: every state alone, real format
    for st in SLURM_STATES + odd_states:
        out.append((f"{'77':<20}{st:<20}\n", ["77", "78"], True, [("77", st)]))
    return out


def run_squeue(chk, tmp):
    import jade.hpc.slurm_manager as sm
    from jade.hpc.hpc_submitter import AsyncHpcSubmitter, HpcStatusCollector
    mgr, _ = _mk_manager(tmp, {"account": "acct"})
    n = 400 if chk.tier == "quick" else 6000
    cases = squeue_cases(chk.rng, n)
    cmp_ = core.CoqCompare(
        "c18_squeue", IMPORTS,
        "fun c => option_map (fun snap => map (fun id => (status_of snap id, batch_is_complete snap id)) (snd c)) (get_statuses (fst c))",
        "option_eqb (list_eqb (prod_eqb hpc_status_eqb Bool.eqb))",
        "string * list string", "option (list (hpc_status * bool))")
    orig = sm.run_command
    dist = {"wellformed": 0, "malformed": 0, "states": {}}
    try:
        for text, ids, wf, entries in cases:
            def fake(cmd, output=None, **kw):
                output["stdout"] = text
                output["stderr"] = ""
                return 0
            sm.run_command = fake
            res = None
            try:
                coll = HpcStatusCollector(mgr, 0)
                res = []
                for jid in ids:
                    st = coll.check_status(jid)
                    done = AsyncHpcSubmitter.create_from_id(mgr, coll, jid).is_complete()
                    res.append((st.name, bool(done)))
            except AssertionError:
                res = None
            exp = "None" if res is None else "(Some " + clist([f"({s}, {cbool(b)})" for s, b in res]) + ")"
            cmp_.add(f"({cstr(text)}, {clist([cstr(i) for i in ids])})", exp, {"text": text, "ids": ids, "impl": res})
            chk.count(("squeue", text), nontrivial=bool(entries))
            dist["wellformed" if wf else "malformed"] += 1
            for _, st in entries:
                dist["states"][st] = dist["states"].get(st, 0) + 1
            # property oracle on impl
            if wf:
                if res is None:
                    chk.violation("squeue-wellformed-rejected", "well-formed squeue output raised AssertionError",
                                  {"component": "SlurmManager._get_statuses_from_output", "input": text})
                else:
                    last = {}
                    for jid, st in entries:
                        last[jid] = st
                    for jid, (stname, done) in zip(ids, res):
                        if jid in last and done and last[jid] not in TERMINAL:
                            chk.violation(f"treated-finished:{last[jid]}",
                                          f"batch reported {last[jid]} by squeue is treated as finished",
                                          {"component": "AsyncHpcSubmitter.is_complete", "squeue_output": text, "id": jid,
                                           "reported": last[jid], "impl_status": stname, "impl_is_complete": done})
                        if jid not in last and not done:
                            chk.violation("absent-not-finished", "batch absent from squeue is not treated as finished",
                                          {"component": "AsyncHpcSubmitter.is_complete", "squeue_output": text, "id": jid})
    finally:
        sm.run_command = orig
    chk.sample({"kind": "squeue", "text": cases[3][0], "ids": cases[3][1]})
    bad = cmp_.run()
    chk.oblige("correspondence squeue parse + is_complete (%d cases)" % len(cmp_.cases), not bad,
               "first differing cases: %s" % bad[:5])
    for i in bad[:3]:
        chk.tie_broken("correspondence Slurm.get_statuses/batch_is_complete vs SlurmManager/AsyncHpcSubmitter",
                       json.dumps({"case": cmp_.cases[i][2], **cmp_.show(i)}, default=str)[:1500])
    chk.notes.setdefault("input_distribution", {})["squeue"] = dist


# ---------------------------------------------------------------------------------------------
def run_sbatch(chk, tmp):
    import jade.hpc.slurm_manager as sm
    from jade.hpc.hpc_submitter import AsyncHpcSubmitter, HpcStatusCollector
    from jade.enums import Status
    mgr, group = _mk_manager(tmp, {"account": "acct"})
    rng = chk.rng
    texts = ["Submitted batch job 123\n", "Submitted batch job 123", "", "\n", "Submitted batch job \n",
             "Submitted batch job abc\n", "sbatch: warning: x\nSubmitted batch job 9 on cluster kestrel\n",
             "Submitted batch job 12 Submitted batch job 34", "submitted batch job 5", "Submitted batch job  7",
             "Submitted batch jobSubmitted batch job 88x", "Submitted batch job 007\n", "Submitted batch job -3",
             "Submitted batch job", "xSubmitted batch job 4y", "Submitted batch job 1.5", "Submitted  batch job 6"]
    for _ in range(60 if chk.tier == "quick" else 800):
        parts = []
        for _ in range(rng.randint(1, 4)):
            parts.append(rng.choice(["Submitted batch job ", "Submitted batch jo", "warning ", "\n", " ", "S", "b",
                                     str(rng.randint(0, 99999)), "x", "Submitted batch job"]))
        texts.append("".join(parts))
    cmp_ = core.CoqCompare("c18_sbatch", IMPORTS, "fun c => submit (fst c) (snd c)", "sr_eqb", "Z * string", "submit_result",
                           prelude="Definition sr_eqb (a b : submit_result) := match a, b with GOOD x, GOOD y => String.eqb x y | ERROR, ERROR => true | _, _ => false end.")
    orig = sm.run_command
    dist = {"good": 0, "error": 0}
    try:
        for text in texts:
            for ret in (0, 1, 0, 127)[: (2 if text not in texts[:4] else 4)]:
                def fake(cmd, output=None, **kw):
                    output["stdout"] = text
                    output["stderr"] = "err"
                    return ret
                sm.run_command = fake
                coll = HpcStatusCollector(mgr, 0)
                sub = AsyncHpcSubmitter(mgr, coll, os.path.join(tmp, "run_batch_1.sh"), "job_batch_1", group, tmp)
                status = sub.run()
                if status == Status.GOOD:
                    exp = f"(GOOD {cstr(str(sub.job_id))})"
                    dist["good"] += 1
                    if ret != 0 or not str(sub.job_id).isdigit() or ("Submitted batch job " + str(sub.job_id)) not in text:
                        chk.violation("submit-good-unjustified", "sbatch response accepted as submitted without exit 0 + 'Submitted batch job <digits>'",
                                      {"component": "SlurmManager.submit", "ret": ret, "stdout": text, "job_id": sub.job_id})
                else:
                    exp = "ERROR"
                    dist["error"] += 1
                    if not (sub._is_complete and sub.return_code == 1):
                        chk.violation("submit-error-not-complete", "failed submission not marked complete/failed",
                                      {"component": "AsyncHpcSubmitter.run", "ret": ret, "stdout": text})
                    if ret == 0 and __import__("re").search(r"Submitted batch job [0-9]+", text):
                        chk.violation("submit-standard-rejected", "standard sbatch answer treated as a failed submission",
                                      {"component": "SlurmManager.submit", "ret": ret, "stdout": text})
                cmp_.add(f"({cZ(ret)}, {cstr(text)})", exp, {"ret": ret, "stdout": text, "impl": exp})
                chk.count(("sbatch", ret, text))
    finally:
        sm.run_command = orig
    chk.sample({"kind": "sbatch", "ret": 0, "stdout": texts[6]})
    bad = cmp_.run()
    chk.oblige("correspondence sbatch response (%d cases)" % len(cmp_.cases), not bad, "first differing: %s" % bad[:5])
    for i in bad[:3]:
        chk.tie_broken("correspondence Slurm.submit vs SlurmManager.submit/AsyncHpcSubmitter.run",
                       json.dumps({"case": cmp_.cases[i][2], **cmp_.show(i)}, default=str)[:1500])
    chk.notes.setdefault("input_distribution", {})["sbatch"] = dist


# ---------------------------------------------------------------------------------------------
def _parse_directives(text):
    out = []
    for line in text.split("\n"):
        if line.startswith("#SBATCH --") and "=" in line:
            k, v = line[len("#SBATCH --"):].split("=", 1)
            out.append((k, v))
    return out


def run_script(chk, tmp):
    rng = chk.rng
    values = {"gres": ["gpu:1", "gpu:16"], "mem": ["80GB", "246000", "a=b"], "nodes": [1, 4], "ntasks": [1, 36],
              "ntasks_per_node": [2, 104], "partition": ["debug", "short,standard"], "qos": ["high", "normal"],
              "tmp": ["1TB", "1600G"], "reservation": ["res-1", "my res"]}
    accounts = ["acct", "my-proj_1", "a b"]
    walls = ["4:00:00", "00:05:00", "1-00:00:00"]
    subsets = list(itertools.product([False, True], repeat=len(OPTIONAL)))
    if chk.tier == "quick":
        subsets = subsets[::1]
    cmp_ = core.CoqCompare("c18_script", IMPORTS,
                           "fun c => match c with (cfg, name, script, path) => script_text cfg name script path end",
                           "String.eqb", "script_cfg * string * string * string", "string", shard=64)
    dist = {"subsets": 0, "set_fields": 0}
    for si, subset in enumerate(subsets):
        fields = {"account": rng.choice(accounts), "walltime": rng.choice(walls)}
        for p, on in zip(OPTIONAL, subset):
            if on:
                fields[p] = rng.choice(values[p])
        outdir = os.path.join(tmp, "o%d" % si)
        os.makedirs(outdir)
        mgr, group = _mk_manager(outdir, fields)
        # one manager writes the scripts of all the batches a submitter round submits for its group
        for rep in range(rng.choice([1, 2, 3])):
            name = rng.choice(["job_batch_%d" % (rep + 1), "p_batch_1%d" % rep, "x y%d" % rep])
            script = os.path.join(outdir, "run_batch_%d.sh" % (20 * rep + rng.randint(1, 20)))
            mgr.submit(outdir, name, script, "g", dry_run=True)
            text = open(os.path.join(outdir, name + ".sh")).read()
            hpc = group.submitter_params.hpc_config.hpc
            actual = {p: getattr(hpc, p) for p in OPTIONAL}
            optterm = clist([f"({cstr(p)}, {cstr(str(v))})" for p, v in actual.items() if v is not None])
            cfg = f"{{| c_account := {cstr(hpc.account)}; c_walltime := {cstr(hpc.walltime)}; c_opt := fun p => assoc p {optterm} |}}"
            cmp_.add(f"({cfg}, {cstr(name)}, {cstr(script)}, {cstr(outdir)})", cstr(text),
                     {"fields": fields, "name": name, "script": script, "path": outdir, "impl_text": text, "nth_script_of_manager": rep + 1})
            chk.count(("script", tuple(sorted(fields.items())), name, rep))
            dist["subsets"] += 1
            dist["set_fields"] += sum(1 for v in actual.values() if v is not None)
            # property oracle on impl's text
            ds = _parse_directives(text)
            want = [("account", hpc.account), ("job-name", name), ("time", hpc.walltime),
                    ("output", outdir + "/job_output_%j.o"), ("error", outdir + "/job_output_%j.e")]
            want += [(p, str(v)) for p, v in actual.items() if v is not None]
            lines = text.split("\n")
            problems = []
            if sorted(ds) != sorted(want):
                problems.append({"missing": sorted(set(want) - set(ds)), "unexpected": sorted(set(ds) - set(want))})
            if lines[0] != "#!/bin/bash" or not text.endswith("\n") or lines[-2] != f"srun {script}":
                problems.append({"first_line": lines[0], "last_line": lines[-2:]})
            commands = [l for l in lines[1:] if l.strip() and not l.startswith("#")]
            if commands != [f"srun {script}"]:
                # the script runs the batch's run script and nothing else (not another batch's run script either)
                problems.append({"commands": commands, "expected": [f"srun {script}"]})
            if problems:
                chk.violation("script-directives", "submission script does not carry exactly the configured parameters",
                              {"component": "SlurmManager._create_submission_script_text", "config": fields, "name": name,
                               "script": script, "impl_text": text, "problems": problems, "nth_script_of_manager": rep + 1})
        shutil.rmtree(outdir, ignore_errors=True)
        if si == 300:
            chk.sample({"kind": "script", "config": fields, "text": text})
    bad = cmp_.run()
    chk.oblige("correspondence submission script text (%d configurations, all 2^9 optional subsets)" % len(cmp_.cases),
               not bad, "first differing: %s" % bad[:5])
    for i in bad[:3]:
        chk.tie_broken("correspondence Slurm.script_text vs SlurmManager.create_submission_script",
                       json.dumps({"case": cmp_.cases[i][2], **cmp_.show(i)}, default=str)[:2000])
    chk.notes.setdefault("input_distribution", {})["script"] = dist
    chk.notes["exhaustive_optional_subsets"] = True


# ---------------------------------------------------------------------------------------------
def _outs_term(outs):
    items = [f"{{| o_ret := {cZ(r)}; o_stdout := {cstr(so)}; o_stderr := {cstr(se)} |}}" for r, so, se in outs]
    return f"(fun k => nth k {clist(items)} {{| o_ret := 99; o_stdout := \"\"; o_stderr := \"exhausted\" |}})"


def run_retry(chk, tmp):
    import jade.utils.run_command as rcmod
    from jade.exceptions import InvalidParameter
    rng = chk.rng
    # the listed permanent errors are matched as they are written (case matters: SLURM's own message is capitalised)
    kinds = [(0, "", ""), (1, "", "boom"), (2, "", "xx perm yy"), (1, "", "other"), (1, "", ""),
             (1, "", "slurm_load_jobs error: Invalid job id specified"), (1, "", "xx PERM yy")]
    errsets = [[], ["perm"], ["nope", "perm"], ["other", ""][:1], ["Invalid job id specified"], ["Perm", "invalid job id specified"]]
    maxlen = 4 if chk.tier == "quick" else 5
    seqs = []
    for L in range(1, maxlen + 1):
        for combo in itertools.product(range(len(kinds)), repeat=L):
            # keep sequences whose only success (if any) is last: later outcomes are never consumed
            if any(kinds[c][0] == 0 for c in combo[:-1]):
                continue
            seqs.append([kinds[c] for c in combo])
    cmp_ = core.CoqCompare(
        "c18_retry", IMPORTS,
        "fun c => match c with (n, cap, errs, outs) => match run_command_api n cap errs outs with RcInvalidParameter => None | RcDone m o => Some (m, o_ret o, o_stderr o) end end",
        "option_eqb (prod_eqb (prod_eqb Nat.eqb Z.eqb) String.eqb)",
        "nat * bool * list string * (nat -> outcome)", "option (nat * Z * string)", shard=400)
    orig_run, orig_sleep = rcmod._run_command, rcmod.time.sleep
    dist = {"sequences": 0, "by_retries": {}, "early_exit": 0, "success": 0, "exhausted": 0, "invalid_parameter": 0}
    try:
        rcmod.time = types.SimpleNamespace(sleep=lambda s: None, time=__import__("time").time)
        todo = []
        for seq in seqs:
            for n in (0, 1, 2, 3, 6):
                if n + 1 < len(seq):
                    continue
                for cap in (True, False):
                    for errs in errsets:
                        todo.append((seq, n, cap, errs))
        if chk.tier == "quick" and len(todo) > 4000:
            todo = rng.sample(todo, 4000)
        for seq, n, cap, errs in todo:
            calls = []

            def fake(command, output, cwd, **kw):
                k = len(calls)
                calls.append(command)
                r, so, se = seq[k] if k < len(seq) else (99, "", "exhausted")
                if output is not None:
                    output["stdout"] = so
                    output["stderr"] = se
                return r
            rcmod._run_command = fake
            output = {} if cap else None
            try:
                ret = rcmod.run_command("squeue -u me", output, num_retries=n, retry_delay_s=10, error_strings=errs or None)
                stderr = output["stderr"] if cap else None
                res = (len(calls), ret, stderr)
            except InvalidParameter:
                res = None
                dist["invalid_parameter"] += 1
            if res is None:
                exp = "None"
            else:
                # without capture the caller sees no stderr; the model returns the outcome itself
                k = res[0] - 1
                se = seq[k][2] if k < len(seq) else "exhausted"
                exp = f"(Some ({cnat(res[0])}, {cZ(res[1])}, {cstr(se)}))"
                if cap and stderr != se:
                    chk.violation("retry-output-not-last", "run_command returned output of an execution other than the last",
                                  {"component": "run_command", "outcomes": seq, "num_retries": n, "returned_stderr": stderr})
                # property oracle
                execs = res[0]
                first_ok = next((i for i, o in enumerate(seq) if o[0] == 0), None)
                first_perm = next((i for i, o in enumerate(seq) if o[0] != 0 and cap and n > 0 and any(e in o[2] for e in errs)), None)
                stops = [x for x in (first_ok, first_perm) if x is not None]
                want = min(min(stops) + 1 if stops else n + 1, n + 1)
                if execs > n + 1 or execs != want:
                    chk.violation("retry-count", f"command executed {execs} times, expected {want} (num_retries={n})",
                                  {"component": "run_command", "outcomes": seq, "num_retries": n, "capture": cap,
                                   "error_strings": errs, "executions": execs, "expected": want})
                if first_ok is not None and want == first_ok + 1:
                    dist["success"] += 1
                elif first_perm is not None and want == first_perm + 1:
                    dist["early_exit"] += 1
                else:
                    dist["exhausted"] += 1
            cmp_.add(f"({cnat(n)}, {cbool(cap)}, {clist([cstr(e) for e in errs])}, {_outs_term(seq)})", exp,
                     {"outcomes": seq, "num_retries": n, "capture": cap, "errs": errs, "impl": res})
            chk.count(("retry", tuple(seq), n, cap, tuple(errs)), nontrivial=len(seq) > 1 or n > 0)
            dist["sequences"] += 1
            dist["by_retries"][n] = dist["by_retries"].get(n, 0) + 1
    finally:
        rcmod._run_command = orig_run
        rcmod.time = __import__("time")
    chk.sample({"kind": "retry", "outcomes": [[1, "", "boom"], [2, "", "xx perm yy"], [0, "", ""]], "num_retries": 3,
                "capture": True, "errs": ["perm"]})
    bad = cmp_.run()
    chk.oblige("correspondence run_command retry loop (%d scripted outcome sequences)" % len(cmp_.cases), not bad,
               "first differing: %s" % bad[:5])
    for i in bad[:3]:
        chk.tie_broken("correspondence Retry.run_command vs jade.utils.run_command.run_command",
                       json.dumps({"case": cmp_.cases[i][2], **cmp_.show(i)}, default=str)[:1500])
    chk.notes.setdefault("input_distribution", {})["retry"] = dist


def run_check_statuses(chk, tmp):
    """squeue failing k times then answering: the real SlurmManager.check_statuses on the real
    run_command (only the subprocess is scripted)."""
    import jade.utils.run_command as rcmod
    import jade.hpc.slurm_manager as sm
    from jade.exceptions import ExecutionError
    mgr, _ = _mk_manager(tmp, {"account": "acct"})
    good = f"{'5':<20}{'RUNNING':<20}\n{'6':<20}{'PENDING':<20}\n"
    cmp_ = core.CoqCompare(
        "c18_chkst", IMPORTS,
        "fun outs => match check_statuses outs with (n, StExecutionError) => (n, 0%N, []) | (n, StAssert) => (n, 1%N, []) | (n, StOk _ s) => (n, 2%N, s) end",
        "prod_eqb (prod_eqb Nat.eqb N.eqb) (list_eqb (prod_eqb String.eqb hpc_status_eqb))",
        "nat -> outcome", "nat * N * list (string * hpc_status)")
    orig_run = rcmod._run_command
    try:
        rcmod.time = types.SimpleNamespace(sleep=lambda s: None, time=__import__("time").time)
        for k in range(0, 10):
            for final in ("good", "garbage"):
                seq = [(1, "", "slurm_load_jobs error: Socket timed out")] * k + [(0, good if final == "good" else "1 2 3\n", "")]
                calls = []

                def fake(command, output, cwd, **kw):
                    i = len(calls)
                    calls.append(command)
                    r, so, se = seq[i] if i < len(seq) else (99, "", "exhausted")
                    output["stdout"] = so
                    output["stderr"] = se
                    return r
                rcmod._run_command = fake
                try:
                    st = mgr.check_statuses()
                    exp = f"({cnat(len(calls))}, 2%N, {clist([f'({cstr(i)}, {s.name})' for i, s in st.items()])})"
                except ExecutionError:
                    exp = f"({cnat(len(calls))}, 0%N, [])"
                except AssertionError:
                    exp = f"({cnat(len(calls))}, 1%N, [])"
                if calls and calls[0][:1] != ["squeue"]:
                    chk.violation("squeue-command", "status query does not run squeue", {"argv": calls[0]})
                cmp_.add(_outs_term(seq), exp, {"failures_before_answer": k, "final": final, "impl": exp})
                chk.count(("chkst", k, final))
    finally:
        rcmod._run_command = orig_run
        rcmod.time = __import__("time")
    bad = cmp_.run()
    chk.oblige("correspondence check_statuses = retried squeue + parse (%d cases)" % len(cmp_.cases), not bad,
               "first differing: %s" % bad[:5])
    for i in bad[:3]:
        chk.tie_broken("correspondence Slurm.check_statuses vs SlurmManager.check_statuses",
                       json.dumps({"case": cmp_.cases[i][2], **cmp_.show(i)}, default=str)[:1500])


def _component_run(chk):
    proofs_ok = core.standard_proof_phase(chk, "C18", gen_needed=("SlurmGen", "RunCommandGen"))
    import logging
    logging.disable(logging.CRITICAL)
    tmp = tempfile.mkdtemp(prefix="verif_c18_")
    try:
        # the impl-side oracles run even when the proofs broke: they are the search for a witness
        for part in (run_squeue, run_sbatch, run_script, run_retry, run_check_statuses):
            if not proofs_ok and not (core.THEORIES / "Slurm.vo").exists():
                break
            try:
                part(chk, tmp)
            except core.BuildError as e:
                chk.oblige("coqc evaluation in " + part.__name__, False, str(e) + e.log[-800:])
                chk.tie_broken("model evaluation failed in " + part.__name__, e.log[-1200:])
    finally:
        shutil.rmtree(tmp, ignore_errors=True)
    chk.notes["rule"] = ("cases = squeue texts (full SLURM vocabulary x whitespace shapes, malformed stream), sbatch responses, "
                         "all 2^9 optional-field subsets of the SLURM config, all scripted outcome sequences of the retried "
                         "command up to the length bound; non-trivial = at least one entry/retry; distinct by content hash")
    chk.coverage["rule"] = chk.notes["rule"]
    chk.assumptions += ["ASCII text only (Python's str.split / \\d also accept non-ASCII whitespace/digits)",
                        "what real sbatch/squeue print is an assumption about SLURM (A-HPC)"]


def _component_replay(path):
    obj = json.load(open(path))
    print(json.dumps(obj, indent=1)[:4000])
    return 0


# ------------------------------------------------------------------------------------------------
# system level (added by the coordinator): the real code in the virtual cluster, impl traces accepted
# by System.step, Coq monitors and Python oracles (harness/syscheck.py)
def run(chk):
    _component_run(chk)
    from harness import syscheck
    syscheck.system_phase(chk, "C18", {'squeuefail': 5, 'plain': 2, 'suspend': 2}, n_quick=60, n_thorough=1200, also=())


def replay(path):
    import json as _json
    try:
        obj = _json.load(open(path))
    except Exception:  # noqa
        obj = {}
    if isinstance(obj, dict) and "scenario" in obj and "schedule" in obj and "plan" in obj:
        from harness import syscheck
        return syscheck.replay_case(path)
    return _component_replay(path)
