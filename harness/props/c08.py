"""C08 - results are collected exactly once under concurrent writers.

Proofs: coq/theories/Props/C08.v over the fine-grained interleaving model ResultsFiles.v and the
csv model Csv.v (constants generated from /repo into Gen/ResultsFilesGen.v).
Correspondence: the REAL ResultsAggregator run by virtual actors under a deterministic scheduler
(harness/resultsdrv.py); the model is run by coqc on the same schedule and must reproduce the file
contents, the return values of process_results and the sequence of visible operations.
Search for failing inputs: property oracles in Python over impl's own outputs (resultsdrv.judge)."""
import csv
import io
import itertools
import json
import logging
import os
import shutil
import tempfile
import time

from harness import core
from harness import resultsdrv as rd
from harness.core import cstr, clist, cnat, cN

IMPORTS = ("From Coq Require Import String Ascii List Bool NArith Arith.\n"
           "From Jade Require Import Base Csv ResultsFiles.\n"
           "From Jade.Gen Require Import ResultsFilesGen.")

NAMES = ["a", "job_1", "a,b", 'q"x', "c d", " lead", "trail ", '""', ",", '"', "x,\"y\",z", "it's", "tab\there",
         "semi;colon", "name", "None", "1", "", "é-ü", "a\\b", "{}[]", "-1"]
STATUSES = ["finished", "canceled", "missing"]


# ---------------------------------------------------------------------------------------------
# Coq terms
def fid_term(fid):
    return "Proc" if fid in ("P", None) else f"(Node {cN(int(fid))})"


def row_term(row):
    return "(mkrow " + " ".join(cstr(t) for t in rd.row_texts(row)) + ")"


def config_term(config):
    acts = []
    for spec in config["actors"]:
        if spec["kind"] == "app":
            # a non-manager node of a multi-node batch records nothing: the model gives it no rows
            items = [f"({fid_term(r['batch'])}, {row_term(r)})" for r in spec["rows"]] if spec.get("manager", True) else []
            acts.append(f"App {clist(items)} AIdle")
        else:
            acts.append(f"Col {cnat(spec['rounds'])} CIdle [] false []")
    return clist(acts)


OPS = {"acq": "OAcq", "rel": "ORel", "append": "OAppend", "read": "ORead", "remove": "ORemove"}


def effective_perm(trace, k):
    """The order in which the collector of glob entry k actually visits the listed node files: the node
    locks it acquires until it releases the processed lock, then whatever else glob had listed (a round
    cut short by an exception).  The model's Glob step takes this order; it only accepts it if it
    enumerates the existing node files exactly once each."""
    a, _, _, listed = trace[k]
    seen = []
    for b, kind, fid, _ in trace[k + 1:]:
        if b != a:
            continue
        if kind == "rel" and fid == "P":
            break
        if kind == "acq" and isinstance(fid, int):
            seen.append(fid)
    return seen + [x for x in (listed or []) if x not in seen]


def schedule_term(trace):
    items = []
    for k, t in enumerate(trace):
        perm = effective_perm(trace, k) if t[1] == "glob" else []
        items.append(f"({cnat(t[0])}, {clist([cN(x) for x in perm])})")
    return clist(items)


def ops_term(trace):
    out = []
    for a, kind, fid, perm in trace:
        if kind == "glob":
            out.append("OGlob")
        elif kind in OPS:
            out.append(f"{OPS[kind]} {fid_term(fid)}")
        else:
            return None
    return clist(out)


def lines_term(v):
    return "None" if v is None else "(Some " + clist([cstr(x) for x in v["lines"]]) + ")"


def rets_term(rets):
    def one(ret):
        return "None" if ret is None else "(Some " + clist([clist([cstr(x) for x in r]) for r in ret]) + ")"
    return clist([clist([one(r) for r in actor]) for actor in rets])


OUT_TY = ("option (list (option (list string)) * list (list (option (list (list string)))) * list fid * list op)")
OUT_EQB = ("option_eqb (prod_eqb (prod_eqb (prod_eqb (list_eqb (option_eqb (list_eqb String.eqb))) "
           "(list_eqb (list_eqb (option_eqb (list_eqb (list_eqb String.eqb)))))) (list_eqb fid_eqb)) (list_eqb op_eqb))")
RUN_FN = ("fun c => match c with (cfg, fids, sch) => "
          "option_map (fun p => (outcome (fst p) fids, snd p)) (run (init cfg) sch) end")


def scenario_case(cmp_, config, res, meta):
    ops = ops_term(res["trace"])
    if ops is None:
        return None
    fids = ["P"] + rd.batches_of(config)
    files = clist([lines_term(res["files"][str(f)]) for f in fids])
    locks = clist([fid_term(None if x == "P" else x) for x in res["locks_left"]])
    exp = f"(Some ({files}, {rets_term(res['rets'])}, {locks}, {ops}))"
    inp = f"({config_term(config)}, {clist([fid_term(f) for f in fids])}, {schedule_term(res['trace'])})"
    return cmp_.add(inp, exp, meta)


# ---------------------------------------------------------------------------------------------
# scenario generators
def mk_row(name, batch, rc=0, status="finished", ex=1.5, ct=100.25, hpc=None):
    return {"name": name, "batch": batch, "rc": rc, "status": status, "exec": ex, "ctime": ct, "hpc": hpc}


def random_config(rng, uid):
    napp = rng.randint(2, 4)
    ncol = rng.randint(1, 3)
    nbatch = rng.randint(1, 3)
    actors = []
    k = 0
    for a in range(napp):
        via = rng.choice(["append", "append", "cancel", "complete", "direct"])
        rows = []
        for _ in range(rng.randint(1, 4)):
            k += 1
            name = rng.choice(NAMES) if rng.random() < 0.7 else f"job{k}"
            if rng.random() < 0.6:
                name = f"{name}#{uid}.{k}"       # mostly distinct rows; sometimes exact duplicates
            ct = 1000.0 + 0.25 * rng.randint(0, 40)
            hpc = rng.choice([None, "77", "123456", "a,b"])
            if via == "direct":
                rows.append(mk_row(name, None, rc=1, status="canceled", ex=rng.choice([0, 0.0]), ct=ct, hpc=None))
            elif via == "cancel":
                rows.append(mk_row(name, rng.randint(1, nbatch), rc=1, status="canceled", ex=0.0, ct=ct, hpc=hpc))
            elif via == "complete":
                rows.append(mk_row(name, rng.randint(1, nbatch), rc=rng.choice([0, 0, 1, 2, -9, 127]), status="finished",
                                   ex=0.25 * rng.randint(0, 400), ct=ct, hpc=hpc))
            else:
                rows.append(mk_row(name, rng.choice([None] + list(range(1, nbatch + 1)) * 3),
                                   rc=rng.choice([0, 0, 1, -9, 255]), status=rng.choice(STATUSES),
                                   ex=0.25 * rng.randint(0, 400), ct=ct, hpc=hpc))
        spec = {"kind": "app", "via": via, "rows": rows}
        if via in ("cancel", "complete") and rng.random() < 0.3:
            spec["manager"] = False          # the same jobs finishing / being canceled on a non-manager node
        actors.append(spec)
    for c in range(ncol):
        actors.append({"kind": "col", "rounds": rng.randint(1, 3)})
    # batch numbers as a long submission has them: several digits, 9/10 and 99/100 next to each other
    off = rng.choice([0, 0, 8, 9, 98, 1233])
    if off:
        for spec in actors:
            for r in spec.get("rows", []):
                if r["batch"] is not None:
                    r["batch"] += off
    rng.shuffle(actors)
    actors.append({"kind": "col", "rounds": 1, "final": True})
    return {"actors": actors}


def exhaustive_configs(tier):
    """(name, config, complete?) - small configurations whose interleavings are enumerated"""
    A = lambda *rows: {"kind": "app", "via": "append", "rows": list(rows)}
    C = lambda n: {"kind": "col", "rounds": n}
    cfgs = [
        ("1app1row+1col", {"actors": [A(mk_row("a,b", 1)), C(1)]}),
        ("1app2rows+1col", {"actors": [A(mk_row("r1", 1), mk_row('r"2', 1)), C(1)]}),
        ("2app-samefile+1col", {"actors": [A(mk_row("x", 1)), A(mk_row("y,", 1, rc=1)), C(1)]}),
        ("1app+direct+1col", {"actors": [A(mk_row("x", 1)), {"kind": "app", "via": "direct", "rows": [mk_row("d", None, rc=1, status="canceled", ex=0)]}, C(1)]}),
        ("manager+nonmanager-cancel+1col", {"actors": [{"kind": "app", "via": "cancel", "rows": [mk_row("c", 1, rc=1, status="canceled", ex=0.0)]},
                                                        {"kind": "app", "via": "cancel", "manager": False, "rows": [mk_row("c", 1, rc=1, status="canceled", ex=0.0)]}, C(1)]}),
        ("manager+nonmanager-complete+1col", {"actors": [{"kind": "app", "via": "complete", "rows": [mk_row("f", 1, rc=2)]},
                                                          {"kind": "app", "via": "complete", "manager": False, "rows": [mk_row("f", 1, rc=2)]}, C(1)]}),
    ]
    if tier == "thorough":
        cfgs += [
            ("2app-2files+1col", {"actors": [A(mk_row("x", 1)), A(mk_row("y", 2)), C(1)]}),
            ("1app1row+2col", {"actors": [A(mk_row("x", 1)), C(1), C(1)]}),
            ("1app2rows+1col2rounds", {"actors": [A(mk_row("x", 1), mk_row("y", 1)), C(2)]}),
            ("2app2rows-samefile+1col", {"actors": [A(mk_row("a", 1), mk_row("b", 1)), A(mk_row("c", 1), mk_row("d", 1)), C(1)]}),
            ("2app-samefile+1col2rounds", {"actors": [A(mk_row("x", 1)), A(mk_row("y", 1)), C(2)]}),
        ]
    return cfgs


# ---------------------------------------------------------------------------------------------
def report_violations(chk, config, res, problems, where):
    for sig, what, detail in problems:
        chk.violation(sig, what, {"component": "ResultsAggregator (append_result / process_results)", "where": where,
                                  "config": config, "schedule": res["schedule"],
                                  "glob_orders": [t[3] for t in res["trace"] if t[1] == "glob"],
                                  "trace": res["trace"], "detail": detail, "files": res["files"], "rets": res["rets"],
                                  "final_list_results": res.get("final_list")})


def run_scenarios(chk):
    rng = chk.rng
    quick = chk.tier == "quick"
    cmp_ = core.CoqCompare("c08_run", IMPORTS, RUN_FN, OUT_EQB, "list actor * list fid * list label", OUT_TY, shard=200)
    dist = {"exhaustive": {}, "random": 0, "steps": 0, "rows": 0, "collect_rounds": 0, "hostile_names": 0, "via": {}}
    counts = []        # (name, config, number of impl schedules) for complete enumerations
    t0 = time.time()
    # 1. exhaustive enumeration of the small configurations
    budget_each = 200 if quick else None
    for name, config in exhaustive_configs(chk.tier):
        n = 0
        complete = True
        for res in rd.explore(config, limit=budget_each):
            n += 1
            problems = rd.judge(config, res)
            report_violations(chk, config, res, problems, f"exhaustive:{name}")
            if scenario_case(cmp_, config, res, {"config": config, "schedule": res["schedule"], "kind": name}) is None:
                chk.tie_broken("operation kind outside the model", json.dumps(res["trace"])[:600])
            chk.count(("ex", name, tuple(res["schedule"])), nontrivial=True)
            dist["steps"] += len(res["trace"])
        if budget_each is not None and n >= budget_each:
            complete = False
        dist["exhaustive"][name] = {"schedules": n, "complete": complete}
        if complete:
            counts.append((name, config, n))
    # the first two are small enough to be complete in the quick tier as well
    # 2. random scenarios
    nrand = 150 if quick else 4000
    for k in range(nrand):
        config = random_config(rng, k)
        res = rd.run_scenario(config, rd.chooser_random(rng), rng=rng, glob_order="shuffle")
        problems = rd.judge(config, res)
        report_violations(chk, config, res, problems, "random")
        if scenario_case(cmp_, config, res, {"config": config, "schedule": res["schedule"], "kind": "random"}) is None:
            chk.tie_broken("operation kind outside the model", json.dumps(res["trace"])[:600])
        chk.count(("rnd", k, tuple(res["schedule"])), nontrivial=True)
        dist["random"] += 1
        dist["steps"] += len(res["trace"])
        for spec in config["actors"]:
            if spec["kind"] == "app":
                dist["rows"] += len(spec["rows"])
                dist["via"][spec["via"]] = dist["via"].get(spec["via"], 0) + 1
                dist["hostile_names"] += sum(1 for r in spec["rows"] if any(ch in r["name"] for ch in ',"'))
            else:
                dist["collect_rounds"] += spec["rounds"]
        if k < 2:
            chk.sample({"kind": "random scenario", "config": config, "schedule": res["schedule"]})
    dist["impl_wall_s"] = round(time.time() - t0, 1)
    bad = cmp_.run()
    chk.oblige("correspondence ResultsFiles.run vs the real ResultsAggregator on the same schedule "
               "(%d schedules: file texts, process_results return values, operation sequence)" % len(cmp_.cases),
               not bad, "first differing cases: %s" % bad[:5])
    for i in bad[:3]:
        meta = cmp_.cases[i][2]
        chk.tie_broken("correspondence ResultsFiles.run vs ResultsAggregator",
                       json.dumps({"case": meta, "expected_from_impl": cmp_.cases[i][1][:1500], **cmp_.show(i)}, default=str)[:6000])
    # 3. the enumeration is complete: the model has exactly as many maximal schedules
    if counts:
        cc = core.CoqCompare("c08_count", IMPORTS, "fun cfg => count_runs 200 (init cfg)", "N.eqb", "list actor", "N")
        for name, config, n in counts:
            cc.add(config_term(config), cN(n), {"name": name, "impl_schedules": n})
        badc = cc.run()
        chk.oblige("the enumerated schedules are all maximal schedules of the model (%s)"
                   % ", ".join(f"{n}: {k}" for n, _, k in counts), not badc, "differing: %s" % badc)
        for i in badc:
            chk.tie_broken("number of interleavings differs between model and impl",
                           json.dumps({"case": cc.cases[i][2], **cc.show(i)}, default=str)[:1500])
    chk.notes.setdefault("input_distribution", {})["scenarios"] = dist


# ---------------------------------------------------------------------------------------------
def _py_format(fields, delim):
    buf = io.StringIO()
    csv.writer(buf, delimiter=delim, lineterminator="").writerow(fields)
    return buf.getvalue()


def _py_parse(line, delim):
    try:
        recs = list(csv.reader([line + "\n", "X\n"], delimiter=delim))
    except csv.Error:
        return None
    if len(recs) != 2 or recs[1] != ["X"]:
        return None
    return recs[0]


def run_csv(chk):
    """Csv.format_line / parse_line against Python's csv module; read_file against _get_results"""
    from jade.jobs.results_aggregator import ResultsAggregator
    from jade.result import Result
    rng = chk.rng
    c = rd.consts()
    delim = c["delimiter"]
    n = 400 if chk.tier == "quick" else 6000
    alphabet = ["a", "b", delim, '"', " ", "'", ";", "\t", "é", "0", "-"]
    fmt = core.CoqCompare("c08_fmt", IMPORTS, "format_line delim", "String.eqb", "list string", "string")
    par = core.CoqCompare("c08_parse", IMPORTS, "parse_line delim", "option_eqb (list_eqb String.eqb)", "string",
                          "option (list string)")
    agg = ResultsAggregator.load(tempfile.gettempdir())
    dist = {"format": 0, "format_via_format_row": 0, "parse": 0, "parse_none": 0, "quoted": 0}
    for k in range(n):
        fields = ["".join(rng.choice(alphabet) for _ in range(rng.choice([0, 1, 1, 2, 3, 5]))) for _ in range(rng.choice([1, 2, 3, 6, 6]))]
        if k % 25 == 0:
            fields[0] += rng.choice(["\n", "\r"])      # the writer leaves CR/LF unquoted: the model says the same
        text = _py_format(fields, delim)
        if len(fields) == 6:
            # through the real _format_row
            try:
                r = Result(fields[0], fields[1], fields[2], fields[3], completion_time=fields[4], hpc_job_id=fields[5])
                text2 = agg._format_row(r)
                dist["format_via_format_row"] += 1
                if text2 != text and "\n" not in text and "\r" not in text:
                    # _format_row is not csv.writer(minimal) any more: is the row still readable?
                    back = _py_parse(text2, delim)
                    if back != fields:
                        chk.violation("format-row-not-parsable", "_format_row output does not read back as the fields",
                                      {"component": "ResultsAggregator._format_row", "fields": fields, "text": text2, "parsed": back})
                text = text2
            except Exception as e:   # noqa
                chk.violation("format-row-raised", "_format_row raised", {"fields": fields, "exception": repr(e)})
        fmt.add(clist([cstr(f) for f in fields]), cstr(text), {"fields": fields, "impl": text})
        dist["format"] += 1
        dist["quoted"] += '"' in text
        chk.count(("fmt", tuple(fields)))
        line = "".join(rng.choice(alphabet) for _ in range(rng.randint(0, 12)))
        if k % 2:
            line = text if ("\n" not in text and "\r" not in text) else line
        got = _py_parse(line, delim)
        par.add(cstr(line), "None" if got is None else "(Some " + clist([cstr(x) for x in got]) + ")", {"line": line, "impl": got})
        dist["parse"] += 1
        dist["parse_none"] += got is None
        chk.count(("parse", line))
    for cmp_, what in ((fmt, "Csv.format_line vs csv.writer / _format_row"), (par, "Csv.parse_line vs csv.reader")):
        bad = cmp_.run()
        chk.oblige("correspondence %s (%d cases)" % (what, len(cmp_.cases)), not bad, "first differing: %s" % bad[:5])
        for i in bad[:3]:
            chk.tie_broken("correspondence " + what, json.dumps({"case": cmp_.cases[i][2], **cmp_.show(i)}, default=str)[:1500])
    # read_file vs _get_results on whole files (well-formed and malformed)
    rf = core.CoqCompare("c08_read", IMPORTS, "fun ls => option_map (map row_fields) (read_file ls)",
                         "option_eqb (list_eqb (list_eqb String.eqb))", "list string", "option (list (list string))")
    header = delim.join(c["fields"])
    tmp = tempfile.mkdtemp(prefix="verif_c08r_")
    try:
        path = os.path.join(tmp, c["processed"])
        agg = ResultsAggregator.load(tmp)
        nfiles = 120 if chk.tier == "quick" else 1500
        dist["read_files"] = 0
        dist["read_malformed"] = 0
        for k in range(nfiles):
            lines = [header]
            for _ in range(rng.randint(0, 4)):
                name = rng.choice(NAMES)
                lines.append(_py_format([name, str(rng.choice([0, 1, -9])), rng.choice(STATUSES), "1.5", "100.25", rng.choice(["None", "7"])], delim))
            kind = "wellformed"
            if k % 4 == 3:
                kind = rng.choice(["noheader", "badrc", "short", "blank", "header-twice", "seven", "empty"])
                if kind == "noheader":
                    lines = lines[1:]
                elif kind == "badrc":
                    lines.append(_py_format(["n", "x1", "finished", "1.5", "2.5", "None"], delim))
                elif kind == "short":
                    lines.append(_py_format(["n", "0", "finished"], delim))
                elif kind == "blank":
                    lines.insert(rng.randint(1, len(lines)), "")
                elif kind == "header-twice":
                    lines.append(header)
                elif kind == "seven":
                    lines.append(_py_format(["n", "0", "finished", "1.5", "2.5", "None", "extra"], delim))
                elif kind == "empty":
                    lines = []
                dist["read_malformed"] += 1
            with open(path, "w") as f:
                f.write("".join(x + "\n" for x in lines))
            try:
                got = [rd.canon_result(r) for r in agg._get_results()]
                # text of the float fields as written (1.5 / 100.25 / 2.5 are canonical)
            except Exception:   # noqa: KeyError / ValueError / TypeError of _get_results
                got = None
            rf.add(clist([cstr(x) for x in lines]),
                   "None" if got is None else "(Some " + clist([clist([cstr(x) for x in r]) for r in got]) + ")",
                   {"lines": lines, "kind": kind, "impl": got})
            dist["read_files"] += 1
            chk.count(("read", tuple(lines)), nontrivial=len(lines) > 1)
    finally:
        shutil.rmtree(tmp, ignore_errors=True)
    bad = rf.run()
    chk.oblige("correspondence ResultsFiles.read_file vs ResultsAggregator._get_results (%d files)" % len(rf.cases), not bad,
               "first differing: %s" % bad[:5])
    for i in bad[:3]:
        chk.tie_broken("correspondence read_file vs _get_results", json.dumps({"case": rf.cases[i][2], **rf.show(i)}, default=str)[:1500])
    chk.notes.setdefault("input_distribution", {})["csv"] = dist


# ---------------------------------------------------------------------------------------------
def run_lock_diff(chk):
    """the stand-in lock against the installed filelock.SoftFileLock: same outcomes and same marker
    on disk for every sequence of acquire(timeout=0) / release over three lock objects on one path"""
    import filelock
    tmp = tempfile.mkdtemp(prefix="verif_c08l_")
    rng = chk.rng
    nseq = 150 if chk.tier == "quick" else 1500
    mism = None
    try:
        def play(kinds, seq, path):
            objs = [(filelock.SoftFileLock(path, timeout=0) if k == "real" else rd.StandInLock(path, timeout=0)) for k in kinds]
            outv = []
            for who, what in seq:
                o = objs[who]
                try:
                    if what == "acq":
                        o.acquire(timeout=0)
                        r = "ok"
                    else:
                        o.release()
                        r = "ok"
                except filelock.Timeout:
                    r = "timeout"
                outv.append((r, os.path.exists(path), bool(o.is_locked)))
            for o in objs:
                o.release(force=True)
            left = os.path.exists(path)
            if left:
                os.unlink(path)
            return outv, left
        for k in range(nseq):
            seq = [(rng.randrange(3), rng.choice(["acq", "acq", "rel"])) for _ in range(rng.randint(1, 10))]
            path = os.path.join(tmp, f"f{k}.csv.lock")
            ref = play(["real"] * 3, seq, path)
            for kinds in (["stand"] * 3, [rng.choice(["real", "stand"]) for _ in range(3)]):
                got = play(kinds, seq, path)
                if got != ref and mism is None:
                    mism = {"sequence": seq, "kinds": kinds, "filelock": ref, "got": got}
            chk.count(("lock", tuple(seq)))
    finally:
        shutil.rmtree(tmp, ignore_errors=True)
    chk.oblige("stand-in lock behaves like filelock.SoftFileLock %s (%d acquire/release sequences, pure and mixed)"
               % (filelock.__version__, nseq), mism is None, json.dumps(mism, default=str)[:800] if mism else "")
    if mism:
        chk.tie_broken("lock stand-in differs from filelock.SoftFileLock", json.dumps(mism, default=str)[:1500])


def run_shape(chk):
    """results_aggregator still takes its lock class from the name the driver replaces"""
    import jade.jobs.results_aggregator as ra
    ok = hasattr(ra, "SoftFileLock")
    chk.oblige("jade.jobs.results_aggregator.SoftFileLock is the lock the code uses", ok, "")
    if not ok:
        chk.tie_broken("lock class of results_aggregator", "module has no name SoftFileLock: the scheduler cannot see lock operations")


def _component_run(chk):
    proofs_ok = core.standard_proof_phase(chk, "C08", gen_needed=("ResultsFilesGen",))
    core.extra_props_phase(chk, "C08_system")     # rows are moved, never dropped or duplicated, in the system model
    logging.disable(logging.CRITICAL)
    model_ready = (core.THEORIES / "ResultsFiles.vo").exists() and (core.THEORIES / "Gen" / "ResultsFilesGen.vo").exists()
    for part in (run_shape, run_lock_diff, run_csv, run_scenarios):
        if not model_ready and part in (run_csv, run_scenarios):
            # without a compiled model only the impl-side oracles can run
            try:
                impl_only(chk)
            except Exception as e:   # noqa
                chk.tie_broken("impl-side search crashed", repr(e))
            break
        try:
            part(chk)
        except core.BuildError as e:
            chk.oblige("coqc evaluation in " + part.__name__, False, str(e) + e.log[-800:])
            chk.tie_broken("model evaluation failed in " + part.__name__, e.log[-1200:])
    chk.notes["rule"] = ("cases = (configuration of appenders/collectors, schedule = sequence of actor numbers at "
                         "lock/file-operation granularity, glob orders); exhaustive enumeration of all interleavings for the "
                         "small configurations, seeded random schedules for 2-4 appenders x 1-3 collectors x 1-4 rows "
                         "(names with delimiters/quotes/spaces); csv texts and whole files for the reader/writer models; "
                         "non-trivial = at least one step; distinct by content hash")
    chk.coverage["rule"] = chk.notes["rule"]
    chk.assumptions += [
        "A-FS: O_EXCL creation/unlink of the .lock marker and a small append (open 'a' .. close) are atomic",
        "field texts contain no CR/LF (CPython 3.12's csv.writer with an empty lineterminator leaves them unquoted)",
        "lock acquisition timeouts (300 s) and crashes inside a locked section are not modelled (see C12)",
        "int()/float()/str() round trips of the numeric fields are Python's (A-PY); float fields are generated in canonical form",
    ]
    chk.trusted.append("harness/resultsdrv.py: baton scheduler + stand-ins for SoftFileLock/open/os.remove/Path.glob in "
                       "jade.jobs.results_aggregator's namespace (stand-in lock differential-tested against filelock)")


def impl_only(chk):
    rng = chk.rng
    for name, config in exhaustive_configs(chk.tier):
        for res in rd.explore(config, limit=300):
            report_violations(chk, config, res, rd.judge(config, res), f"exhaustive:{name}")
            chk.count(("ex", name, tuple(res["schedule"])))
    for k in range(200):
        config = random_config(rng, k)
        res = rd.run_scenario(config, rd.chooser_random(rng), rng=rng, glob_order="shuffle")
        report_violations(chk, config, res, rd.judge(config, res), "random")
        chk.count(("rnd", k))


def _component_replay(path):
    obj = json.load(open(path))
    print(json.dumps({k: obj.get(k) for k in ("property", "signature", "what", "kind", "where")}, indent=1))
    if "config" not in obj:
        print(json.dumps(obj, indent=1)[:6000])
        return 0
    logging.disable(logging.CRITICAL)
    diverged = []
    res = rd.run_scenario(obj["config"], rd.chooser_replay(obj["schedule"], diverged), glob_order=list(obj.get("glob_orders") or []))
    problems = rd.judge(obj["config"], res)
    if diverged:
        print("the recorded interleaving is not executable on this tree: at step(s) %s the recorded actor's operation "
              "is not enabled (e.g. the lock is held); continued with the first enabled actor" % diverged[:5])
    print("config:", json.dumps(obj["config"]))
    print("schedule:", res["schedule"])
    print("trace:", res["trace"])
    print("files:", json.dumps(res["files"], indent=1))
    print("process_results return values per actor:", json.dumps(res["rets"]))
    print("final list_results:", json.dumps(res.get("final_list")))
    for sig, what, detail in problems:
        print("FAILS:", sig, "-", what, json.dumps(detail, default=str)[:1200])
    if not problems:
        print("replay: no oracle fails on the current tree")
    return 1 if problems else 0


# ------------------------------------------------------------------------------------------------
# system level (added by the coordinator): the real code in the virtual cluster, impl traces accepted
# by System.step, Coq monitors and Python oracles (harness/syscheck.py)
def run(chk):
    _component_run(chk)
    from harness import syscheck
    syscheck.system_phase(chk, "C08", {'plain': 6, 'racing_try': 2, 'hooks': 1}, n_quick=80, n_thorough=1500, also=())


def replay(path):
    import json as _json
    try:
        obj = _json.load(open(path))
    except Exception:  # noqa
        obj = {}
    if isinstance(obj, dict) and "scenario" in obj and "schedule" in obj and "plan" in obj:
        from harness import syscheck
        return syscheck.replay_case(path)
    return _component_replay(path)
