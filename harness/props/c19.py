"""C19 - jobs are launched exactly as configured and their real exit status is recorded.

Proofs: coq/theories/Props/C19.v (Shlex.v = CPython's shlex state machine; Launch.v over the
generated Gen/LaunchGen.v).
Correspondence (model evaluated by coqc): Shlex.split / quote vs shlex.split / shlex.quote,
Launch.gen_command vs the real generate_command, path_join/dirname vs os.path, format_row /
read_result vs ResultsAggregator._format_row / _get_results.
Search for failing inputs: the REAL launch path (harness/launchdrv.py) starts a real probe process
per job; Python oracles compare what the probe really received and what the row really says with
what was configured.
"""
import itertools
import json
import os
import shlex
import shutil
import tempfile

from harness import core
from harness.core import cstr, clist, cbool, cZ, copt

IMPORTS = ("From Coq Require Import String Ascii List ZArith NArith Bool.\n"
           "From Jade Require Import Base Shlex Launch.\nFrom Jade.Gen Require Import LaunchGen.")
D8 = "d8-append-unquoted-name"

WORD = "abcXYZ019_-=./:,@%+"
SPECIAL = [" ", "\t", "'", '"', "\\", "$", ";", "*", "#", "~", "(", "&", "|", "`", "!", "\u00e9", "\u65e5", "{", "}", "%"]
# arguments that mean something to str.format / % formatting: the command is data, never a template
TEMPLATE_ARGS = ["{}", "{job_name}", "{output_dir}", "{{x}}", '{"a": 1}', "{0}", "%s", "%(name)s", "{", "}{", "{print $1}"]
WS_RUNS = [" ", " ", " ", "  ", "\t", " \t ", "   ", "\n", " \r\n "]


# ---------------------------------------------------------------------------------------------
# generators: a command text together with the argument vector it is MEANT to denote (computed
# here from the quoting rules of POSIX shells, independently of shlex and of the model)
# ---------------------------------------------------------------------------------------------
def rand_arg(rng, maxlen=8):
    if rng.random() < 0.12:
        return rng.choice(TEMPLATE_ARGS)
    n = rng.choice([0, 1, 1, 2, 3, 5, maxlen])
    return "".join(rng.choice(WORD) if rng.random() < 0.55 else rng.choice(SPECIAL) for _ in range(n))


def dq_form(arg):
    out = ['"']
    for ch in arg:
        if ch in '"\\':
            out.append("\\" + ch)
        else:
            out.append(ch)
    out.append('"')
    return "".join(out)


def bs_form(arg):
    """every character that is not a plain word character is backslash-escaped"""
    if arg == "":
        return None
    return "".join(ch if ch in WORD else "\\" + ch for ch in arg)


def sq_form(arg):
    if "'" in arg:
        return None
    return "'" + arg + "'"


def piece_text(rng, arg):
    """one argument in one of the quoting styles; returns text"""
    forms = [shlex.quote(arg), dq_form(arg)]
    b = bs_form(arg)
    if b is not None:
        forms.append(b)
    s = sq_form(arg)
    if s is not None:
        forms.append(s)
    if len(arg) >= 2:   # adjacent differently quoted parts form one argument
        k = rng.randint(1, len(arg) - 1)
        forms.append(dq_form(arg[:k]) + shlex.quote(arg[k:]))
        if bs_form(arg[k:]) is not None:
            forms.append(shlex.quote(arg[:k]) + bs_form(arg[k:]))
    return rng.choice(forms)


def gen_command_args(rng, nmax=5):
    """-> (text, intended argv)"""
    n = rng.choice([0, 1, 2, 3, nmax])
    args = [rand_arg(rng) for _ in range(n)]
    if rng.random() < 0.15:
        args.append("a\\z")   # backslash before an ordinary character inside double quotes stays
        texts = [piece_text(rng, a) for a in args[:-1]] + ['"a\\z"']
    else:
        texts = [piece_text(rng, a) for a in args]
    text = ""
    if rng.random() < 0.2:
        text += rng.choice(WS_RUNS)
    for i, t in enumerate(texts):
        if i:
            text += rng.choice(WS_RUNS)
        text += t
    if rng.random() < 0.2:
        text += rng.choice(WS_RUNS)
    return text, args


def malformed_stream(rng, tier):
    """all strings over a 6-character alphabet up to a length, then random longer ones"""
    alpha = ["a", " ", "'", '"', "\\", "\t"]
    out = []
    maxlen = 4 if tier == "quick" else 6
    for L in range(0, maxlen + 1):
        for combo in itertools.product(alpha, repeat=L):
            out.append("".join(combo))
    if tier == "quick":
        out = [s for i, s in enumerate(out) if len(s) <= 3 or i % 3 == 0]
    alpha2 = alpha + ["b", "\n", "\r", "=", "-", "$", "\u00e9"]
    for _ in range(300 if tier == "quick" else 4000):
        out.append("".join(rng.choice(alpha2) for _ in range(rng.randint(5, 24))))
    return out


NAME_ALPHA = "abcXYZ019_-.=" + ", '\"\\$;*#(&\u00e9"
DIRECTED_NAMES = ["j1", "a b", "it's", 'q"x', "c,d", "-n", "--jade-job-name=x", "a\\b", "le  ad", "'", '"', "\\",
                  "$HOME", "a;b", "a  b", "x" * 150, "None", "name", "\u65e5\u672c", "a'b\"c", "*", "a\tb", "# c", "1",
                  "a,b,\"c\"", "''", "o'k ay", "{job_name}", "a{0}b", "50%s"]


def rand_name(rng, used):
    while True:
        n = "".join(rng.choice(NAME_ALPHA) for _ in range(rng.randint(1, 10)))
        n = n.strip()   # JADE's models strip surrounding whitespace from every string field
        if n and n not in used and n not in (".", ".."):
            used.add(n)
            return n


# ---------------------------------------------------------------------------------------------
def opt_list_term(x):
    return "None" if x is None else "(Some " + clist([cstr(a) for a in x]) + ")"


def py_split(text):
    try:
        return shlex.split(text)
    except ValueError:
        return None


def run_split_correspondence(chk):
    rng = chk.rng
    n = 700 if chk.tier == "quick" else 30000
    cmp_ = core.CoqCompare("c19_split", IMPORTS, "split", "option_eqb (list_eqb String.eqb)", "string", "option (list string)",
                           shard=400)
    dist = {"wellformed": 0, "malformed_stream": 0, "errors": 0, "args": 0}
    for _ in range(n):
        text, intended = gen_command_args(rng)
        got = py_split(text)
        if got != intended:
            # the generator's reading of the quoting rules and shlex disagree: shlex would not deliver
            # what a POSIX shell user means
            chk.violation("shlex-not-posix", "shlex.split does not deliver the arguments the quoting denotes",
                          {"component": "shlex.split", "text": text, "intended": intended, "shlex": got})
        cmp_.add(cstr(text), opt_list_term(got), {"text": text, "impl": got})
        chk.count(("split", text), nontrivial=bool(intended))
        dist["wellformed"] += 1
        dist["args"] += len(intended)
    for text in malformed_stream(rng, chk.tier):
        got = py_split(text)
        cmp_.add(cstr(text), opt_list_term(got), {"text": text, "impl": got})
        chk.count(("split", text), nontrivial=len(text) > 1)
        dist["malformed_stream"] += 1
        dist["errors"] += got is None
    chk.sample({"kind": "split", "text": cmp_.cases[5][2]["text"], "shlex": cmp_.cases[5][2]["impl"]})
    bad = cmp_.run()
    chk.oblige("correspondence Shlex.split vs shlex.split (%d strings, %d of them ValueError)" % (len(cmp_.cases), dist["errors"]),
               not bad, "first differing: %s" % bad[:5])
    for i in bad[:3]:
        chk.tie_broken("correspondence Shlex.split vs shlex.split",
                       json.dumps({"case": cmp_.cases[i][2], **cmp_.show(i)}, default=str)[:1500])
    # quote
    cq = core.CoqCompare("c19_quote", IMPORTS, "quote", "String.eqb", "string", "string", shard=400)
    strings = [""] + DIRECTED_NAMES + [rand_arg(rng, 12) for _ in range(300 if chk.tier == "quick" else 4000)]
    strings += [chr(c) for c in range(1, 128)]
    for s in strings:
        cq.add(cstr(s), cstr(shlex.quote(s)), {"s": s, "impl": shlex.quote(s)})
        chk.count(("quote", s))
        if py_split(shlex.quote(s)) != [s]:
            chk.violation("quote-roundtrip", "shlex.split(shlex.quote(s)) != [s]", {"component": "shlex", "s": s})
    bad = cq.run()
    chk.oblige("correspondence Shlex.quote vs shlex.quote (%d strings, every ASCII character alone)" % len(cq.cases), not bad,
               "first differing: %s" % bad[:5])
    for i in bad[:3]:
        chk.tie_broken("correspondence Shlex.quote vs shlex.quote", json.dumps({"case": cq.cases[i][2], **cq.show(i)}, default=str)[:1500])
    chk.notes.setdefault("input_distribution", {})["split"] = dist


def run_path_correspondence(chk):
    rng = chk.rng
    parts = ["a", "b c", "/", "//", ".", "..", "x'y", "job-outputs", ""]
    cp = core.CoqCompare("c19_path", IMPORTS, "fun c => (path_join (fst c) (snd c), dirname (path_join (fst c) (snd c)), dirname (fst c))",
                         "prod_eqb (prod_eqb String.eqb String.eqb) String.eqb", "string * string", "string * string * string")
    for _ in range(200 if chk.tier == "quick" else 2000):
        a = "".join(rng.choice(parts + ["/"]) for _ in range(rng.randint(0, 5)))
        b = rng.choice(["job-outputs", "job-outputs", "x", "/abs", "", "a/b"])
        j = os.path.join(a, b)
        cp.add(f"({cstr(a)}, {cstr(b)})", f"({cstr(j)}, {cstr(os.path.dirname(j))}, {cstr(os.path.dirname(a))})", {"a": a, "b": b})
        chk.count(("path", a, b))
    bad = cp.run()
    chk.oblige("correspondence path_join/dirname vs os.path.join/dirname (%d paths)" % len(cp.cases), not bad, "first differing: %s" % bad[:5])
    for i in bad[:3]:
        chk.tie_broken("correspondence Launch.path_join/dirname vs os.path", json.dumps({"case": cp.cases[i][2], **cp.show(i)}, default=str)[:1500])


# ---------------------------------------------------------------------------------------------
# the real launch path
# ---------------------------------------------------------------------------------------------
def exit_codes(chk):
    if chk.tier == "thorough":
        return list(range(256))
    spread = [0, 1, 2, 3, 7, 42, 63, 64, 100, 126, 127, 128, 129, 137, 143, 200, 254, 255]
    return spread + [chk.rng.randint(0, 255) for _ in range(14)]


def build_specs(chk, n_random_names):
    """-> list of case dicts: name, args_text, intended, flags, exit / signal, command"""
    from harness.launchdrv import PROBE_CMD
    rng = chk.rng
    used = set(DIRECTED_NAMES)
    names = list(DIRECTED_NAMES) + [rand_name(rng, used) for _ in range(n_random_names)]
    codes = exit_codes(chk)
    cases = []
    flags4 = [(False, False), (True, False), (False, True), (True, True)]
    i = 0
    # every name with every flag combination would be |names| x 4 launches; instead: directed names x 4,
    # random names cycle through the combinations; exit codes cycle independently (coprime strides)
    plan = [(n, f) for n in DIRECTED_NAMES for f in flags4] + [(n, flags4[k % 4]) for k, n in enumerate(names[len(DIRECTED_NAMES):])]
    while len(plan) < len(codes):   # make sure every exit code is used at least once
        plan.append((None, flags4[len(plan) % 4]))
    for k, (name, flags) in enumerate(plan):
        code = codes[k % len(codes)]
        while True:
            text, intended = gen_command_args(rng)
            # JADE's models strip surrounding whitespace of the command; keep commands in that normal form
            # (an escaped trailing blank would change meaning when stripped: not generated)
            text = text.strip()
            if py_split(text) == intended:
                break
        sep = rng.choice([" ", "  ", "\t"])
        case = {"name": name, "key": f"k{k}", "flags": flags, "exit": code, "signal": None, "args_text": text,
                "intended": [f"--key=k{k}", f"--exit={code}"] + intended,
                "command": f"{PROBE_CMD}{sep}--key=k{k} --exit={code} {text}".strip()}
        cases.append(case)
        i += 1
    # processes that die from a signal: Popen reports -N
    for sig in ((9, 15) if chk.tier == "quick" else (1, 9, 10, 12, 15)):   # signals Python does not handle itself
        cases.append({"name": None, "key": f"s{sig}", "flags": flags4[sig % 4], "exit": -sig, "signal": sig, "args_text": "",
                      "intended": [f"--key=s{sig}", f"--signal={sig}"], "command": f"{PROBE_CMD} --key=s{sig} --signal={sig}"})
    # jobs that are canceled instead of run (AsyncCliCommand.cancel): a row with return code 1 / canceled
    for i in range(4 if chk.tier == "quick" else 24):
        cases.append({"name": None, "key": f"c{i}", "flags": flags4[i % 4], "exit": 1, "signal": None, "args_text": "", "cancel": True,
                      "intended": [f"--key=c{i}"], "command": f"{PROBE_CMD} --key=c{i}"})
    # commands whose quoting is broken: nothing may be started
    # (only without append flags: text appended after an open quote / a dangling backslash would pair up with it)
    for bad in ("'x", 'a "b', "a\\", "a 'b' \"c"):
        cases.append({"name": None, "key": f"m{len(cases)}", "flags": (False, False), "exit": None, "signal": None, "args_text": bad,
                      "intended": None, "command": f"{PROBE_CMD} --key=m{len(cases)} --exit=0 {bad}"})
    return cases


def check_launch_batch(chk, lb, cases, meta):
    """Python oracles over what really happened.  lb: launchdrv.Launch (already run)."""
    out = lb.output
    try:
        rows = lb.rows()
    except Exception as e:   # the real reader cannot parse what the real writer wrote
        rows = []
        raw = lb.raw_rows_text()
        lines = raw.split("\n")
        witness, wline = None, None
        for line in lines[1:]:
            if line and read_expected(lines[0], line, os.path.dirname(out)) == "None":
                cands = [c for c in cases if c["name"] in line]
                witness = max(cands, key=lambda c: len(c["name"])) if cands else None
                wline = line
                break
        job = None
        if witness:
            job = {"name": witness["name"], "command": witness["command"], "append_job_name": witness["flags"][0],
                   "append_output_dir": witness["flags"][1]}
        chk.violation("rows-unreadable", f"the results file written by the jobs cannot be read back: {type(e).__name__}: {e}",
                      dict(meta, component="AsyncCliCommand._complete -> ResultsAggregator.append / get_results", job=job,
                           unparsable_row=wline, output_dir=out, hpc_type=lb.hpc_type, file=raw[:1500]))
        return rows, lb.commands()
    by_name = {}
    for r in rows:
        by_name.setdefault(r.name, []).append(r)
    cmds = lb.commands()
    rcs = lb.return_codes()
    listing = lb.stdio_listing()
    expected_files = set()
    for c in cases:
        name = c["name"]
        rep = {"component": "launch path (JobRunner._generate_jobs, generate_command, AsyncCliCommand.run/_complete, "
                            "ResultsAggregator)", "job": {"name": name, "command": c["command"], "append_job_name": c["flags"][0],
                                                           "append_output_dir": c["flags"][1]},
               "output_dir": out, "hpc_type": lb.hpc_type, "expected_hpc_job_id": lb.expected_hpc_id,
               "cli_cmd_given_to_AsyncCliCommand": cmds.get(name), **meta}
        extras = []
        if c["flags"][0]:
            extras.append("--jade-job-name=" + name)
        if c["flags"][1]:
            extras.append("--jade-runtime-output=" + out)
        dump = lb.probe_dump(c["key"])
        chk.count(("launch", name, c["command"], c["flags"], c["exit"]))
        if c.get("cancel"):
            rs = by_name.get(name, [])
            ok = (len(rs) == 1 and rs[0].return_code == 1 and rs[0].status == "canceled" and rs[0].hpc_job_id == lb.expected_hpc_id
                  and rcs.get(name) == 1)
            if not ok or dump is not None or (name + ".o") in listing:
                chk.violation("cancel-row", "a canceled job is not recorded as (name, 1, canceled, node's hpc id) or was started",
                              dict(rep, rows=[list(r) for r in rs], probe=dump))
            continue
        if c["intended"] is None:   # broken quoting
            if dump is not None or name in by_name:
                chk.violation("malformed-command-started", "a command with unbalanced quoting was started / recorded",
                              dict(rep, probe=dump, rows=[list(r) for r in by_name.get(name, [])]))
            if name not in lb.run_errors:
                chk.violation("malformed-command-no-error", "a command with unbalanced quoting raised no error in run()", rep)
            continue
        want_argv = c["intended"] + extras
        if name in lb.run_errors:
            sig = D8 if (c["flags"][0] or c["flags"][1]) else "launch-raised"
            chk.violation(sig, f"AsyncCliCommand.run raised {lb.run_errors[name]} for a well-formed configured command",
                          dict(rep, expected_argv=want_argv, error=lb.run_errors[name]))
            continue
        expected_files.update([name + ".o", name + ".e"])
        if dump is None:
            chk.violation("probe-not-run", "the job's process never ran (no probe dump)", rep)
            continue
        # 1. argv
        if dump["argv"] != want_argv:
            base_ok = dump["argv"][:len(c["intended"])] == c["intended"]
            tail = dump["argv"][len(c["intended"]):]
            if base_ok and extras and tail == py_split(" ".join(extras)):
                sig = D8            # exactly what appending the name / directory unquoted gives
            elif base_ok:
                sig = "extras-mismatch"
            else:
                sig = "argv-mismatch"
            chk.violation(sig, "the program did not receive the configured arguments (+ documented extras)",
                          dict(rep, expected_argv=want_argv, probe_argv=dump["argv"]))
        # 2. environment
        env = dump["env"]
        if env.get("JADE_RUNTIME_OUTPUT") != out or env.get("JADE_JOB_NAME") != name:
            chk.violation("env-wrong", "JADE_RUNTIME_OUTPUT / JADE_JOB_NAME not set to the output directory / job name",
                          dict(rep, probe_env=env))
        if env.get("C19_PASSTHROUGH") != os.environ.get("C19_PASSTHROUGH"):
            chk.violation("env-not-inherited", "the job does not inherit the runner's environment", dict(rep, probe_env=env))
        # 3. stdout / stderr: the job's own files, with what the probe printed
        want_out = "PROBE-OUT %s null\n" % json.dumps(name)
        want_err = "PROBE-ERR %s null\n" % json.dumps(name)
        try:
            got_out, got_err = lb.read_stdio(name + ".o"), lb.read_stdio(name + ".e")
        except OSError as e:
            got_out = got_err = "<%s>" % e
        if got_out != want_out or got_err != want_err:
            chk.violation("stdio-wrong", "stdout/stderr of the job are not in its own <name>.o / <name>.e files",
                          dict(rep, stdout_file=got_out[:300], stderr_file=got_err[:300], listing=listing[:20]))
        # 4. the row
        rs = by_name.get(name, [])
        want_rc = c["exit"]
        if len(rs) != 1:
            chk.violation("row-count", f"{len(rs)} result rows for the job (expected 1)", dict(rep, raw=lb.raw_rows_text()[:600]))
            continue
        r = rs[0]
        if r.return_code != want_rc or rcs.get(name) != want_rc:
            chk.violation("row-return-code", f"recorded return code {r.return_code} (job.return_code {rcs.get(name)}), process exited with {want_rc}",
                          dict(rep, row=list(r), real_exit=want_rc))
        if r.status != "finished":
            chk.violation("row-status", f"status {r.status!r} recorded for a job that ran", dict(rep, row=list(r)))
        if r.hpc_job_id != lb.expected_hpc_id:
            chk.violation("row-hpc-id", f"recorded hpc_job_id {r.hpc_job_id!r}, the node's id is {lb.expected_hpc_id!r}", dict(rep, row=list(r)))
        if not (isinstance(r.exec_time_s, float) and 0 <= r.exec_time_s < 600 and r.completion_time > 1e9):
            chk.violation("row-times", "execution / completion time not plausible", dict(rep, row=list(r)))
    stray = [f for f in listing if f not in expected_files]
    if stray:
        chk.violation("stdio-stray-files", "files in job-stdio that belong to no launched job", dict(meta, output_dir=out, stray=stray[:10]))
    extra_rows = [r.name for r in rows if r.name not in {c["name"] for c in cases}]
    if extra_rows:
        chk.violation("row-unknown-job", "rows for names that are not jobs", dict(meta, names=extra_rows[:10]))
    return rows, cmds


def run_launch(chk, tmp, cmp_gen, cmp_fmt, cmp_read):
    from harness import launchdrv
    from jade.jobs.results_aggregator import ResultsAggregator
    from jade.result import Result
    rng = chk.rng
    cases = build_specs(chk, 30 if chk.tier == "quick" else 1000)
    # names for the anonymous cases
    used = set(DIRECTED_NAMES) | {c["name"] for c in cases if c["name"]}
    for c in cases:
        if c["name"] is None:
            c["name"] = rand_name(rng, used)
    rng.shuffle(cases)
    # batches: each = one JobRunner on its own output directory; unique names inside a batch
    per = 48
    setups = [("slurm", "4242", "out"), ("slurm", "777_3", "out dir's \"q\""), ("local", None, "o,ut"), ("slurm", "31337", "out")]
    dist = {"launches": 0, "batches": 0, "flags": {}, "exit_codes": set(), "names_with_special": 0, "hpc_types": {}}
    batches = []
    pool = list(cases)
    b = 0
    while pool:
        chunk, seen, rest = [], set(), []
        for c in pool:
            if c["name"] in seen or len(chunk) >= per:
                rest.append(c)
            else:
                seen.add(c["name"])
                chunk.append(c)
        pool = rest
        batches.append(chunk)
    for b, chunk in enumerate(batches):
        hpc_type, sid, dname = setups[b % len(setups)]
        out = os.path.join(tmp, f"b{b}", dname)
        os.makedirs(os.path.dirname(out), exist_ok=True)
        specs = [{"name": c["name"], "command": c["command"], "append_job_name": c["flags"][0], "append_output_dir": c["flags"][1]}
                 for c in chunk]
        try:
            lb = launchdrv.Launch(out, specs, hpc_type=hpc_type, batch_id=b + 1, slurm_job_id=sid or "0")
        except Exception as e:   # noqa
            # the real runner raised while preparing the batch's jobs (JobRunner._generate_jobs / generate_command):
            # find the jobs it cannot prepare alone - each is a configured job that is never launched
            culprits = []
            for c, sp in zip(chunk, specs):
                o2 = os.path.join(tmp, f"b{b}_single{len(culprits)}", dname)
                os.makedirs(os.path.dirname(o2), exist_ok=True)
                try:
                    launchdrv.Launch(o2, [sp], hpc_type=hpc_type, batch_id=b + 1, slurm_job_id=sid or "0").restore_env()
                except Exception as e2:   # noqa
                    culprits.append((c, sp, repr(e2)[:300]))
                    if len(culprits) >= 3:
                        break
            for c, sp, err in culprits:
                chk.violation("launch-preparation-raised", "the runner raises while preparing a validly configured job: the batch's jobs are never launched",
                              {"component": "JobRunner._generate_jobs / GenericCommandExecution.generate_command", "job": sp,
                               "intended_argv": c.get("intended"), "error": err, "hpc_type": hpc_type})
            if not culprits:
                chk.tie_broken("launch driver: preparing a batch raised but no single job reproduces it", repr(e)[:300])
            continue
        try:
            canceled = {c["name"] for c in chunk if c.get("cancel")}
            lb.run_async_jobs(parallel=core.NCPU, skip=canceled)
            lb.cancel(canceled)
            meta = {"batch_id": b + 1, "slurm_job_id": sid}
            rows, cmds = check_launch_batch(chk, lb, chunk, meta)
        finally:
            lb.restore_env()
        dist["batches"] += 1
        dist["hpc_types"][hpc_type] = dist["hpc_types"].get(hpc_type, 0) + len(chunk)
        for c in chunk:
            dist["launches"] += 1
            dist["flags"][str(c["flags"])] = dist["flags"].get(str(c["flags"]), 0) + 1
            if c["exit"] is not None:
                dist["exit_codes"].add(c["exit"])
            if any(ch in c["name"] for ch in " ,'\"\\$;"):
                dist["names_with_special"] += 1
            # correspondence: the command generate_command really produced vs the model
            jterm = (f"{{| j_command := {cstr(c['command'])}; j_name := {cstr(c['name'])}; "
                     f"j_append_name := {cbool(c['flags'][0])}; j_append_out := {cbool(c['flags'][1])} |}}")
            cmp_gen.add(f"({jterm}, {cstr(lb.runner._jobs_output)})", cstr(cmds[c["name"]]),
                        {"job": specs[chunk.index(c)], "jobs_output": lb.runner._jobs_output, "impl": cmds[c["name"]]})
        # correspondence: rows as written / as read
        agg = ResultsAggregator.load_node_results(out, b + 1)
        raw_lines = lb.raw_rows_text().split("\n")
        header = raw_lines[0] if raw_lines else ""
        for r in rows:
            rterm = (f"{{| r_name := {cstr(r.name)}; r_rc := {cZ(r.return_code)}; r_status := {cstr(r.status)}; "
                     f"r_exec := {cstr(str(r.exec_time_s))}; r_ctime := {cstr(str(r.completion_time))}; "
                     f"r_hpc := {copt(r.hpc_job_id, cstr)} |}}")
            line = agg._format_row(r)
            cmp_fmt.add(rterm, cstr(line), {"row": list(r), "impl": line})
            if line not in raw_lines:
                chk.violation("row-text", "the row in the results file is not what _format_row gives for the result read back",
                              {"row": list(r), "format_row": line, "file": lb.raw_rows_text()[:500]})
            cmp_read.add(f"({cstr(header)}, {cstr(line)})", read_expected(header, line, tmp), {"header": header, "line": line})
        if b == 0 and chunk:
            chk.sample({"kind": "launch", "job": specs[0], "cli_cmd": cmds[specs[0]["name"]], "probe": lb.probe_dump(chunk[0]["key"]),
                        "row": [list(r) for r in rows if r.name == specs[0]["name"]]})
    missing_codes = [c for c in range(256) if c not in dist["exit_codes"]] if chk.tier == "thorough" else []
    chk.oblige("launch oracles ran on %d real launches in %d runners (%d distinct exit codes%s)"
               % (dist["launches"], dist["batches"], len(dist["exit_codes"]), ", all of 0..255" if chk.tier == "thorough" and not missing_codes else ""),
               not missing_codes, "exit codes never exercised: %s" % missing_codes[:10])
    dist["exit_codes"] = len(dist["exit_codes"])
    chk.notes.setdefault("input_distribution", {})["launch"] = dist
    chk.notes["exhaustive_exit_codes_0_255"] = chk.tier == "thorough"


def read_expected(header, line, tmp):
    """what the real ResultsAggregator reads from a file holding this header and this row"""
    from jade.jobs.results_aggregator import ResultsAggregator
    from pathlib import Path
    d = tempfile.mkdtemp(prefix="rd_", dir=tmp)
    p = Path(d) / "results_batch_1.csv"
    p.write_text(header + "\n" + line + "\n")
    try:
        res = ResultsAggregator(p)._get_results()
    except (ValueError, TypeError, KeyError):
        res = None
    finally:
        shutil.rmtree(d, ignore_errors=True)
    if res is None or len(res) != 1:
        return "None"
    r = res[0]
    return f"(Some ({cstr(r.name)}, {cZ(r.return_code)}, {cstr(r.status)}, {copt(r.hpc_job_id, cstr)}))"


def run_row_correspondence(chk, tmp, cmp_fmt, cmp_read):
    """synthetic results through the real _format_row / _get_results (no process needed): all return
    codes incl. negative ones, awkward names and ids, canceled rows; plus malformed rows."""
    from jade.jobs.results_aggregator import ResultsAggregator
    from jade.result import Result
    from jade.enums import JobCompletionStatus
    from pathlib import Path
    rng = chk.rng
    agg = ResultsAggregator(Path(tmp) / "results_batch_0.csv")
    header = ",".join(Result._fields)
    names = DIRECTED_NAMES + [rand_arg(rng, 10) or "e" for _ in range(60 if chk.tier == "quick" else 1500)]
    ids = ["4242", None, "777_3", "a,b", 'x"y', "12.batch", "None "]
    rcs = list(range(-3, 258)) + [-15, 1000, 2 ** 31, -2 ** 40]
    k = 0
    for name in names:
        for _ in range(2 if chk.tier == "quick" else 3):
            rc = rcs[k % len(rcs)]
            k += 1
            status = JobCompletionStatus.FINISHED if k % 7 else JobCompletionStatus.CANCELED
            r = Result(name, rc, status, rng.choice([0.0, 0.25, 1e-05, 123456.789, 3.0]), completion_time=rng.choice([1790620000.5, 1.0, 1e+16]),
                       hpc_job_id=rng.choice(ids))
            line = agg._format_row(r)
            rterm = (f"{{| r_name := {cstr(r.name)}; r_rc := {cZ(r.return_code)}; r_status := {cstr(r.status)}; "
                     f"r_exec := {cstr(str(r.exec_time_s))}; r_ctime := {cstr(str(r.completion_time))}; "
                     f"r_hpc := {copt(r.hpc_job_id, cstr)} |}}")
            cmp_fmt.add(rterm, cstr(line), {"row": list(r), "impl": line})
            exp = read_expected(header, line, tmp)
            cmp_read.add(f"({cstr(header)}, {cstr(line)})", exp, {"header": header, "line": line, "impl": exp})
            chk.count(("row", name, rc))
            # oracle on impl alone: what was written is what is read (names without CR/LF)
            want = f"(Some ({cstr(r.name)}, {cZ(r.return_code)}, {cstr(r.status)}, {copt(r.hpc_job_id, cstr)}))"
            if exp != want:
                chk.violation("row-roundtrip", "a result written by _format_row is not read back unchanged by _get_results",
                              {"component": "ResultsAggregator._format_row/_get_results", "result": list(r), "line": line, "read_back": exp})
    # malformed rows: fewer / more fields, bad integers, stray quotes
    bad_lines = ["a,1,finished,0.5,1.0", "a,1,finished,0.5", "a", "a,x,finished,0.5,1.0,7", "a,,finished,0.5,1.0,7", "a,1.5,finished,0.5,1.0,7",
                 "a,-,finished,0.5,1.0,7", "a,1,finished,0.5,1.0,7,extra", '"a,1,finished,0.5,1.0,7', 'a"b,1,finished,0.5,1.0,7',
                 '"a"b,1,finished,0.5,1.0,7', '"a""",007,finished,0.5,1.0,None', ",0,finished,0.5,1.0,", 'a,-0,finished,0.5,1.0,"7"',
                 '"a" ,3,finished,0.5,1.0,7', 'a,3,"fin,ished",0.5,1.0,7', "a,--1,finished,0.5,1.0,7"]   # (an unterminated quote continues on the next line: outside the one-line model)
    for line in bad_lines:
        cmp_read.add(f"({cstr(header)}, {cstr(line)})", read_expected(header, line, tmp), {"header": header, "line": line})
        chk.count(("badrow", line))


def run(chk):
    proofs_ok = core.standard_proof_phase(chk, "C19", gen_needed=("LaunchGen",))
    import logging
    logging.disable(logging.CRITICAL)
    have_model = (core.THEORIES / "Launch.vo").exists() and (core.THEORIES / "Shlex.vo").exists()
    tmp = tempfile.mkdtemp(prefix="verif_c19_", dir=core.WORK if core.WORK.exists() else None)
    cmp_gen = core.CoqCompare("c19_gen", IMPORTS, "fun c => gen_command (fst c) (snd c)", "String.eqb", "job * string", "string", shard=100)
    cmp_fmt = core.CoqCompare("c19_fmt", IMPORTS, "fun r => format_row (result_row r)", "String.eqb", "result", "string", shard=300)
    cmp_read = core.CoqCompare(
        "c19_read", IMPORTS,
        "fun c => option_map (fun r => (r_name r, r_rc r, r_status r, r_hpc r)) (read_result (fst c) (snd c))",
        "option_eqb (prod_eqb (prod_eqb (prod_eqb String.eqb Z.eqb) String.eqb) (option_eqb String.eqb))",
        "string * string", "option (string * Z * string * option string)", shard=300)
    try:
        # the impl-side oracles run even when the proofs / the translator broke: they are the search for a witness
        run_launch(chk, tmp, cmp_gen, cmp_fmt, cmp_read)
        run_row_correspondence(chk, tmp, cmp_fmt, cmp_read)
        if have_model:
            try:
                run_split_correspondence(chk)
                run_path_correspondence(chk)
                for cmp_, what in ((cmp_gen, "Launch.gen_command vs GenericCommandExecution.generate_command (as called by JobRunner._generate_jobs)"),
                                   (cmp_fmt, "Launch.format_row vs ResultsAggregator._format_row"),
                                   (cmp_read, "Launch.read_result vs ResultsAggregator._get_results")):
                    bad = cmp_.run()
                    chk.oblige("correspondence %s (%d cases)" % (what, len(cmp_.cases)), not bad, "first differing: %s" % bad[:5])
                    for i in bad[:3]:
                        chk.tie_broken("correspondence " + what, json.dumps({"case": cmp_.cases[i][2], **cmp_.show(i)}, default=str)[:1800])
            except core.BuildError as e:
                chk.oblige("coqc evaluation of the correspondence", False, str(e) + e.log[-800:])
                chk.tie_broken("model evaluation failed", e.log[-1200:])
    finally:
        shutil.rmtree(tmp, ignore_errors=True)
    chk.notes["rule"] = ("cases = command texts built from argument vectors in 6 quoting styles over a quoting/whitespace/special-character "
                         "alphabet + all strings over {a,space,tab,',\",\\} up to a length + random strings; real launches of a probe "
                         "process: directed job names x 4 flag combinations, random names, exit codes (quick: spread, thorough: all of "
                         "0..255), signals, broken quoting; synthetic result rows; distinct by content hash")
    chk.coverage["rule"] = chk.notes["rule"]
    chk.assumptions += [
        "byte level: a Python str is its utf-8 encoding (shlex treats every non-ASCII character as a word character)",
        "POSIX platform: AsyncCliCommand.run passes posix=('win' not in sys.platform) to shlex.split, true on Linux",
        "job names and HPC job ids without CR/LF, '/' and NUL (file names, one-line csv records); an id spelled 'None' reads back as no id",
        "environment inheritance, file descriptors and exit-status propagation are OS behaviour: observed by the probe, not proved",
        "the two time fields of a row are opaque strings in the model (float formatting not modelled)",
    ]


def replay(path):
    """Re-run a replay file: launch cases are started again through the real launch path."""
    obj = json.load(open(path))
    print(json.dumps(obj, indent=1)[:3000])
    job = obj.get("job")
    if not job or obj.get("kind") != "failing-input":
        return 0
    core.ensure_env()
    from harness import launchdrv
    tmp = tempfile.mkdtemp(prefix="verif_c19_replay_", dir=core.WORK if core.WORK.exists() else None)
    try:
        out = os.path.join(tmp, os.path.basename(obj.get("output_dir", "out")) or "out")
        lb = launchdrv.Launch(out, [job], hpc_type=obj.get("hpc_type", "slurm"), batch_id=obj.get("batch_id", 1),
                              slurm_job_id=obj.get("slurm_job_id") or "0")
        try:
            lb.run_async_jobs()
            import re
            m = re.search(r"--key=(\w+)", job["command"])
            dump = lb.probe_dump(m.group(1)) if m else None
            print("--- replayed on", core.REPO)
            print("cli_cmd :", lb.commands().get(job["name"]))
            print("run error:", lb.run_errors.get(job["name"]))
            print("probe   :", json.dumps(dump))
            print("rows    :", [list(r) for r in lb.rows()])
            print("stdio   :", lb.stdio_listing())
        finally:
            lb.restore_env()
    finally:
        shutil.rmtree(tmp, ignore_errors=True)
    return 0
