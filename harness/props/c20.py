"""C20 - reports are faithful.  Proofs: coq/theories/Props/C20.v (Events/Stats/Tally models, the class
predicates / writer shapes / initial summaries GENERATED into Gen/ReportsGen.v).
Correspondence (harness/reportsdrv.py): the real EventsSummary / log_event / JobRunner._aggregate_events /
ResourceMonitorAggregator / JobSubmitter._handle_completion+_build_results / ResultsSummary against the
Gallina models, evaluated by coqc.  Search for failing inputs: Python property oracles over impl's own
outputs (multiset equality with what was written, order, idempotence; true min/max/mean; each job in
exactly one class)."""
import glob
import json
import logging
import multiprocessing
import os
import shutil
import tempfile
import time

from harness import core
from harness import reportsdrv as rd
from harness.core import clist, cstr

DIST = {}


def _finish_cmp(chk, cmp_, label, which, limit=3, timeout=900):
    bad = cmp_.run(timeout=timeout)
    chk.oblige(f"correspondence {label} ({len(cmp_.cases)} cases)", not bad, "first differing cases: %s" % bad[:5])
    for i in bad[:limit]:
        chk.tie_broken(which, json.dumps({"case": cmp_.cases[i][2], **cmp_.show(i)}, default=str)[:3000])
    return bad


def _events_cmp(name):
    return core.CoqCompare(name, rd.IMPORTS, rd.EVENTS_FN, rd.EVENTS_EQB, rd.EVENTS_IN, rd.EVENTS_OUT, shard=40)


# ---------------------------------------------------------------------------------------------
def _spec(name, ts, source="s", data=None):
    return {"name": name, "source": source, "category": "misc", "message": "m", "timestamp": ts, "data": data or {}}


def directed_event_cases():
    """(label, [(file, how, spec)], late-or-None)"""
    t = "2024-03-09 23:59:58"
    cases = []
    cases.append(("equal timestamps in two files", [("submit_jobs_events.log", "hand", _spec("x", t)),
                                                    ("run_jobs_batch_1_0_events.log", "hand", _spec("x", t)),
                                                    ("submit_jobs_events.log", "real", _spec("x", t)),
                                                    ("run_jobs_batch_1_0_events.log", "real", _spec("x", t))], None))
    cases.append(("equal timestamps in one file", [("stats_events.log", "hand", _spec("x", t, data={"k": i})) for i in range(4)], None))
    cases.append(("with and without microseconds", [("submit_jobs_events.log", "hand", _spec("x", t + ".500000")),
                                                    ("submit_jobs_events.log", "hand", _spec("x", t + ".000001")),
                                                    ("run_jobs_batch_1_0_events.log", "real", _spec("x", t)),
                                                    ("run_jobs_batch_1_0_events.log", "hand", _spec("x", "2024-03-09 23:59:57.999999")),
                                                    ("run_jobs_batch_2_0_events.log", "hand", _spec("x", "2024-03-10 00:00:00"))], None))
    cases.append(("descending in one file, interleaved names",
                  [("run_jobs_batch_1_1_events.log", "hand", _spec("x" if i % 2 else "hpc_submit", "2024-03-09 23:59:%02d" % (59 - i)))
                   for i in range(8)], None))
    cases.append(("names that differ only after a dot", [("submit_jobs_events.log", "real", _spec("sim.start", t)),
                                                         ("run_jobs_batch_1_0_events.log", "real", _spec("sim.end", "2024-03-09 23:59:59")),
                                                         ("run_jobs_batch_1_0_events.log", "hand", _spec("sim", "2024-03-09 23:59:57")),
                                                         ("submit_jobs_events.log", "hand", _spec("sim.start", "2024-03-09 23:59:56"))], None))
    cases.append(("no event files at all", [], None))
    cases.append(("only Parquet names", [("stats_events.log", "real", {"name": "cpu_stats", "source": "b1", "category": "ResourceUtilization",
                                                                      "message": "m", "timestamp": t, "data": {"cpu_percent": 3.0}}),
                                          ("stats_events.log", "real", {"name": "process_stats", "source": "b1", "category": "ResourceUtilization",
                                                                        "message": "m", "timestamp": "2024-03-09 23:59:57",
                                                                        "data": {"processes": [{"name": "j1", "rss": 5, "cpu_percent": 1.0},
                                                                                               {"name": "j2", "rss": 6, "cpu_percent": 2.0}]}})], None))
    cases.append(("event logged after the first summary (not re-consolidated)",
                  [("submit_jobs_events.log", "real", _spec("x", t))],
                  ("submit_jobs_events.log", "real", _spec("x", "2024-03-09 23:59:50"))))
    cases.append(("six files", [(f, "real", _spec("hpc_submit", None)) for f in rd.FILE_NAMES] +
                  [(f, "real", _spec("hpc_submit", None)) for f in reversed(rd.FILE_NAMES)], None))
    return cases


def run_events(chk, tmp):
    rng = chk.rng
    cmp_ = _events_cmp("c20_events")
    dist = {"cases": 0, "events": 0, "by_kind": {}, "files": {}, "directed": 0, "late_event": 0, "no_events": 0}
    k = 0
    for label, items, late in directed_event_cases():
        k += 1
        world = rd.EventWorld(os.path.join(tmp, f"ev_d{k}"))
        names = set()
        for fname, how, spec in items:
            path = os.path.join(world.out, fname)
            (world.log_real if how == "real" else world.write_hand)(path, spec)
            names.add(spec["name"])
        latefn = None
        if late:
            lf, lhow, lspec = late
            latefn = (lambda w=world, lf=lf, lspec=lspec: w.log_real(os.path.join(w.out, lf), lspec))
            dist["late_event"] += 1
        nev, _ = rd.run_event_case(chk, cmp_, world, sorted(names) or ["x"], late=latefn, preload2=bool(k % 2),
                                   meta={"label": label})
        dist["cases"] += 1
        dist["directed"] += 1
        dist["events"] += nev
        shutil.rmtree(world.out, ignore_errors=True)
    n = 110 if chk.tier == "quick" else 4000
    for i in range(n):
        kind = rng.choice(["real", "hand", "mixed", "mixed"])
        nfiles = rng.choice([1, 2, 2, 3, 4, 5, 6])
        world = rd.EventWorld(os.path.join(tmp, f"ev_{i}"))
        names_pool = rd.build_event_case(rng, world, nfiles, kind)
        latefn = None
        if rng.random() < 0.1:
            p = os.path.join(world.out, rng.choice(rd.FILE_NAMES))
            sp = rd.gen_event_spec(rng, names_pool, explicit_ts=True)
            latefn = (lambda w=world, p=p, sp=sp: w.log_real(p, sp))
            dist["late_event"] += 1
        nev, _ = rd.run_event_case(chk, cmp_, world, names_pool, late=latefn, preload2=rng.random() < 0.3,
                                   meta={"label": f"random {kind} {nfiles} files"})
        dist["cases"] += 1
        dist["events"] += nev
        dist["no_events"] += nev == 0
        dist["by_kind"][kind] = dist["by_kind"].get(kind, 0) + 1
        dist["files"][nfiles] = dist["files"].get(nfiles, 0) + 1
        if i == 3:
            chk.sample({"kind": "events", "case": cmp_.cases[-1][2]["files"], "names": cmp_.cases[-1][2]["names"]})
        shutil.rmtree(world.out, ignore_errors=True)
    _finish_cmp(chk, cmp_, "EventsSummary twice (list_events, get_dataframe) vs Events.es_init/list_events",
                "correspondence Events.es_init/list_events vs jade.events.EventsSummary")
    DIST["events"] = dist


def _child_writer(out, idx, nev, seed):
    import random
    rd.quiet_jade_logging()
    rng = random.Random(seed)
    world = rd.EventWorld(out)
    world.next_id = 1 + idx * 10000
    path = os.path.join(out, f"run_jobs_batch_{idx}_0_events.log")
    names = ["hpc_submit", "bytes_consumed", "unhandled_error", "x"]
    for _ in range(nev):
        world.log_real(path, rd.gen_event_spec(rng, names, explicit_ts=False))
        if rng.random() < 0.3:
            time.sleep(rng.random() * 0.002)
    with open(os.path.join(out, f"truth_{idx}.json"), "w") as f:
        json.dump(world.truth, f)


def run_events_multiprocess(chk, tmp):
    """Several real processes write events concurrently through log_event, each to its own file."""
    cmp_ = _events_cmp("c20_events_mp")
    ctx = multiprocessing.get_context("fork")
    rounds = 2 if chk.tier == "quick" else 20
    total = 0
    for r in range(rounds):
        out = os.path.join(tmp, f"mp_{r}")
        os.makedirs(out)
        nproc = chk.rng.choice([2, 3, 4, 6])
        nev = chk.rng.choice([5, 15, 40])
        procs = [ctx.Process(target=_child_writer, args=(out, i + 1, nev, chk.rng.randint(0, 10 ** 9))) for i in range(nproc)]
        for p in procs:
            p.start()
        for p in procs:
            p.join(120)
        world = rd.EventWorld(out)
        for i in range(nproc):
            with open(os.path.join(out, f"truth_{i + 1}.json")) as f:
                world.truth.update({int(k): v for k, v in json.load(f).items()})
        nev_seen, _ = rd.run_event_case(chk, cmp_, world, ["hpc_submit", "bytes_consumed", "unhandled_error", "x"],
                                        meta={"label": f"{nproc} processes x {nev} events"})
        if nev_seen != nproc * nev:
            chk.violation("events-not-written", "events logged by concurrent processes are missing from their files",
                          {"component": "log_event", "expected": nproc * nev, "found": nev_seen})
        total += nev_seen
        shutil.rmtree(out, ignore_errors=True)
    _finish_cmp(chk, cmp_, "EventsSummary over files written by concurrent processes",
                "correspondence Events.es_init vs EventsSummary (multi-process)")
    DIST["events_multiprocess"] = {"rounds": rounds, "events": total}


def run_aggregation(chk, tmp):
    cmp_ = core.CoqCompare("c20_aggr", rd.IMPORTS, rd.AGG_FN, rd.AGG_EQB, rd.AGG_IN, rd.AGG_OUT, shard=60)
    n = 40 if chk.tier == "quick" else 1200
    nt = 0
    for i in range(n):
        out = os.path.join(tmp, f"ag_{i}")
        nt += bool(rd.run_aggregation_case(chk, cmp_, chk.rng, out))
        if i == 2:
            chk.sample({"kind": "aggregation", "case": cmp_.cases[-1][2]})
        shutil.rmtree(out, ignore_errors=True)
    _finish_cmp(chk, cmp_, "JobRunner._aggregate_events vs Events.aggregate",
                "correspondence Events.aggregate vs JobRunner._aggregate_events")
    DIST["aggregation"] = {"cases": n, "with_job_files": nt}
    # the ordering hazard described in the report: consolidation before a node has aggregated
    out = os.path.join(tmp, "race")
    probe = rd.race_probe(out)
    shutil.rmtree(out, ignore_errors=True)
    chk.notes.setdefault("observations", {})["summary_consolidated_before_node_aggregation"] = probe
    chk.oblige("probe: a summary consolidated before the node aggregated its job event files behaves as the model "
               "(Example c20_ex_consolidation_before_aggregation: the job's event is in the node file, not in the summary)",
               probe["job_event_in_summary"] is False and probe["node_file_after_aggregation"] == [probe["node_event_id"], probe["job_event_id"]],
               json.dumps(probe)[:600])
    sig = "events-consolidated-before-node-aggregation"
    if not probe["job_event_in_summary"] and any(k.get("property") == "C20" and k.get("signature") == sig
                                                 for k in core.load_known_findings()):
        chk.violation(sig, "job events moved into the node file after the summary was consolidated never reach the summary",
                      {"component": "EventsSummary.__init__ / JobRunner._aggregate_events", "probe": probe})


def run_stats(chk, tmp):
    cmp_node = core.CoqCompare("c20_stats_node", rd.IMPORTS, "node_case", rd.STATS_EQB, rd.STATS_IN, rd.STATS_OUT,
                               shard=400, prelude=rd.STATS_PRELUDE)
    cmp_proc = core.CoqCompare("c20_stats_proc", rd.IMPORTS, "proc_case", rd.STATS_EQB, rd.STATS_IN, rd.STATS_OUT,
                               shard=400, prelude=rd.STATS_PRELUDE)
    n = 45 if chk.tier == "quick" else 1500
    out = os.path.join(tmp, "stats_out")
    os.makedirs(out)
    lives = 0
    hints = rd.PATTERNS[:6] + ["negative"]
    for i in range(n):
        lives += bool(rd.run_stats_case(chk, cmp_node, cmp_proc, chk.rng, out, i, pattern_hint=hints[i] if i < len(hints) else None))
    if cmp_node.cases:
        chk.sample({"kind": "stats", "case": {k: v for k, v in cmp_node.cases[min(5, len(cmp_node.cases) - 1)][2].items()}})
    _finish_cmp(chk, cmp_node, "ResourceMonitorAggregator node statistics vs Stats.node_run/node_finalize",
                "correspondence Stats.node_run vs ResourceMonitorAggregator.update_resource_stats/finalize")
    _finish_cmp(chk, cmp_proc, "ResourceMonitorAggregator process statistics vs Stats.proc_run",
                "correspondence Stats.proc_run vs ResourceMonitorAggregator (process statistics)")
    DIST["stats"] = {"aggregator_lives": n, "with_samples": lives, "node_series": len(cmp_node.cases), "process_series": len(cmp_proc.cases),
                     "patterns": rd.PATTERNS}
    shutil.rmtree(out, ignore_errors=True)


def run_tally(chk, tmp):
    rng = chk.rng
    cmp_ = core.CoqCompare("c20_tally", rd.IMPORTS, rd.TALLY_FN, rd.TALLY_EQB, rd.TALLY_IN, rd.TALLY_OUT, shard=120)
    cmp_dup = core.CoqCompare("c20_tally_dup", rd.IMPORTS,
                              "fun c => (completion_summary (fst c) (snd c), missing_jobs (fst c) (snd c))",
                              "prod_eqb (" + rd.BUILD_EQB + ") (list_eqb String.eqb)", rd.TALLY_IN,
                              "option (N * N * N * N) * list string", shard=120)
    cmp_b = core.CoqCompare("c20_build", rd.IMPORTS, rd.BUILD_FN, rd.BUILD_EQB, rd.BUILD_IN, rd.BUILD_OUT, shard=400)
    pool = ["a", "b", "job_1", "job_10", "job_2", "x y", "A", "zz", "job,comma", "é", "j-7", "k.8"]
    writable = [(0, "finished"), (1, "finished"), (2, "finished"), (-9, "finished"), (137, "finished"), (1, "canceled")]
    n = 90 if chk.tier == "quick" else 3000
    dist = {"completion_cases": 0, "all_classes": 0, "with_missing": 0, "complete": 0, "duplicate_rows": 0, "assert_rows": 0}
    directed = [
        (["a", "b", "c", "d"], [("a", 0, "finished"), ("b", 1, "finished"), ("c", 1, "canceled")]),   # all four classes
        (["a"], []), (["a"], [("a", 0, "finished")]), (["a"], [("a", 1, "canceled")]),
        (["a", "b"], [("a", 0, "finished"), ("a", 0, "finished")]),                                     # duplicated row, b missing
        (["a", "b"], [("b", 5, "finished"), ("a", 1, "canceled")]),
        (["a", "b"], [("a", 0, "canceled")]),                                                           # a row JADE never writes
        (["a"], [("a", 1, "missing")]),
    ]
    cases = list(directed)
    for _ in range(n):
        jobs = rng.sample(pool, rng.randint(1, len(pool)))
        r = rng.random()
        have = [j for j in jobs if rng.random() < (1.0 if r < 0.25 else 0.7)]
        rng.shuffle(have)
        rows = [(j,) + rng.choice(writable) for j in have]
        if rng.random() < 0.06 and rows:
            rows.append(rng.choice(rows))                      # duplicated row
        if rng.random() < 0.04 and rows:
            j = rows[0][0]
            rows[0] = (j,) + rng.choice([(0, "canceled"), (1, "missing"), (0, "missing")])
        cases.append((jobs, rows))
    for i, (jobs, rows) in enumerate(cases):
        out = os.path.join(tmp, f"tl_{i}")
        rd.run_completion_case(chk, cmp_, rng, out, jobs, rows, {"cmp_build": cmp_b, "cmp_dup": cmp_dup})
        dist["completion_cases"] += 1
        cl = {rd.truth_class(rc, st) for _, rc, st in rows}
        dist["all_classes"] += {"successful", "failed", "canceled"} <= cl and len(rows) < len(jobs)
        dist["with_missing"] += len({r[0] for r in rows}) < len(jobs)
        dist["complete"] += len({r[0] for r in rows}) == len(jobs)
        dist["duplicate_rows"] += len({r[0] for r in rows}) < len(rows)
        dist["assert_rows"] += None in cl
        if i == 0:
            chk.sample({"kind": "tally", "jobs": jobs, "rows": rows})
        shutil.rmtree(out, ignore_errors=True)
    # _build_results directly: exhaustive over small row vocabularies (incl. rows JADE never writes)
    from jade.jobs.job_submitter import JobSubmitter
    from harness import jadeenv
    out = os.path.join(tmp, "tl_build")
    os.makedirs(out)
    mgr = JobSubmitter.create(jadeenv.make_config({"jobs": [{"name": "a", "deps": [], "group": "g"}],
                                                   "groups": [{"name": "g", "size": 5}], "max_nodes": None}), out)
    vocab = [(rc, st) for rc in (0, 1, -1, 2) for st in ("finished", "canceled", "missing", "Finished", "")]
    import itertools
    nb = 0
    for L in (0, 1, 2):
        for combo in itertools.product(vocab, repeat=L):
            rows = [(f"r{k}", rc, st) for k, (rc, st) in enumerate(combo)]
            rd.run_build_results_case(chk, cmp_b, mgr, rows, ["m"] * (L % 2))
            nb += 1
    for _ in range(100 if chk.tier == "quick" else 3000):
        rows = [(f"r{k}",) + (rng.choice(writable) if rng.random() < 0.9 else rng.choice(vocab)) for k in range(rng.randint(0, 12))]
        rd.run_build_results_case(chk, cmp_b, mgr, rows, [f"m{k}" for k in range(rng.randint(0, 4))])
        nb += 1
    shutil.rmtree(out, ignore_errors=True)
    _finish_cmp(chk, cmp_, "_handle_completion -> results.json -> ResultsSummary vs Tally.completion_summary/by_type/...",
                "correspondence Tally vs JobSubmitter._handle_completion/_build_results + ResultsSummary")
    if cmp_dup.cases:
        _finish_cmp(chk, cmp_dup, "_handle_completion with duplicated rows vs Tally.completion_summary",
                    "correspondence Tally.completion_summary vs _handle_completion (duplicated rows)")
    _finish_cmp(chk, cmp_b, "_build_results (all rows over a 20-pair vocabulary up to length 2, random longer) vs Tally.build_summary_counts",
                "correspondence Tally.build_summary_counts vs JobSubmitter._build_results")
    dist["build_results_cases"] = nb
    DIST["tally"] = dist


def run_stamps(chk, tmp):
    """Props theorem c20_timestamp_strings_chronological talks about `render`: tie it to str(datetime)."""
    import datetime
    rng = chk.rng
    cmp_ = core.CoqCompare("c20_stamp", rd.IMPORTS + "\nFrom Jade Require Import EventsProofs.",
                           "fun c => (render (fst c), render (snd c), str_ltb (render (fst c)) (render (snd c)))",
                           "prod_eqb (prod_eqb String.eqb String.eqb) Bool.eqb", "stamp * stamp", "string * string * bool", shard=300)

    def rand_dt():
        if rng.random() < 0.5:
            base = datetime.datetime(rng.choice([1, 999, 1000, 1999, 2024, 2024, 2026, 9999]), rng.randint(1, 12), rng.randint(1, 28),
                                     rng.randint(0, 23), rng.randint(0, 59), rng.randint(0, 59))
        else:
            base = datetime.datetime(2024, 12, 31, 23, 59, 59) + datetime.timedelta(seconds=rng.randint(-2, 2))
        return base.replace(microsecond=rng.choice([0, 0, 1, 10, 100, 99, 10000, 500000, 999999, rng.randint(0, 999999)]))

    def term(d):
        us = d.microsecond
        fr = "None" if us == 0 else f"(Some ({us // 10000}, {us // 100 % 100}, {us % 100})%N)"
        return f"(mkStamp {d.year // 100} {d.year % 100} {d.month} {d.day} {d.hour} {d.minute} {d.second} {fr})"
    n = 300 if chk.tier == "quick" else 4000
    for _ in range(n):
        a, b = rand_dt(), rand_dt()
        if rng.random() < 0.15:
            b = a.replace(microsecond=rng.choice([0, a.microsecond, 1]))
        sa, sb = str(a), str(b)
        cmp_.add(f"({term(a)}, {term(b)})", f"({cstr(sa)}, {cstr(sb)}, {'true' if sa < sb else 'false'})", {"a": sa, "b": sb})
        chk.count(("stamp", sa, sb), nontrivial=sa != sb)
        if (sa < sb) != (a < b):
            chk.violation("timestamp-string-order", "str(datetime) order differs from chronological order",
                          {"component": "StructuredLogEvent.timestamp = str(datetime.now())", "a": sa, "b": sb})
    _finish_cmp(chk, cmp_, "EventsProofs.render / str_ltb vs str(datetime) / Python str <",
                "correspondence EventsProofs.render vs str(datetime)")
    DIST["stamps"] = {"pairs": n}


def run_e2e_submitter_events(chk, tmp):
    """Whole submissions through the real JobSubmitter / HpcSubmitter / JobRunner (scripted scheduler and job processes,
    harness/resubmitdrv.py) with report generation on, as by default: `jade show-events` (run by generate_reports)
    consolidates the event logs.  Every event the submitter processes logged to submit_jobs_events.log - the completion
    event in particular - must be in the consolidated summary the user is shown afterwards."""
    import collections
    import random
    from harness import resubmitdrv as wd, jadeenv
    n = 4 if chk.tier == "quick" else 25
    rng = random.Random(chk.seed * 7 + 20)
    bad = 0
    for k in range(n):
        nj = rng.randint(1, 4)
        names = [f"e{i}" for i in range(nj)]
        jobs = [{"name": x, "deps": [y for y in names[:i] if rng.random() < 0.4], "group": "g", "est": 1,
                 "rc": (2 if rng.random() < 0.25 else 0), "cancel": rng.random() < 0.5} for i, x in enumerate(names)]
        sc = {"jobs": jobs, "groups": [{"name": "g", "size": rng.randint(1, 3), "time": False, "try": True, "nproc": 1, "reports": True}],
              "max_nodes": rng.choice([1, 2]), "hooks": {}, "node_cpus": 2}
        out = os.path.join(tmp, f"e2e{k}", "out")
        os.makedirs(out)
        rc = {j["name"]: j["rc"] for j in jobs}
        # every second submission runs in local mode (`jade submit-jobs --local`): the jobs and the completion handling
        # then run in one process, which goes on logging events after the runner closed the event log
        local = k % 2 == 1
        sc["groups"][0]["local"] = local
        handed = collections.Counter()      # what the process handed to the event logger, whatever its handlers did with it

        class _Tap(logging.Filter):
            def filter(self, record):
                try:
                    handed[record.msg.name] += 1
                except Exception:   # noqa
                    pass
                return True
        tap = _Tap()
        evlog = logging.getLogger("_jade_event")
        evlog.addFilter(tap)
        try:
            with wd.patched():
                from jade.jobs.job_submitter import JobSubmitter
                from jade.loggers import setup_event_logging
                world = wd.use(wd.World(out, lambda name, attempt: rc.get(name, 0), rng=random.Random(k)))
                setup_event_logging(os.path.join(out, "submit_jobs_events.log"), mode="a")      # as `jade submit-jobs` does
                JobSubmitter.run_submit_jobs(jadeenv.make_config(sc), out, local=local)
                if not local:       # a local submission has run to the end when run_submit_jobs returns
                    wd.drain(world)
        except Exception as e:   # noqa
            chk.tie_broken("e2e submission for the event summary crashed", repr(e)[:300])
            continue
        finally:
            evlog.removeFilter(tap)
        logged = collections.Counter()
        f = os.path.join(out, "submit_jobs_events.log")
        if os.path.exists(f):
            for line in open(f):
                try:
                    logged[json.loads(line)["name"]] += 1
                except Exception:   # noqa
                    pass
        cons = {}
        for name in logged:
            fn = os.path.join(out, "events", name + ".json")
            cons[name] = len(json.load(open(fn))) if os.path.exists(fn) else 0
        chk.count(("e2e-events", json.dumps(sc, sort_keys=True)), nontrivial=nj > 1)
        lost = {nm: [c, cons.get(nm, 0)] for nm, c in logged.items() if cons.get(nm, 0) < c}
        # events handed to the logger by this (submitting) process that reached no event file at all
        on_disk = collections.Counter()
        for f2 in glob.glob(os.path.join(out, "*events.log")):
            for line in open(f2):
                try:
                    on_disk[json.loads(line)["name"]] += 1
                except Exception:   # noqa
                    pass
        dropped = {nm: [c, on_disk.get(nm, 0)] for nm, c in handed.items() if on_disk.get(nm, 0) < c}
        if dropped:
            bad += 1
            chk.violation("event-logged-but-never-written",
                          "events handed to the event logger by the submitting process are in no *events.log file "
                          "(name: [handed, written]): %s" % dropped,
                          {"component": "jade.loggers (setup/close_event_logging, log_event) + JobRunner._aggregate_events + JobSubmitter._handle_completion",
                           "scenario": sc, "local": local, "handed": dict(handed), "written": dict(on_disk)})
        if lost and os.path.isdir(os.path.join(out, "events")):
            bad += 1
            chk.violation("submitter-event-not-in-summary",
                          "events logged by the submitter are absent from the consolidated summary written by report generation "
                          "(name: [logged, consolidated]): %s" % lost, {"component": "JobSubmitter._handle_completion + generate_reports + EventsSummary",
                                                                       "scenario": sc, "logged": dict(logged), "consolidated": cons})
    chk.oblige(f"e2e: all submitter events of {n} whole submissions with report generation are in the consolidated summary", bad == 0,
               f"{bad} submissions lose events")
    DIST["e2e_submissions_with_reports"] = n


def run(chk):
    proofs_ok = core.standard_proof_phase(chk, "C20", gen_needed=("ReportsGen",))
    rd.quiet_jade_logging()
    tmp = tempfile.mkdtemp(prefix="verif_c20_")
    try:
        for part in (run_events, run_events_multiprocess, run_aggregation, run_stats, run_tally, run_stamps, run_e2e_submitter_events):
            if not all((core.THEORIES / f).exists() for f in ("Events.vo", "Stats.vo", "Tally.vo")):
                break   # the models themselves did not build: nothing to compare with (already reported)
            try:
                part(chk, tmp)
            except core.BuildError as e:
                chk.oblige("coqc evaluation in " + part.__name__, False, str(e) + e.log[-800:])
                chk.tie_broken("model evaluation failed in " + part.__name__, e.log[-1200:])
    finally:
        shutil.rmtree(tmp, ignore_errors=True)
        try:
            from jade.loggers import close_event_logging
            close_event_logging()
        except Exception:
            pass
    chk.notes["input_distribution"] = DIST
    chk.notes["rule"] = ("cases = sets of 0-6 *events.log files written through setup_event_logging/log_event and/or as hand-built "
                         "lines (timestamp collisions, with/without microseconds, interleaved names, Parquet names, late events), "
                         "each read by two EventsSummary instances; node aggregation over 1-6 jobs with/without events.log; "
                         "ResourceMonitorAggregator lives on a scripted psutil (increasing/decreasing/constant/zero/big/random "
                         "series, 0-13 updates, appearing/disappearing processes); completion tallies over random result sets "
                         "(all classes, missing, duplicated and unwritable rows) + _build_results exhaustively over a 20-pair "
                         "row vocabulary up to length 2; non-trivial = at least one event / two samples / one row; distinct by content")
    chk.coverage["rule"] = chk.notes["rule"]
    chk.assumptions += [
        "A-PY: json/logging/pandas+pyarrow round trips behave as documented (exercised by every case, not proved)",
        "timestamps are compared as strings (as the code does); string order = chronological order is proved for the str(datetime) format (c20_timestamp_strings_chronological; naive datetimes, years 0001-9999), `render` is tied to str(datetime) by correspondence",
        "statistics: exact integer arithmetic; binary64 rounding of sums/means is not modelled (integer-valued samples with exact sums in the tie)",
        "the summary is consolidated after the event files are complete (EventsSummary never re-consolidates: theorem c20_events_idempotent, part 3)",
        "tally: one result row per job, names among the configured jobs (C04/C08), rows of the shapes JADE writes (generated writer_shapes)",
    ]


def replay(path):
    obj = json.load(open(path))
    print(json.dumps(obj, indent=1)[:6000])
    return 0
