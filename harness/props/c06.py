"""C06 - node and process concurrency limits are never exceeded.

Proofs: coq/theories/Props/C06.v over the JobQueue model coq/theories/Queue.v (QueueProofs.v).
Correspondence (harness/queuedrv.py):
  A. real JobQueue + scripted AsyncJobInterface objects vs Queue.trace (state after every operation,
     every call the queue makes on a job, in order);
  B. real JobRunner._run_jobs -> JobQueue.run_jobs -> AsyncCliCommand with scripted processes vs
     Queue.trace on run_jobs_ops; live processes counted after every launch;
  C. real HpcSubmitter.run rounds on a real Cluster with scripted sbatch/squeue vs Queue.trace on
     hpc_round_ops; active batches counted after every sbatch.
Search for failing inputs: Python oracles over impl's own behaviour in A, B, C."""
import json
import logging
import shutil
import tempfile

from harness import core
from harness import queuedrv as qd


def _report_bad(chk, cmp_, bad, which):
    for i in bad[:3]:
        chk.tie_broken(which, json.dumps({"case": cmp_.cases[i][2], **cmp_.show(i)}, default=str)[:2500])


def part_scripts(chk):
    rng = chk.rng
    quick = chk.tier == "quick"
    cases = [("directed", c) for c in qd.directed_scripts()]
    cases += [("exhaustive", c) for c in qd.exhaustive_scripts(2 if quick else 3)] if not quick else []
    if quick:
        ex = list(qd.exhaustive_scripts(2))
        cases += [("exhaustive", c) for c in rng.sample(ex, min(len(ex), 600))]
    cases += [("random", qd.gen_script(rng, small=(i % 4 == 0))) for i in range(700 if quick else 12000)]
    private = True
    results = []
    dist = {"cases": 0, "by_kind": {}, "ops": 0, "events": {}, "depths": {}, "with_existing": 0, "overfull_at_start": 0,
            "passes_with_cancel_chain": 0, "run_failures": 0}
    for kind, (depth, existing, ops) in cases:
        res = qd.run_script(depth, existing, ops)
        private = private and res["private"]
        results.append(res)
        for sig, msg in qd.script_oracle(depth, existing, ops, res):
            chk.violation("queue:" + sig, msg, {"component": "JobQueue (scripted AsyncJobInterface jobs)", "depth": depth,
                                                "existing": existing, "ops": ops, "impl_calls": res["log"],
                                                "impl_states": res["obs"]})
        if res["problems"]:
            chk.tie_broken("scripted-job protocol surprise", json.dumps({"problems": res["problems"][:5], "depth": depth,
                                                                         "existing": existing, "ops": ops})[:1500])
        dist["cases"] += 1
        dist["by_kind"][kind] = dist["by_kind"].get(kind, 0) + 1
        dist["ops"] += len(ops)
        dist["depths"][depth] = dist["depths"].get(depth, 0) + 1
        dist["with_existing"] += bool(existing)
        dist["overfull_at_start"] += len(existing) > depth
        ncanc = 0
        for e in res["log"]:
            dist["events"][e[0]] = dist["events"].get(e[0], 0) + 1
            ncanc += e[0] == "cancel"
            dist["run_failures"] += e[0] == "run" and not e[3]
        dist["passes_with_cancel_chain"] += ncanc >= 2
        chk.count(("script", depth, tuple(existing), json.dumps(ops)), nontrivial=len(res["log"]) >= 3)
    chk.sample({"kind": "queue-script", "depth": cases[0][1][0], "existing": cases[0][1][1], "ops": cases[0][1][2],
                "impl_calls": results[0]["log"]})
    cmp_ = core.CoqCompare("c06_script", qd.IMPORTS, qd.trace_fn(counters=private), "trace_eqb", qd.TRACE_IN, qd.TRACE_OUT, shard=150)
    for (kind, (depth, existing, ops)), res in zip(cases, results):
        if res["error"]:
            continue   # reported by the oracle as a violation (impl raised)
        if not private:
            res = dict(res, obs=qd.strip_counters(res["obs"]))
        cmp_.add(qd.case_input(depth, existing, ops), qd.trace_term(res),
                 {"depth": depth, "existing": existing, "ops": ops, "impl_calls": res["log"], "impl_states": res["obs"]})
    bad = cmp_.run()
    chk.oblige("correspondence Queue.trace vs JobQueue on scripted jobs (%d op sequences)" % len(cmp_.cases), not bad,
               "first differing: %s" % bad[:5])
    _report_bad(chk, cmp_, bad, "correspondence Queue.v vs JobQueue (scripted jobs)")
    dist["private_counters_compared"] = private
    chk.notes.setdefault("input_distribution", {})["queue_scripts"] = dist


def part_node(chk, tmp):
    rng = chk.rng
    quick = chk.tier == "quick"
    cases = qd.directed_nodes() + [qd.gen_node(rng) for _ in range(150 if quick else 2500)]
    cmp_ = None
    dist = {"runs": 0, "depths": {}, "cpu_default_used": 0, "launches": 0, "cancels": 0, "stuck_forever": 0,
            "max_live_seen_vs_limit": {}}
    pend = []
    private = True
    for sc in cases:
        res = qd.run_node(sc, tmp)
        for sig, msg in qd.node_oracle(sc, res):
            chk.violation("node:" + sig, msg, {"component": "JobRunner.run_jobs -> JobQueue -> AsyncCliCommand (scripted processes)",
                                               "scenario": sc, "impl_launches": res["launches"], "impl_rows": res["rows"],
                                               "impl_calls": res["log"]})
        if res["n_queues"] != 1 and not res["error"]:
            chk.tie_broken("JobRunner._run_jobs no longer runs exactly one JobQueue", json.dumps({"scenario": sc, "queues": res["n_queues"]}))
            continue
        private = private and res["private"]
        limit = sc["nproc"] if sc["nproc"] is not None else sc["cpus"]
        want_depth = min(len(sc["jobs"]), limit)
        if res["depth"] != want_depth:
            # the worker count is part of the property: depth handed to the queue = min(#jobs, nproc or CPUs)
            chk.tie_broken("JobRunner._run_jobs queue depth", json.dumps({"scenario": sc, "impl_depth": res["depth"], "expected": want_depth}))
        dist["runs"] += 1
        dist["depths"][str(res["depth"])] = dist["depths"].get(str(res["depth"]), 0) + 1
        dist["cpu_default_used"] += sc["nproc"] is None
        dist["launches"] += len(res["launches"])
        dist["cancels"] += sum(1 for e in res["log"] if e[0] == "cancel")
        dist["stuck_forever"] += res["stuck"]
        ml = max([l for _, l, _ in res["launches"]] or [0])
        key = f"{ml}/{limit}"
        dist["max_live_seen_vs_limit"][key] = dist["max_live_seen_vs_limit"].get(key, 0) + 1
        chk.count(("node", json.dumps(sc, sort_keys=True)), nontrivial=len(res["launches"]) >= 2)
        if not res["error"]:
            pend.append((sc, res))
    cmp_ = core.CoqCompare("c06_node", qd.IMPORTS, qd.trace_fn(counters=private), "trace_eqb", qd.TRACE_IN, qd.TRACE_OUT, shard=100)
    for sc, res in pend:
        if not private:
            res = dict(res, obs=qd.strip_counters(res["obs"]))
        cmp_.add(qd.case_input(res["depth"], [], res["ops"]), qd.trace_term(res),
                 {"scenario": sc, "impl_calls": res["log"], "impl_states": res["obs"], "ops": res["ops"]})
    chk.sample({"kind": "node", "scenario": cases[0], "impl_launches(name, live, rows)": qd.run_node(cases[0], tmp)["launches"]})
    bad = cmp_.run()
    chk.oblige("correspondence Queue.trace(run_jobs) vs JobRunner._run_jobs/AsyncCliCommand (%d node runs)" % len(cmp_.cases),
               not bad, "first differing: %s" % bad[:5])
    _report_bad(chk, cmp_, bad, "correspondence Queue.v vs JobRunner._run_jobs (scripted processes)")
    chk.notes.setdefault("input_distribution", {})["node_runs"] = dist


def part_hpc(chk, tmp):
    rng = chk.rng
    quick = chk.tier == "quick"
    cases = qd.directed_hpc() + [qd.gen_hpc(rng) for _ in range(60 if quick else 900)]
    pend = []
    private = True
    dist = {"scenarios": 0, "rounds": 0, "max_nodes": {}, "sbatch_ok": 0, "sbatch_failed": 0, "rounds_full_at_start": 0,
            "rounds_overfull_at_start": 0, "finished_during_round": 0, "max_active_vs_limit": {}}
    for sc in cases:
        res = qd.run_hpc(sc, tmp)
        for sig, msg in qd.hpc_oracle(sc, res):
            if sig in ("hpc-harness", "batch-handed-to-full-queue"):
                chk.tie_broken("submitter round protocol: " + sig, json.dumps({"what": msg, "scenario": sc})[:1500])
            else:
                chk.violation("hpc:" + sig, msg, {"component": "HpcSubmitter.run rounds (scripted sbatch/squeue)", "scenario": sc,
                                                  "impl_rounds": [{k: v for k, v in r.items() if k not in ("obs",)} for r in res["rounds"]]})
        dist["scenarios"] += 1
        m = sc["max_nodes"]
        want_depth = m if m is not None else qd.MAXSIZE
        dist["max_nodes"][str(m)] = dist["max_nodes"].get(str(m), 0) + 1
        for r in res["rounds"]:
            dist["rounds"] += 1
            if r["error"]:
                continue
            if r["n_queues"] != 1:
                chk.tie_broken("HpcSubmitter.run no longer uses exactly one JobQueue per round", json.dumps({"scenario": sc, "queues": r["n_queues"]}))
                continue
            if r["depth"] != want_depth:
                chk.tie_broken("HpcSubmitter queue depth is not max_nodes (None -> sys.maxsize)",
                               json.dumps({"scenario": sc, "impl_depth": r["depth"], "expected": want_depth}))
            private = private and r["private"]
            pend.append((sc, r))
            oks = [e[3] for e in r["log"] if e[0] == "run"]
            dist["sbatch_ok"] += sum(1 for o in oks if o)
            dist["sbatch_failed"] += sum(1 for o in oks if not o)
            dist["rounds_full_at_start"] += len(r["active_before"]) >= want_depth
            dist["rounds_overfull_at_start"] += len(r["active_before"]) > want_depth
            dist["finished_during_round"] += len(r["finished_during"])
            ma = max(r["active_after_each_sbatch"] or [len(r["active_before"])])
            key = f"{ma}/{m}"
            dist["max_active_vs_limit"][key] = dist["max_active_vs_limit"].get(key, 0) + 1
        chk.count(("hpc", json.dumps(sc, sort_keys=True)), nontrivial=sum(len(r["new_ids"]) for r in res["rounds"]) >= 1)
    chk.sample({"kind": "hpc-rounds", "scenario": {k: v for k, v in cases[1].items() if k != "jobs"}})
    cmp_ = core.CoqCompare("c06_hpc", qd.IMPORTS, qd.trace_fn(counters=private, live=False), "trace_eqb", qd.TRACE_IN, qd.TRACE_OUT, shard=150)
    for sc, r in pend:
        obs = r["obs"] if private else qd.strip_counters(r["obs"])
        cmp_.add(qd.case_input(r["depth"], r["existing"], r["ops"]), qd.trace_term({"obs": obs, "log": r["log"]}),
                 {"scenario": sc, "round": {k: v for k, v in r.items() if k != "obs"}})
    bad = cmp_.run()
    chk.oblige("correspondence Queue.trace(hpc round) vs HpcSubmitter.run on a real Cluster (%d rounds)" % len(cmp_.cases),
               not bad, "first differing: %s" % bad[:5])
    _report_bad(chk, cmp_, bad, "correspondence Queue.v vs the JobQueue inside HpcSubmitter.run")
    chk.notes.setdefault("input_distribution", {})["hpc_rounds"] = dist


def part_coverage(chk, tmp):
    """which lines of the modelled source the correspondence inputs reach (measured, not assumed)"""
    try:
        import coverage
    except ImportError:
        chk.notes["source_coverage"] = "coverage module not available"
        return
    import random
    import jade.jobs.job_queue as jq
    rng = random.Random(chk.seed + 17)
    cov = coverage.Coverage(include=[jq.__file__], data_file=None)
    cov.start()
    try:
        for depth, existing, ops in qd.directed_scripts() + [qd.gen_script(rng) for _ in range(150)]:
            qd.run_script(depth, existing, ops)
        for sc in qd.directed_nodes():
            qd.run_node(sc, tmp)
    finally:
        cov.stop()
    _, stmts, _, missing, _ = cov.analysis2(jq.__file__)
    src = open(jq.__file__).read().split("\n")
    chk.notes["source_coverage"] = {"file": "jade/jobs/job_queue.py", "statements": len(stmts), "not_reached": len(missing),
                                    "not_reached_lines": [f"{n}: {src[n - 1].strip()[:70]}" for n in missing][:40]}


PARTS = [part_scripts, part_node, part_hpc, part_coverage]


def _component_run(chk):
    # Queue.v uses no generated table (depth arithmetic, cancel return code, sys.maxsize are tied by the
    # correspondence); a non-matching name keeps the other properties' translators out of this check
    proofs_ok = core.standard_proof_phase(chk, "C06", gen_needed=("(none: C06 uses no Gen table)",))
    logging.disable(logging.CRITICAL)
    tmp = tempfile.mkdtemp(prefix="verif_c06_")
    try:
        for part in PARTS:
            if not proofs_ok and not (core.THEORIES / "Queue.vo").exists():
                break
            try:
                part(chk) if part is part_scripts else part(chk, tmp)
            except core.BuildError as e:
                chk.oblige("coqc evaluation in " + part.__name__, False, str(e) + e.log[-800:])
                chk.tie_broken("model evaluation failed in " + part.__name__, e.log[-1200:])
    finally:
        shutil.rmtree(tmp, ignore_errors=True)
    chk.notes["rule"] = ("cases = operation sequences on the real JobQueue with scripted jobs (directed corner cases, exhaustive "
                         "small scopes, random DAG-ish blocking sets x depths 1..4 x existing entries x completion/return-code/"
                         "run-failure scripts); node runs through JobRunner._run_jobs with scripted processes; submitter rounds "
                         "through HpcSubmitter.run with scripted sbatch/squeue; non-trivial = at least 3 calls on jobs; "
                         "distinct by content hash")
    chk.coverage["rule"] = chk.notes["rule"]
    chk.assumptions += ["job names are unique within a queue (JADE validates configurations); with duplicate names an "
                        "outstanding ENTRY can stand for two processes",
                        "squeue answers are snapshots, sbatch returns a fresh id (A-HPC)"]


def _component_replay(path):
    obj = json.load(open(path))
    print(json.dumps(obj, indent=1)[:6000])
    comp = obj.get("component", "")
    core.ensure_env()
    logging.disable(logging.CRITICAL)
    probs = None
    if comp.startswith("JobQueue") and "ops" in obj:
        ops = [tuple(o) for o in obj["ops"]]
        res = qd.run_script(obj["depth"], obj["existing"], ops)
        probs = qd.script_oracle(obj["depth"], obj["existing"], ops, res)
    elif comp.startswith("JobRunner") and "scenario" in obj:
        tmp = tempfile.mkdtemp(prefix="verif_c06r_")
        try:
            probs = qd.node_oracle(obj["scenario"], qd.run_node(obj["scenario"], tmp))
        finally:
            shutil.rmtree(tmp, ignore_errors=True)
    elif comp.startswith("HpcSubmitter") and "scenario" in obj:
        tmp = tempfile.mkdtemp(prefix="verif_c06r_")
        try:
            probs = qd.hpc_oracle(obj["scenario"], qd.run_hpc(obj["scenario"], tmp))
        finally:
            shutil.rmtree(tmp, ignore_errors=True)
    if probs is None:
        return 0
    print("replayed on impl:", probs or "no problem reproduced")
    return 1 if probs else 0


# ------------------------------------------------------------------------------------------------
# system level (added by the coordinator): the real code in the virtual cluster, impl traces accepted
# by System.step, Coq monitors and Python oracles (harness/syscheck.py)
def run(chk):
    _component_run(chk)
    from harness import syscheck
    core.extra_props_phase(chk, "C06_system")
    syscheck.system_phase(chk, "C06", {'plain': 5, 'suspend': 3, 'kill': 1, 'timeout': 1, 'sbatchfail': 1, 'racing_try': 1, 'squeuefail': 2, 'write': 2}, n_quick=135, n_thorough=2500, also=())


def replay(path):
    import json as _json
    try:
        obj = _json.load(open(path))
    except Exception:  # noqa
        obj = {}
    if isinstance(obj, dict) and "scenario" in obj and "schedule" in obj and "plan" in obj:
        from harness import syscheck
        return syscheck.replay_case(path)
    return _component_replay(path)
