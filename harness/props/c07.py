"""C07 - every batch respects its group's size/time limit and holds only its group's jobs; blockers; dry run.

Proofs: coq/theories/Props/C07.v (lemmas in BatchProofs.v over the model Batch.v; the admission
comparisons are regenerated from the source into Gen/BatchGen.v on every run).
Correspondence (harness/batchdrv.py): the real HpcSubmitter._make_batch, and the real HpcSubmitter.run on a
real Cluster in a scratch directory with a scripted sbatch/squeue, against the Gallina model evaluated by
coqc.  Search for failing inputs: Python oracles over what impl itself produced (return values of
_make_batch; config_batch_N.json, the submission script and the run script behind every sbatch)."""
import json
import logging
import re
import shutil
import tempfile

from harness import core, batchdrv


def _component_run(chk):
    proofs_ok = core.standard_proof_phase(chk, "C07", gen_needed=("BatchGen",))
    core.extra_props_phase(chk, "C07_system")     # the same contract as a guard of the system acceptor
    logging.disable(logging.CRITICAL)
    tmp = tempfile.mkdtemp(prefix="verif_c07_")
    quick = chk.tier == "quick"
    try:
        if not proofs_ok and not (core.THEORIES / "Batch.vo").exists():
            # the model itself does not build: still search impl for a failing input with the oracles
            _oracles_only(chk, tmp)
        else:
            for part in (lambda: batchdrv.run_make_batch(chk, tmp, 1500 if quick else 20000),
                         lambda: batchdrv.run_rounds(chk, tmp, 500 if quick else 10000,
                                                     n_dry_pairs=60 if quick else 1000,
                                                     exhaustive_fraction=40 if quick else 1)):
                try:
                    part()
                except core.BuildError as e:
                    chk.oblige("coqc evaluation of the model", False, str(e) + e.log[-800:])
                    chk.tie_broken("model evaluation failed", e.log[-1200:])
    finally:
        shutil.rmtree(tmp, ignore_errors=True)
    chk.notes["rule"] = ("case = one _make_batch call (group parameters + ordered candidate list with remaining blockers and "
                         "estimates) or one submitter round (scenario: jobs/groups/max_nodes/pre-state/sbatch outcomes); "
                         "non-trivial = >=2 candidates and (several jobs placed or something left/blocked), resp. >=2 jobs and "
                         ">=1 batch; distinct by content hash")
    chk.coverage["rule"] = chk.notes["rule"]
    chk.notes["exhaustive_scope"] = chk.notes.get("input_distribution", {}).get("make_batch", {}).get("scope", {})
    chk.notes["exhaustive"] = bool(chk.tier == "thorough")   # the <=4-candidate scope is enumerated completely in the thorough tier
    chk.notes["partial"] = [
        "canceled submissions: HpcSubmitter.run skips the group loop; the model covers the not-canceled round (C14 covers the gate)",
        "JADE_SKIP_SORT_BY_TIME (unsorted time-based candidate lists) is exercised at the _make_batch level only; the round model always sorts",
        "singularity wrapper scripts are not modelled",
        "text of the SBATCH directives beyond account/partition/time/job-name/output dir is C18's",
    ]
    chk.assumptions += ["job names are unique and submission group names are unique (check_submission_groups rejects a group listed twice)",
                        "estimated minutes are integers (GenericCommandParameters.estimated_run_minutes: Optional[int])",
                        "per_node_batch_size >= 1 for the bound '|batch| <= per_node_batch_size' (not validated by JADE: with 0 a "
                        "count-based batch holds exactly 1 job; the theorem states max(1, size))",
                        "every estimate of a time-based group fits an empty batch (check_job_runtimes) - needed only for termination"]


def _oracles_only(chk, tmp):
    rig = batchdrv.MakeBatchRig(tmp)
    cases, _ = batchdrv.make_batch_cases(chk, 3000, tier="quick")
    for g, avail in cases:
        try:
            res = rig.call(g, avail)
        except Exception as e:
            chk.violation("make_batch-exception:" + type(e).__name__, repr(e)[:200],
                          {"component": "HpcSubmitter._make_batch", "group": g, "candidates": avail})
            continue
        for pr in batchdrv.mb_oracle(g, avail, res):
            chk.violation("make_batch:" + re.sub(r"\bj\d+\b", "<job>", pr.split(":")[0])[:70], pr,
                          {"component": "HpcSubmitter._make_batch", "group": g, "candidates": avail, "impl_output": res})
    scs, pairs, _ = batchdrv.round_scenarios(chk, 400, 40, 40)
    obs = batchdrv.run_many_rounds(scs, tmp)
    for sc, o in zip(scs, obs):
        for sig, msg in batchdrv.round_oracle(sc, o):
            chk.violation(sig, msg, {"component": "HpcSubmitter.run (submission part)", "scenario": sc, "impl_observation": o})
    for a, b in pairs:
        for sig, msg in batchdrv.dry_pair_oracle(scs[a], obs[a], obs[b]):
            chk.violation(sig, msg, {"component": "HpcSubmitter.run (dry run vs real first round)", "scenario": scs[b],
                                     "impl_observation_real": obs[a], "impl_observation_dry_run": obs[b]})


def _component_replay(path):
    """Re-run the stored input on impl and on the model; print both and the oracle verdicts."""
    core.ensure_env()
    logging.disable(logging.CRITICAL)
    obj = json.load(open(path))
    print("replay of", path)
    print("signature:", obj.get("signature"), "|", obj.get("what"))
    if obj.get("kind") == "no-failing-input-found":
        print(json.dumps(obj, indent=1)[:6000])
        return 0
    tmp = tempfile.mkdtemp(prefix="verif_c07_replay_")
    rc = 0
    try:
        comp = obj.get("component", "")
        if "_make_batch" in comp:
            g, avail = obj["group"], [tuple(x) for x in obj["candidates"]]
            res = batchdrv.MakeBatchRig(tmp).call(g, avail)
            probs = batchdrv.mb_oracle(g, avail, res)
            print("group parameters:", json.dumps(g))
            print("candidates (name, remaining blockers, est. minutes):", json.dumps(avail))
            print("impl _make_batch ->", json.dumps(res))
            print("oracle verdicts:", probs or "all hold")
            cmp_ = batchdrv.new_mb_compare()
            inp, exp = batchdrv.mb_terms(g, avail, res)
            cmp_.add(inp, exp)
            print("model:", json.dumps(cmp_.show(0)), "| agrees with impl:", not cmp_.run())
            rc = 1 if probs else 0
        elif "scenario" in obj:
            sc = obj["scenario"]
            scs = [sc]
            if "dry run vs" in comp:
                wet = json.loads(json.dumps(sc))
                for g in wet["groups"]:
                    g["dry"] = False
                scs = [wet, sc]
            obs = [batchdrv.run_round_impl(s, tmp) for s in scs]
            probs = []
            for s, o in zip(scs, obs):
                probs += batchdrv.round_oracle(s, o)
            if len(scs) == 2:
                probs += batchdrv.dry_pair_oracle(scs[0], obs[0], obs[1])
            print("scenario:", json.dumps(sc))
            for o in obs:
                print("impl wrote batches:", json.dumps(o["batches"], indent=1))
                print("impl error:", o["error"], "| sbatch calls:", o["n_sbatch_calls"])
            print("oracle verdicts:", probs or "all hold")
            cmp_ = batchdrv.new_round_compare()
            inp, exp = batchdrv.round_terms(scs[-1], obs[-1])
            cmp_.add(inp, exp)
            print("model:", json.dumps(cmp_.show(0)), "| agrees with impl:", not cmp_.run())
            rc = 1 if probs else 0
        else:
            print(json.dumps(obj, indent=1)[:6000])
    finally:
        shutil.rmtree(tmp, ignore_errors=True)
    return rc


# ------------------------------------------------------------------------------------------------
# system level (added by the coordinator): the real code in the virtual cluster over several rounds (the group
# parameters are re-read from cluster_config.json by every later round), impl traces accepted by System.step (whose
# ESbatch guard is the batch contract) and the Python monitors on what was really written to config_batch_N.json
def run(chk):
    _component_run(chk)
    from harness import syscheck
    syscheck.system_phase(chk, "C07", {'multigroup': 4, 'plain': 3, 'racing_try': 1}, n_quick=70, n_thorough=1500, also=())


def replay(path):
    import json as _json
    try:
        obj = _json.load(open(path))
    except Exception:  # noqa
        obj = {}
    if isinstance(obj, dict) and "scenario" in obj and "schedule" in obj and "plan" in obj:
        from harness import syscheck
        return syscheck.replay_case(path)
    return _component_replay(path)
