"""Correspondence drivers for C20 (Events.v / Stats.v / Tally.v against the real report code).

Everything below runs REAL jade code: events are written through setup_event_logging/log_event (or as
hand-built lines in the same format), read through EventsSummary; JobRunner._aggregate_events moves
real per-job files; ResourceMonitorAggregator runs on a scripted psutil (library boundary);
JobSubmitter._handle_completion / write_results_summary / _build_results and ResultsSummary run on
result files written through ResultsAggregator.  Only psutil, time.time and the SLURM_NODEID
environment variable are stood in for.
"""
import collections
import contextlib
import datetime
import io
import json
import logging
import os
import re
import shutil
import types
from fractions import Fraction
from pathlib import Path

from harness import core, jadeenv
from harness.core import cN, cZ, clist, cstr

IMPORTS = ("From Coq Require Import String Ascii List ZArith NArith QArith Bool.\n"
           "From Jade Require Import Base Events Stats Tally.\nFrom Jade.Gen Require Import ReportsGen.")

RESOURCE_NAMES = ["cpu_stats", "disk_stats", "mem_stats", "net_stats", "process_stats"]
JSON_NAMES = ["hpc_submit", "hpc_job_assigned", "hpc_job_state_change", "bytes_consumed", "unhandled_error",
              "log_error", "submit_started", "submit_completed", "config_exec_summary", "custom.name", "x",
              "custom.other", "custom"]      # user event names that share everything before a dot


def quiet_jade_logging():
    """jade's own loggers must not write to the console; the event logger must stay enabled, so
    logging.disable() is not an option here."""
    lg = logging.getLogger("jade")
    if not any(isinstance(h, logging.NullHandler) for h in lg.handlers):
        lg.addHandler(logging.NullHandler())
    lg.propagate = False
    lg.setLevel(logging.CRITICAL + 1)


# =================================================================================================
# events
# =================================================================================================
def _norm(d):
    return json.loads(json.dumps(d))


def _canon(d):
    return json.dumps(d, sort_keys=True)


class EventWorld:
    """One temp output directory; remembers what was written (ground truth) under a unique id per event."""

    def __init__(self, out):
        self.out = out
        os.makedirs(out, exist_ok=True)
        self.truth = {}        # vid -> dict as written (json-normalised)
        self.where = {}        # path -> [vid] in write order
        self.next_id = 1

    def new_id(self):
        i = self.next_id
        self.next_id += 1
        return i

    # -- the real writers
    def log_real(self, path, spec):
        """spec: dict(name, source, category, message, data, timestamp|None, error=bool) -> vid.
        Goes through setup_event_logging(mode='a') + log_event + close_event_logging, as the CLIs do."""
        from jade.events import StructuredLogEvent, StructuredErrorLogEvent
        from jade.loggers import setup_event_logging, log_event, close_event_logging
        vid = self.new_id()
        data = dict(spec.get("data") or {})
        kw = {}
        if spec["name"] == "process_stats":
            data["processes"] = [dict(p, _vid=vid) for p in data["processes"]]
        else:
            data["_vid"] = vid
        kw.update(data)
        if spec.get("timestamp") is not None:
            kw["timestamp"] = spec["timestamp"]
        os.makedirs(os.path.dirname(path), exist_ok=True)
        setup_event_logging(path, mode="a")
        try:
            if spec.get("error"):
                try:
                    raise ValueError("boom %d" % vid)
                except ValueError:
                    ev = StructuredErrorLogEvent(spec["source"], spec["category"], spec["name"], spec["message"], **kw)
                cls = "StructuredErrorLogEvent"
                data = dict(data)
                data.update({k: ev.data[k] for k in ("exception", "error", "filename", "lineno")})
            else:
                ev = StructuredLogEvent(spec["source"], spec["category"], spec["name"], spec["message"], **kw)
                cls = "StructuredLogEvent"
            log_event(ev)
        finally:
            close_event_logging()
        self.truth[vid] = _norm({"source": spec["source"], "category": spec["category"], "name": spec["name"],
                                 "message": spec["message"], "event_class": cls, "timestamp": ev.timestamp, "data": data})
        self.where.setdefault(path, []).append(vid)
        return vid

    def write_hand(self, path, spec):
        """one hand-built line in the format log_event writes: json.dumps(event.__dict__, sort_keys=True)"""
        vid = self.new_id()
        data = dict(spec.get("data") or {})
        if spec["name"] == "process_stats":
            data["processes"] = [dict(p, _vid=vid) for p in data["processes"]]
        else:
            data["_vid"] = vid
        d = {"source": spec["source"], "category": spec["category"], "name": spec["name"], "message": spec["message"],
             "event_class": "StructuredLogEvent", "timestamp": spec["timestamp"], "data": data}
        os.makedirs(os.path.dirname(path), exist_ok=True)
        with open(path, "a") as f:
            f.write(json.dumps(d, sort_keys=True) + "\n")
        self.truth[vid] = _norm(d)
        self.where.setdefault(path, []).append(vid)
        return vid

    # -- reading files back (the model's input is what the files hold, in file order)
    def vids_of_file(self, path):
        out = []
        with open(path) as f:
            for line in f:
                d = json.loads(line)
                out.append(_vid_of(d))
        return out

    def event_term(self, vid):
        d = self.truth[vid]
        return f"mkEvent {cstr(d['name'])} {cstr(d['timestamp'])} {cN(vid)}"

    def file_term(self, vids):
        return clist([self.event_term(v) for v in vids])


def _vid_of(d):
    data = d["data"]
    if "_vid" in data:
        return data["_vid"]
    return data["processes"][0]["_vid"]


def snapshot_dir(path):
    out = {}
    p = Path(path)
    if p.is_dir():
        for f in sorted(p.iterdir()):
            out[f.name] = f.read_bytes()
    return out


def observe_summary(out, names, preload=False):
    """EventsSummary(out) -> {name: {"events": [dict]|None (raises), "rows": [vid] (dataframe, collapsed),
    "row_ts": [...], "classes": [...]}}"""
    from jade.events import EventsSummary
    s = EventsSummary(out, preload=preload)
    res = {}
    for n in names:
        try:
            evs = s.list_events(n)
            dicts = [_norm(e.to_dict()) for e in evs]
            classes = [type(e).__name__ for e in evs]
        except Exception as e:  # "event <name> is only available in Parquet"
            if "only available in Parquet" not in str(e):
                raise
            dicts, classes = None, None
        df = s.get_dataframe(n)
        rows, row_ts, nrows = [], [], 0
        if not df.empty:
            nrows = len(df)
            for ts, v in zip(df.index.tolist(), df["_vid"].tolist()):
                if not rows or rows[-1] != int(v):
                    rows.append(int(v))
                    row_ts.append(ts)
        res[n] = {"events": dicts, "rows": rows, "row_ts": row_ts, "classes": classes, "nrows": nrows}
    return res


def _opt_ids(dicts):
    return "None" if dicts is None else "(Some " + clist([cN(_vid_of(d)) for d in dicts]) + ")"


def summary_expected_term(obs1, obs2, names):
    items = []
    for n in names:
        a, b = obs1[n], obs2[n]
        items.append(f"({_opt_ids(a['events'])}, {clist([cN(v) for v in a['rows']])}, "
                     f"{_opt_ids(b['events'])}, {clist([cN(v) for v in b['rows']])})")
    return clist(items)


EVENTS_FN = ("fun c => match c with (files, files2, names) => "
             "let s1 := es_init empty_dir files in let s2 := es_init (es_dir s1) files2 in "
             "map (fun n => (option_map (map e_payload) (list_events n s1), map e_payload (dataframe_rows n s1), "
             "option_map (map e_payload) (list_events n s2), map e_payload (dataframe_rows n s2))) names end")
EVENTS_IN = "list (list event) * list (list event) * list string"
EVENTS_OUT = "list (option (list N) * list N * option (list N) * list N)"
EVENTS_EQB = ("list_eqb (prod_eqb (prod_eqb (prod_eqb (option_eqb (list_eqb N.eqb)) (list_eqb N.eqb)) "
              "(option_eqb (list_eqb N.eqb))) (list_eqb N.eqb))")


def _parse_ts(s):
    return datetime.datetime.fromisoformat(s)


def events_oracles(world, obs1, obs2, names, snap1, snap2, glob_vids, check_second=True):
    """Property oracles over impl's own outputs.  -> list of (signature, what, detail)"""
    bad = []
    written = [v for vids in glob_vids for v in vids]
    by_name = collections.defaultdict(list)
    for v in written:
        by_name[world.truth[v]["name"]].append(v)
    for n in names:
        o = obs1[n]
        want = collections.Counter(_canon(world.truth[v]) for v in by_name.get(n, []))
        if n in RESOURCE_NAMES:
            if o["events"] is not None:
                bad.append(("resource-name-listed", f"list_events({n}) did not raise for a Parquet-only name", {"name": n}))
            got_ids = collections.Counter(o["rows"])
            want_ids = collections.Counter(by_name.get(n, []))
            if got_ids != want_ids:
                bad.append(("events-lost-or-duplicated", f"Parquet rows of {n} are not exactly the events written",
                            {"name": n, "rows": o["rows"], "written": by_name.get(n, [])}))
            want_rows = sum(len(world.truth[v]["data"]["processes"]) if n == "process_stats" else 1 for v in by_name.get(n, []))
            if o["nrows"] != want_rows:
                bad.append(("events-lost-or-duplicated", f"Parquet row count of {n}: {o['nrows']} != {want_rows}", {"name": n}))
            ts = o["row_ts"]
        else:
            if o["events"] is None:
                bad.append(("events-unreadable", f"list_events({n}) raised", {"name": n}))
                continue
            got = collections.Counter(_canon(d) for d in o["events"])
            if got != want:
                missing = list((want - got).elements())[:3]
                extra = list((got - want).elements())[:3]
                bad.append(("events-lost-or-duplicated",
                            f"list_events({n}): not exactly the events written (lost/changed {len(missing)}+, extra/duplicated {len(extra)}+)",
                            {"name": n, "missing_or_changed": missing, "extra_or_duplicated": extra}))
            for d, c in zip(o["events"], o["classes"]):
                if d["event_class"] != c:
                    bad.append(("event-class", f"{n}: event of class {d['event_class']} came back as {c}", {"event": d}))
            ts = [d["timestamp"] for d in o["events"]]
        if any(ts[i] > ts[i + 1] for i in range(len(ts) - 1)) or \
                any(_parse_ts(ts[i]) > _parse_ts(ts[i + 1]) for i in range(len(ts) - 1)):
            bad.append(("events-not-ordered", f"events of {n} are not ordered by time", {"name": n, "timestamps": ts}))
        # idempotence: a second EventsSummary shows the same thing
        o2 = obs2[n]
        if check_second and (o2["events"], o2["rows"]) != (o["events"], o["rows"]):
            bad.append(("events-not-idempotent", f"second EventsSummary shows different events for {n}",
                        {"name": n, "first": [_vid_of(d) for d in (o["events"] or [])] or o["rows"],
                         "second": [_vid_of(d) for d in (o2["events"] or [])] or o2["rows"]}))
    if check_second and snap1 != snap2:
        bad.append(("events-dir-rewritten", "the second EventsSummary changed files of the events directory",
                    {"changed": sorted(k for k in set(snap1) | set(snap2) if snap1.get(k) != snap2.get(k))}))
    return bad


# ---- generators ----------------------------------------------------------------------------------
def gen_timestamp(rng):
    base = datetime.datetime(2024, 3, 9, 23, 59, 58)
    dt = base + datetime.timedelta(seconds=rng.choice([0, 0, 1, 2, 2, 3, 61]),
                                   microseconds=rng.choice([0, 0, 0, 1, 500000, 999999, 100000]))
    return str(dt)


def gen_event_spec(rng, names, explicit_ts):
    n = rng.choice(names)
    spec = {"name": n, "source": rng.choice(["submitter", "job_batch_1", "j1", "node-7", " spaced source ", "Mixed/Case"]),
            "category": {"unhandled_error": "Error", "log_error": "Error"}.get(n, "HPC" if n.startswith("hpc") else
                                                                              "ResourceUtilization" if n in RESOURCE_NAMES else "misc"),
            "message": rng.choice(["m", "a, b", "line1\nline2", 'quote " and \\ backslash', "é中", "", "  padded  ", "trailing newline\n",
                                   "\ttab", "UPPER lower", "{\"json\": 1}", "x" * 300]),
            "timestamp": gen_timestamp(rng) if explicit_ts else None}
    if n == "process_stats":
        spec["data"] = {"processes": [{"name": f"job{k}", "rss": rng.randint(0, 10 ** 9), "cpu_percent": float(rng.randint(0, 400))}
                                      for k in range(rng.randint(1, 3))]}
    elif n in RESOURCE_NAMES:
        spec["data"] = {"cpu_percent": float(rng.randint(0, 100)), "used": rng.randint(0, 2 ** 40)}
    else:
        spec["data"] = rng.choice([{}, {"batch_size": rng.randint(1, 500), "per_node_batch_size": 50},
                                   {"bytes_consumed": rng.randint(0, 10 ** 12)}, {"nested": {"a": [1, 2, {"b": None}]}, "f": 0.1},
                                   {"text": "x" * rng.randint(0, 30), "flag": True}, {"text": "  keep spaces  ", "n": -1, "zero": 0, "empty": ""},
                                   {"big": 2 ** 62, "neg": -2 ** 40, "float": 1e-9, "list": []}])
        spec["error"] = n in ("unhandled_error",) and rng.random() < 0.7
    return spec


FILE_NAMES = ["submit_jobs_events.log", "run_jobs_batch_1_0_events.log", "run_jobs_batch_1_1_events.log",
              "run_jobs_batch_2_0_events.log", "stats_events.log", "run_jobs_batch_10_3_events.log"]


def build_event_case(rng, world, nfiles, kind):
    """kind: 'real' (all through log_event, real now() timestamps, interleaved appends), 'hand',
    'mixed' (explicit timestamps with collisions; through log_event and hand-built)."""
    names_pool = rng.sample(JSON_NAMES, rng.randint(1, 4)) + rng.sample(RESOURCE_NAMES, rng.choice([0, 0, 1, 2]))
    files = [os.path.join(world.out, f) for f in rng.sample(FILE_NAMES, nfiles)]
    nev = rng.choice([0, 1, 3, 6, 10, 16]) if nfiles > 1 else rng.choice([0, 1, 4, 9])
    for _ in range(nev):
        path = rng.choice(files)
        if kind == "real":
            world.log_real(path, gen_event_spec(rng, names_pool, explicit_ts=False))
        elif kind == "hand":
            spec = gen_event_spec(rng, names_pool, explicit_ts=True)
            spec.pop("error", None)
            world.write_hand(path, spec)
        else:
            spec = gen_event_spec(rng, names_pool, explicit_ts=True)
            if rng.random() < 0.5:
                world.log_real(path, spec)
            else:
                spec.pop("error", None)
                world.write_hand(path, spec)
    # files that must be ignored by the *events.log glob
    with open(os.path.join(world.out, "submit_jobs.log"), "w") as f:
        f.write("2024 - INFO not an event\n")
    os.makedirs(os.path.join(world.out, "job-outputs", "j1"), exist_ok=True)
    return names_pool


def run_event_case(chk, cmp_, world, names_pool, late=None, preload2=False, meta=None):
    """Open the summary twice on the real code, add the case to the coqc comparison, run the oracles."""
    names = sorted(set(names_pool)) + ["no_such_event"]
    globbed = list(Path(world.out).glob("*events.log"))
    glob_vids = [world.vids_of_file(p) for p in globbed]
    obs1 = observe_summary(world.out, names)
    snap1 = snapshot_dir(os.path.join(world.out, "events"))
    if late is not None:
        late()
    globbed2 = list(Path(world.out).glob("*events.log"))
    glob_vids2 = [world.vids_of_file(p) for p in globbed2]
    obs2 = observe_summary(world.out, names, preload=preload2)
    snap2 = snapshot_dir(os.path.join(world.out, "events"))
    inp = (f"({clist([world.file_term(v) for v in glob_vids])}, {clist([world.file_term(v) for v in glob_vids2])}, "
           f"{clist([cstr(n) for n in names])})")
    m = dict(meta or {}, files={p.name: v for p, v in zip(globbed, glob_vids)}, names=names,
             written={v: world.truth[v] for vids in glob_vids2 for v in vids},
             impl_first={n: ([_vid_of(d) for d in obs1[n]["events"]] if obs1[n]["events"] is not None else None, obs1[n]["rows"]) for n in names},
             impl_second={n: ([_vid_of(d) for d in obs2[n]["events"]] if obs2[n]["events"] is not None else None, obs2[n]["rows"]) for n in names})
    cmp_.add(inp, summary_expected_term(obs1, obs2, names), m)
    nev = sum(len(v) for v in glob_vids)
    chk.count(("events", inp), nontrivial=nev > 0)
    # an event logged after a first summary that found nothing is outside the property (the summary is
    # consolidated after the submission); then the second instance consolidates afresh (model: dir_is_empty)
    check_second = not (late is not None and not snap1)
    for sig, what, detail in events_oracles(world, obs1, obs2, names, snap1, snap2, glob_vids, check_second):
        chk.violation(sig, what, {"component": "EventsSummary", "case": m, "detail": detail})
    return nev, glob_vids


# ---- node aggregation ----------------------------------------------------------------------------
def make_runner(out, jobnames):
    from jade.jobs.job_runner import JobRunner
    sc = {"jobs": [{"name": n, "deps": [], "group": "g"} for n in jobnames], "groups": [{"name": "g", "size": 50}],
          "max_nodes": None}
    cfg = jadeenv.make_config(sc)
    old = os.environ.get("SLURM_NODEID")
    os.environ["SLURM_NODEID"] = "0"
    try:
        return JobRunner(cfg, out, batch_id=1)
    finally:
        if old is None:
            os.environ.pop("SLURM_NODEID", None)
        else:
            os.environ["SLURM_NODEID"] = old


AGG_FN = ("fun c => match c with (jobs, node, fs) => let r := aggregate jobs node fs in "
          "(map e_payload (fst r), map (fun p => (fst p, map e_payload (snd p))) (snd r)) end")
AGG_IN = "list string * list event * list (string * list event)"
AGG_OUT = "list N * list (string * list N)"
AGG_EQB = "prod_eqb (list_eqb N.eqb) (list_eqb (prod_eqb String.eqb (list_eqb N.eqb)))"


def run_aggregation_case(chk, cmp_, rng, out):
    njobs = rng.randint(1, 6)
    jobnames = [f"job{k}" for k in range(1, njobs + 1)]
    rng.shuffle(jobnames)
    runner = make_runner(out, jobnames)
    world = EventWorld(out)
    node_file = runner.event_filename
    names_pool = rng.sample(JSON_NAMES, 3)
    for _ in range(rng.choice([0, 1, 3])):
        world.log_real(node_file, gen_event_spec(rng, names_pool, explicit_ts=rng.random() < 0.5))
    with_files = [j for j in jobnames if rng.random() < 0.6] + (["stray_job"] if rng.random() < 0.4 else [])
    job_file = {j: os.path.join(out, "job-outputs", j, "events.log") for j in with_files}
    for j in with_files:
        for _ in range(rng.randint(1, 3)):
            world.log_real(job_file[j], gen_event_spec(rng, names_pool, explicit_ts=rng.random() < 0.5))
    node_before = world.vids_of_file(node_file) if os.path.exists(node_file) else []
    fs_before = [(j, world.vids_of_file(job_file[j])) for j in with_files]
    runner._aggregate_events()
    node_after = world.vids_of_file(node_file)
    fs_after = [(j, world.vids_of_file(job_file[j])) for j in with_files if os.path.exists(job_file[j])]
    config_order = [j.name for j in runner.config.iter_jobs()]
    inp = (f"({clist([cstr(j) for j in config_order])}, {world.file_term(node_before)}, "
           f"{clist(['(%s, %s)' % (cstr(j), world.file_term(v)) for j, v in fs_before])})")
    exp = (f"({clist([cN(v) for v in node_after])}, "
           f"{clist(['(%s, %s)' % (cstr(j), clist([cN(x) for x in v])) for j, v in fs_after])})")
    meta = {"jobs": config_order, "node_before": node_before, "job_files_before": fs_before, "node_after": node_after,
            "job_files_after": fs_after}
    cmp_.add(inp, exp, meta)
    chk.count(("aggregate", inp), nontrivial=bool(fs_before))
    # oracles on impl
    before = collections.Counter(node_before + [v for _, vs in fs_before for v in vs])
    after = collections.Counter(node_after + [v for _, vs in fs_after for v in vs])
    if before != after:
        chk.violation("aggregation-loses-events", "moving job event files into the node file changed the multiset of events",
                      {"component": "JobRunner._aggregate_events", "case": meta})
    if node_after[:len(node_before)] != node_before:
        chk.violation("aggregation-rewrites-node-file", "the node's earlier events moved or vanished",
                      {"component": "JobRunner._aggregate_events", "case": meta})
    if any(j in config_order for j, _ in fs_after) or [j for j, _ in fs_after] != [j for j in with_files if j not in config_order]:
        chk.violation("aggregation-leaves-or-takes-files", "a listed job's events.log is left behind, or another file was touched",
                      {"component": "JobRunner._aggregate_events", "case": meta})
    # end to end: every event of the node + its jobs is in the summary exactly once
    names = sorted(set(names_pool))
    obs = observe_summary(out, names)
    for n in names:
        want = collections.Counter(_canon(world.truth[v]) for v in node_after if world.truth[v]["name"] == n)
        got = collections.Counter(_canon(d) for d in (obs[n]["events"] or []))
        if want != got:
            chk.violation("events-lost-or-duplicated", f"after node aggregation, list_events({n}) is not exactly what was written",
                          {"component": "JobRunner._aggregate_events + EventsSummary", "case": meta, "name": n})
    return bool(fs_before)


def race_probe(out):
    """The summary is consolidated while a node has not yet moved its job event files (the node's
    last result is already recorded): real functions in that order.  -> dict describing what happens."""
    runner = make_runner(out, ["jobA"])
    world = EventWorld(out)
    v_node = world.log_real(runner.event_filename, {"name": "bytes_consumed", "source": "jobA", "category": "ResourceUtilization",
                                                    "message": "job output directory size", "data": {"bytes_consumed": 1}})
    v_job = world.log_real(os.path.join(out, "job-outputs", "jobA", "events.log"),
                           {"name": "unhandled_error", "source": "jobA", "category": "Error", "message": "job failed",
                            "data": {}, "error": True})
    first = observe_summary(out, ["unhandled_error", "bytes_consumed"])     # the completing submitter's report
    runner._aggregate_events()                                               # the node catches up afterwards
    second = observe_summary(out, ["unhandled_error", "bytes_consumed"])
    return {"job_event_id": v_job, "node_event_id": v_node,
            "node_file_after_aggregation": world.vids_of_file(runner.event_filename),
            "summary_before_aggregation": {n: [_vid_of(d) for d in first[n]["events"]] for n in first},
            "summary_after_aggregation": {n: [_vid_of(d) for d in second[n]["events"]] for n in second},
            "job_event_in_summary": v_job in [_vid_of(d) for d in second["unhandled_error"]["events"]]}


# =================================================================================================
# statistics
# =================================================================================================
ONE_MB = 1024 * 1024
CPU_FIELDS = ("user", "nice", "system", "idle", "iowait")
MEM_FIELDS = ("total", "available", "percent", "used", "free")
DISK_FIELDS = ("read_count", "write_count", "read_bytes", "write_bytes", "read_time", "write_time")
NET_FIELDS = ("bytes_recv", "bytes_sent", "dropin", "dropout", "errin", "errout", "packets_recv", "packets_sent")


def series(rng, pattern, n, scale=1):
    if pattern == "increasing":
        v, out = rng.randint(0, 5), []
        for _ in range(n):
            out.append(v)
            v += rng.randint(1, 9)
    elif pattern == "decreasing":
        v, out = rng.randint(10 * n, 20 * n + 5), []
        for _ in range(n):
            out.append(v)
            v -= rng.randint(1, 9)
    elif pattern == "nondecreasing":
        v, out = rng.randint(0, 5), []
        for _ in range(n):
            out.append(v)
            v += rng.choice([0, 0, 1, 3])
    elif pattern == "constant":
        out = [rng.randint(1, 1000)] * n
    elif pattern == "zero":
        out = [0] * n
    elif pattern == "big":
        out = [rng.randint(2 ** 38, 2 ** 40) for _ in range(n)]
    elif pattern == "negative":     # outside the theorem's range: ties c20_stats_outside_range (maximum stays 0)
        out = [-rng.randint(1, 50) for _ in range(n)]
    else:
        out = [rng.randint(0, 100) for _ in range(n)]
    return [x * scale for x in out]


PATTERNS = ["increasing", "decreasing", "nondecreasing", "constant", "zero", "random", "big"]


class FakePsutil:
    """Stand-in for the psutil module inside jade.resource_monitor (library boundary)."""

    def __init__(self, real, script):
        self.script = script          # dict: step -> values; step 0 = construction
        self.step = 0
        self.NoSuchProcess = real.NoSuchProcess
        self.AccessDenied = real.AccessDenied
        self._common = real._common
        self.T = collections.namedtuple
        self.scpu = collections.namedtuple("scputimes", CPU_FIELDS)
        self.smem = collections.namedtuple("svmem", MEM_FIELDS)
        self.sdisk = collections.namedtuple("sdiskio", DISK_FIELDS)
        self.snet = collections.namedtuple("snetio", NET_FIELDS)
        outer = self

        class Process:
            def __init__(self, pid):
                if outer._proc(pid) is None:
                    raise outer.NoSuchProcess(pid)
                self.pid = pid

            def _cur(self):
                v = outer._proc(self.pid)
                if v is None:
                    raise outer.NoSuchProcess(self.pid)
                return v

            def cpu_percent(self, interval=None):
                return self._cur()[1]

            def memory_info(self):
                return types.SimpleNamespace(rss=self._cur()[0])

            def children(self, recursive=False):
                self._cur()
                return [types.SimpleNamespace(pid=c) for c in outer.script.get("children", {}).get(self.pid, [])
                        if outer._proc(c) is not None]

            @contextlib.contextmanager
            def oneshot(self):
                yield
        self.Process = Process

    def _proc(self, pid):
        seq = self.script.get("procs", {}).get(pid)
        if seq is None or self.step >= len(seq):
            return None
        return seq[self.step]

    def _at(self, key, fields):
        seqs = self.script[key]
        return [seqs[f][min(self.step, len(seqs[f]) - 1)] for f in fields]

    def cpu_times_percent(self):
        return self.scpu(*self._at("cpu", CPU_FIELDS))

    def cpu_percent(self):
        return self.script["cpu"]["cpu_percent"][min(self.step, len(self.script["cpu"]["cpu_percent"]) - 1)]

    def virtual_memory(self):
        return self.smem(*self._at("mem", MEM_FIELDS))

    def disk_io_counters(self):
        return self.sdisk(*self._at("disk", DISK_FIELDS))

    def net_io_counters(self):
        return self.snet(*self._at("net", NET_FIELDS))


class FakeClock:
    def __init__(self):
        self.now = 0.0
        self.auto = True

    def time(self):
        v = self.now
        if self.auto:
            self.now += 1.0
        return v


def build_stats_script(rng, nupd):
    """Scripts for nupd updates (+ step 0 for the constructor).  Cumulative counters for disk/net so
    that the per-interval deltas are the integer series wanted (multiples of 4 MiB / 4 so that the
    derived MB/s and IOPS values are integers for elapsed times 1, 2, 4)."""
    n = nupd + 1
    sc = {"cpu": {}, "mem": {}, "disk": {}, "net": {}, "procs": {}, "children": {}}
    for f in CPU_FIELDS + ("cpu_percent",):
        sc["cpu"][f] = [rng.randint(0, 100)] + series(rng, rng.choice(PATTERNS[:6]), nupd)
    for f in MEM_FIELDS:
        sc["mem"][f] = [rng.randint(0, 100)] + series(rng, rng.choice(PATTERNS), nupd)
    for key, fields, scale in (("disk", DISK_FIELDS, 4), ("net", NET_FIELDS, 4)):
        for f in fields:
            mult = scale * ONE_MB if "bytes" in f else scale
            cum = [rng.randint(0, 1000) * mult]          # step 0: ResourceMonitor.__init__ and the constructor's _get_stats
            for d in series(rng, rng.choice(PATTERNS[:6]), nupd, mult):
                cum.append(cum[-1] + d)
            sc[key][f] = cum
    return sc


def run_stats_case(chk, cmp_node, cmp_proc, rng, out, case_no, pattern_hint=None):
    """One ResourceMonitorAggregator life: construct, nupd updates, finalize."""
    import jade.resource_monitor as rm
    from jade.models.submitter_params import ResourceMonitorStats
    import psutil as real_psutil
    nupd = rng.choice([0, 1, 1, 2, 3, 5, 8, 13])
    flags = {"cpu": rng.random() < 0.8, "disk": rng.random() < 0.5, "memory": rng.random() < 0.8,
             "network": rng.random() < 0.5, "process": rng.random() < 0.6}
    if not any(flags.values()):
        flags["cpu"] = True
    sc = build_stats_script(rng, nupd)
    if pattern_hint:
        for f in sc["cpu"]:
            sc["cpu"][f] = [7] + series(rng, pattern_hint, nupd)
    # processes: pid -> per-step (rss, cpu) or None when the process is gone
    pids = {}
    if flags["process"]:
        for k in range(rng.randint(1, 3)):
            pid = 1000 + k
            start = rng.randint(0, max(0, nupd - 1)) if rng.random() < 0.4 else 0
            stop = rng.randint(start, nupd) if rng.random() < 0.4 else nupd
            rss = series(rng, rng.choice(PATTERNS), nupd + 1)
            cpu = series(rng, rng.choice(PATTERNS[:6]), nupd + 1)
            sc["procs"][pid] = [(rss[s], cpu[s]) if start <= s <= stop else None for s in range(nupd + 1)]
            pids[f"job{k}"] = pid
        if pids and rng.random() < 0.4:
            child = 2000
            rss = series(rng, "random", nupd + 1)
            sc["procs"][child] = [(rss[s], 1) for s in range(nupd + 1)]
            sc["children"][1000] = [child]
    fake = FakePsutil(real_psutil, sc)
    clock = FakeClock()
    stats = ResourceMonitorStats(**flags)
    name = f"resource_monitor_batch_{case_no}"
    node_log, proc_log = [], []
    orig_ps, orig_time = rm.psutil, rm.time
    rm.psutil, rm.time = fake, types.SimpleNamespace(time=clock.time, sleep=lambda s: None)
    try:
        agg = rm.ResourceMonitorAggregator(name, stats)
        g0, p0 = agg._get_stats, agg._get_process_stats

        def rec_stats():
            d = g0()
            node_log.append({rt: dict(v) for rt, v in d.items()})
            return d

        def rec_proc(ids):
            d = p0(ids)
            proc_log.append({pn: dict(v) for pn, v in d.items()})
            return d
        agg._get_stats, agg._get_process_stats = rec_stats, rec_proc   # observation only
        clock.auto = False
        lasts = [agg._monitor._last_disk_check_time, agg._monitor._last_net_check_time]
        t = max(lasts)
        for d in range(1, 9):
            if all((t + d - l) in (1, 2, 4) for l in lasts if (flags["disk"] or flags["network"])):
                t = t + d
                break
        for k in range(1, nupd + 1):
            fake.step = k
            clock.now = float(t + (k - 1))
            agg.update_resource_stats(ids=dict(pids))
        os.makedirs(os.path.join(out, "stats"), exist_ok=True)
        agg.finalize(out)
    finally:
        rm.psutil, rm.time = orig_ps, orig_time
    path = os.path.join(out, "stats", f"{name}_resource_stats.json")
    report = json.load(open(path)) if os.path.exists(path) else None
    # --- samples actually taken
    node_samples = collections.defaultdict(list)      # (type, stat) -> [values]
    for d in node_log:
        for rt, sd in d.items():
            for sn, v in sd.items():
                node_samples[(rt, sn)].append(v)
    proc_samples = collections.defaultdict(list)      # (process, stat) -> [values]
    for d in proc_log:
        for pn, sd in d.items():
            for sn, v in sd.items():
                proc_samples[(pn, sn)].append(v)
    meta_base = {"flags": flags, "updates": nupd, "batch": name}
    nontrivial = False
    if nupd == 0:
        if report is not None:
            chk.violation("stats-report-without-samples", "a statistics report was written although no sample was taken",
                          {"component": "ResourceMonitorAggregator.finalize", "case": meta_base, "report": report})
        cmp_node.add("([], (0%Z, 0%Z, 1%Z, 1%positive))", "None", dict(meta_base, kind="no-samples"))
        chk.count(("stats-none", case_no), nontrivial=False)
        return False
    if report is None:
        chk.violation("stats-report-missing", "no statistics report although samples were taken",
                      {"component": "ResourceMonitorAggregator.finalize", "case": meta_base})
        return False
    by_type = {e["type"]: e for e in report if e["type"] != "Process"}
    for (rt, sn), vals in sorted(node_samples.items()):
        e = by_type.get(rt)
        got = None if e is None else (e["minimum"].get(sn), e["maximum"].get(sn), e["average"].get(sn))
        meta = dict(meta_base, kind="node", type=rt, stat=sn, samples=vals, impl_min_max_avg=got)
        _judge_stat(chk, cmp_node, vals, got, meta, "ResourceMonitorAggregator (node statistics)", node=True)
        nontrivial = True
    procs = {e["name"]: e for e in report if e["type"] == "Process"}
    if set(procs) != {pn for pn, _ in proc_samples}:
        chk.violation("stats-process-set", "process summaries are not exactly the processes sampled",
                      {"component": "ResourceMonitorAggregator.finalize", "case": meta_base,
                       "reported": sorted(procs), "sampled": sorted({pn for pn, _ in proc_samples})})
    for (pn, sn), vals in sorted(proc_samples.items()):
        e = procs.get(pn)
        got = None if e is None else (e["minimum"].get(sn), e["maximum"].get(sn), e["average"].get(sn))
        meta = dict(meta_base, kind="process", process=pn, stat=sn, samples=vals, impl_min_max_avg=got,
                    impl_samples=None if e is None else e.get("samples"))
        if e is not None and e.get("samples") != len(vals):
            chk.violation("stats-process-count", "process sample count is wrong",
                          {"component": "ResourceMonitorAggregator", "case": meta})
        _judge_stat(chk, cmp_proc, vals, got, meta, "ResourceMonitorAggregator (process statistics)", node=False)
        nontrivial = True
    return nontrivial


def _frac(x):
    return Fraction(x)   # exact for ints and floats


def _judge_stat(chk, cmp_, vals, got, meta, component, node):
    """Python oracle (true min / max / mean over the samples taken) + the case for the coqc comparison."""
    if got is None or any(g is None for g in got):
        chk.violation("stats-missing-entry", "a sampled statistic is missing from the report", {"component": component, "case": meta})
        return
    fr = [_frac(v) for v in vals]
    true_min, true_max, true_mean = min(fr), max(fr), sum(fr) / len(fr)
    gmin, gmax, gavg = (_frac(g) for g in got)
    in_range = all(0 <= v <= 2 ** 63 - 1 for v in fr)
    integral = all(v.denominator == 1 for v in fr) and sum(fr) < 2 ** 53
    if in_range or not node:
        if gmin != true_min:
            chk.violation("stats-minimum-wrong", f"reported minimum {got[0]} is not the minimum {float(true_min)} of the samples",
                          {"component": component, "case": meta})
        if gmax != true_max:
            chk.violation("stats-maximum-wrong", f"reported maximum {got[1]} is not the maximum {float(true_max)} of the samples",
                          {"component": component, "case": meta})
    if integral:
        want_avg = int(sum(fr)) / len(fr)        # correctly rounded quotient of exact integers
        if got[2] != want_avg:
            chk.violation("stats-average-wrong", f"reported average {got[2]} is not the mean {want_avg} of the samples",
                          {"component": component, "case": meta})
    elif abs(gavg - true_mean) > abs(true_mean) * Fraction(1, 10 ** 9):
        chk.violation("stats-average-wrong", f"reported average {got[2]} is not the mean {float(true_mean)} of the samples",
                      {"component": component, "case": meta})
    chk.count(("stat", meta.get("type") or meta.get("process"), meta["stat"], tuple(vals)), nontrivial=len(vals) > 1)
    if integral and all(g.denominator == 1 for g in (gmin, gmax)):
        inp = f"({clist([cZ(int(v)) for v in fr])}, ({cZ(int(gmin))}, {cZ(int(gmax))}, {cZ(gavg.numerator)}, {gavg.denominator}%positive))"
        cmp_.add(inp, "(Some true)", meta)


STATS_PRELUDE = """
From Coq Require Import Qabs.
Definition close (a b : Q) : bool := Qle_bool (Qabs (a - b) * (4503599627370496 # 1)) (Qabs a).
Definition judge (s : summ) (e : Z * Z * Z * positive) : bool :=
  match e with (mn, mx, an, ad) => Z.eqb (s_min s) mn && Z.eqb (s_max s) mx && close (average s) (an # ad) end.
Definition node_case (c : list Z * (Z * Z * Z * positive)) : option bool :=
  match node_finalize (node_run (fst c)) with None => None | Some _ => Some (judge (node_run (fst c)) (snd c)) end.
Definition proc_case (c : list Z * (Z * Z * Z * positive)) : option bool :=
  match proc_run (fst c) with None => None | Some s => Some (judge s (snd c)) end.
"""
STATS_IN = "list Z * (Z * Z * Z * positive)"
STATS_OUT = "option bool"
STATS_EQB = "option_eqb Bool.eqb"


# =================================================================================================
# tallies
# =================================================================================================
TALLY_FN = ("fun c => match c with (jobs, rows) => "
            "(completion_summary jobs rows, missing_jobs jobs rows, "
            "match by_type rows with (s, f, k) => (map r_name s, map r_name f, map r_name k) end, "
            "(map r_name (successful_results rows), map r_name (failed_results rows), map r_name (canceled_results rows)), "
            "summary_missing jobs rows) end")
TALLY_IN = "list string * list row"
TALLY_OUT = ("option (N * N * N * N) * list string * (list string * list string * list string) * "
             "(list string * list string * list string) * list string")
_L = "(list_eqb String.eqb)"
_T3 = f"(prod_eqb (prod_eqb {_L} {_L}) {_L})"
TALLY_EQB = (f"prod_eqb (prod_eqb (prod_eqb (prod_eqb (option_eqb (prod_eqb (prod_eqb (prod_eqb N.eqb N.eqb) N.eqb) N.eqb)) {_L}) "
             f"{_T3}) {_T3}) {_L}")

BUILD_FN = "fun c => build_summary_counts (fst c) (snd c)"
BUILD_IN = "list row * list string"
BUILD_OUT = "option (N * N * N * N)"
BUILD_EQB = "option_eqb (prod_eqb (prod_eqb (prod_eqb N.eqb N.eqb) N.eqb) N.eqb)"


def row_term(name, rc, status):
    return f"mkRow {cstr(name)} {cZ(rc)} {cstr(status)}"


def truth_class(rc, status):
    """independent reading of the property's classes"""
    if status == "finished":
        return "successful" if rc == 0 else "failed"
    if status == "canceled" and rc != 0:
        return "canceled"
    return None


_NUM_RE = {k: re.compile(rf"^Num {k}: (\d+)$", re.M) for k in ("successful", "failed", "canceled", "missing")}
_TOTAL_RE = re.compile(r"^Total: (\d+)$", re.M)


def run_completion_case(chk, cmp_, rng, out, jobnames, rows, case_meta):
    """rows: [(name, rc, status)] in the order they are recorded.  The real path: ResultsAggregator
    files -> JobSubmitter._handle_completion -> results.json -> ResultsSummary."""
    from jade.jobs.job_submitter import JobSubmitter
    from jade.jobs.cluster import Cluster
    from jade.jobs.results_aggregator import ResultsAggregator
    from jade.result import Result, ResultsSummary
    from jade.common import RESULTS_FILE
    sc = {"jobs": [{"name": n, "deps": [], "group": "g"} for n in jobnames], "groups": [{"name": "g", "size": 50}],
          "max_nodes": None}
    cfg = jadeenv.make_config(sc)
    os.makedirs(out)
    mgr = JobSubmitter.create(cfg, out)
    cluster = Cluster.create(out, cfg)
    ResultsAggregator.create(out)
    for i, (n, rc, st) in enumerate(rows):
        ResultsAggregator.append(out, Result(n, rc, st, float(i), 1000.0 + i, hpc_job_id=None), batch_id=1 + i % 2)
    ResultsAggregator.load(out).process_results()
    recorded = [(r.name, r.return_code, r.status) for r in ResultsAggregator.list_results(out)]
    from jade.loggers import setup_event_logging, close_event_logging
    setup_event_logging(os.path.join(out, "submit_jobs_events.log"), mode="a")   # as `jade submit-jobs` does
    logs = []

    class H(logging.Handler):
        def emit(self, record):
            logs.append(record.getMessage())
    h = H()
    jl = logging.getLogger("jade.jobs.job_submitter")
    old_level, old_disabled = jl.level, jl.disabled
    jl.addHandler(h)
    jl.setLevel(logging.INFO)
    impl = {}
    try:
        try:
            mgr._handle_completion(cluster)
            data = json.load(open(os.path.join(out, RESULTS_FILE)))
            s = data["results_summary"]
            impl["summary"] = (s["num_successful"], s["num_failed"], s["num_canceled"], s["num_missing"])
            impl["missing"] = list(data["missing_jobs"])
            impl["rows_in_file"] = [(r["name"], r["return_code"], r["status"]) for r in data["results"]]
        except AssertionError:
            impl["summary"] = None
    finally:
        jl.removeHandler(h)
        jl.setLevel(old_level)
        close_event_logging()
    meta = dict(case_meta, jobs=jobnames, rows=recorded)
    sorted_jobs = sorted(jobnames)
    if impl["summary"] is None:
        # tie of the assert branch only
        cmp_b = case_meta["cmp_build"]
        cmp_b.add(f"({clist([row_term(*r) for r in recorded])}, [])", "None", dict(meta, impl="AssertionError"))
        chk.count(("tally-assert", tuple(recorded)), nontrivial=True)
        if all(truth_class(rc, st) for _, rc, st in recorded):
            chk.violation("tally-assert-on-writable-rows", "the tally asserts on rows JADE itself writes",
                          {"component": "JobSubmitter._build_results", "case": {k: v for k, v in meta.items() if k != "cmp_build"}})
        return
    rs = ResultsSummary(out)
    bt = rs.get_results_by_type()
    impl["by_type"] = tuple([r.name for r in bt[k]] for k in ("successful", "failed", "canceled"))
    impl["filters"] = ([r.name for r in rs.get_successful_results()], [r.name for r in rs.get_failed_results()],
                       [r.name for r in rs.get_canceled_results()])
    expected_jobs = sorted(cfg.iter_jobs(), key=lambda j: j.name)
    impl["summary_missing"] = [j.name for j in rs.get_missing_jobs(expected_jobs)]
    buf = io.StringIO()
    show_err = None
    with contextlib.redirect_stdout(buf):
        try:
            rs.show_results()
        except AssertionError as e:
            show_err = repr(e)
    txt = buf.getvalue()
    shown = {k: (int(m.group(1)) if (m := rx.search(txt)) else None) for k, rx in _NUM_RE.items()}
    mt = _TOTAL_RE.search(txt)
    shown["total"] = int(mt.group(1)) if mt else None
    impl["shown"] = shown
    impl["log_line"] = next((l for l in logs if l.startswith("Successful=")), None)
    meta = {k: v for k, v in dict(meta, impl=impl).items() if k != "cmp_build"}
    # ---- model comparison (ResultsSummary keeps one row per name: the dict of results.json)
    uniq = len({n for n, _, _ in recorded}) == len(recorded)
    if uniq:
        inp = f"({clist([cstr(j) for j in sorted_jobs])}, {clist([row_term(*r) for r in recorded])})"
        s4 = impl["summary"]
        L = lambda xs: clist([cstr(x) for x in xs])
        exp = (f"((Some ({cN(s4[0])}, {cN(s4[1])}, {cN(s4[2])}, {cN(s4[3])})), {L(impl['missing'])}, "
               f"({L(impl['by_type'][0])}, {L(impl['by_type'][1])}, {L(impl['by_type'][2])}), "
               f"({L(impl['filters'][0])}, {L(impl['filters'][1])}, {L(impl['filters'][2])}), {L(impl['summary_missing'])})")
        cmp_.add(inp, exp, meta)
    else:
        # duplicated rows: outside the theorem's hypotheses; the summary block and the missing list are still tied
        s4 = impl["summary"]
        case_meta["cmp_dup"].add(f"({clist([cstr(j) for j in sorted_jobs])}, {clist([row_term(*r) for r in recorded])})",
                                 f"((Some ({cN(s4[0])}, {cN(s4[1])}, {cN(s4[2])}, {cN(s4[3])})), {clist([cstr(x) for x in impl['missing']])})",
                                 meta)
    chk.count(("tally", tuple(sorted_jobs), tuple(recorded)), nontrivial=bool(recorded))
    # ---- property oracles (only under the property's own hypotheses: one row per job, rows JADE writes)
    if not uniq or not set(n for n, _, _ in recorded) <= set(jobnames):
        return
    truth = {n: truth_class(rc, st) for n, rc, st in recorded}
    if any(v is None for v in truth.values()):
        return
    classes = {"successful": set(impl["filters"][0]), "failed": set(impl["filters"][1]), "canceled": set(impl["filters"][2]),
               "missing": set(impl["missing"])}
    problems = []
    for j in jobnames:
        inside = [k for k, s in classes.items() if j in s]
        want = truth.get(j, "missing")
        if inside != [want]:
            problems.append({"job": j, "expected_class": want, "reported_in": inside})
    s4 = impl["summary"]
    if sum(s4) != len(jobnames):
        problems.append({"summary_total": sum(s4), "jobs": len(jobnames)})
    want_counts = tuple(sum(1 for j in jobnames if truth.get(j, "missing") == k) for k in ("successful", "failed", "canceled", "missing"))
    if tuple(s4) != want_counts:
        problems.append({"summary_block": s4, "expected": want_counts})
    if tuple(len(x) for x in impl["by_type"]) != want_counts[:3] or \
            [set(x) for x in impl["by_type"]] != [classes["successful"], classes["failed"], classes["canceled"]]:
        problems.append({"get_results_by_type": impl["by_type"], "expected_counts": want_counts[:3]})
    if sorted(impl["summary_missing"]) != sorted(impl["missing"]):
        problems.append({"ResultsSummary.get_missing_jobs": impl["summary_missing"], "missing_jobs": impl["missing"]})
    if show_err or (shown["successful"], shown["failed"], shown["canceled"], shown["missing"]) != want_counts \
            or shown["total"] != len(jobnames):
        problems.append({"show_results": shown, "error": show_err, "expected": want_counts})
    if sorted(impl["rows_in_file"]) != sorted(recorded):
        problems.append({"results_json_rows": impl["rows_in_file"]})
    if problems:
        chk.violation("tally-wrong", "the results summary does not count each job in exactly one of successful/failed/canceled/missing",
                      {"component": "JobSubmitter._handle_completion/_build_results + ResultsSummary", "case": meta,
                       "problems": problems})
    # informational: the logged Total leaves the canceled jobs out
    if impl["log_line"] and want_counts[2] > 0:
        mm = re.search(r"Total=(\d+)", impl["log_line"])
        if mm and int(mm.group(1)) != len(jobnames):
            chk.notes.setdefault("observations", {})["log_total_omits_canceled"] = {
                "log_line": impl["log_line"], "jobs": len(jobnames), "rows": recorded[:8]}


def run_build_results_case(chk, cmp_, mgr, rows, missing):
    """JobSubmitter._build_results directly (any rows, including ones JADE never writes)."""
    from jade.result import Result
    mgr._results = [Result(n, rc, st, 1.0, 1.0) for n, rc, st in rows]
    try:
        s = mgr._build_results(list(missing))["summary"]
        got = (s["num_successful"], s["num_failed"], s["num_canceled"], s["num_missing"])
        exp = f"(Some ({cN(got[0])}, {cN(got[1])}, {cN(got[2])}, {cN(got[3])}))"
    except AssertionError:
        got, exp = None, "None"
    finally:
        mgr._results = []
    cmp_.add(f"({clist([row_term(*r) for r in rows])}, {clist([cstr(m) for m in missing])})", exp,
             {"rows": rows, "missing": missing, "impl": got})
    chk.count(("build", tuple(rows), tuple(missing)), nontrivial=bool(rows))
    writable = all(truth_class(rc, st) for _, rc, st in rows)
    if writable:
        want = tuple(sum(1 for _, rc, st in rows if truth_class(rc, st) == k) for k in ("successful", "failed", "canceled")) + (len(missing),)
        if got != want:
            chk.violation("tally-wrong", "_build_results miscounts rows JADE writes",
                          {"component": "JobSubmitter._build_results", "rows": rows, "missing": missing, "impl": got, "expected": want})
    return got
